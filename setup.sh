#!/bin/sh
# Builds the static analyser from files on disk only (offline).
set -e
cd "$(dirname "$0")/engine"
export GOFLAGS=-mod=mod GOPROXY=off GOSUMDB=off GOTOOLCHAIN=local GONOSUMDB=* GONOSUMCHECK=1
unset GOWORK
mkdir -p ../bin ../evidence
go build -o ../bin/evcheck .
echo "built /verif/bin/evcheck"

#!/usr/bin/env python3
"""Adds to mutants/<prop>.json (replayed by the thorough tier): every confirmed seed as a patch-mutant of the properties whose
check reports it, and every refactoring patch that once raised a false alarm on a property as an expect_ok entry of that property."""
import json, os, re
VERIF = os.path.dirname(os.path.dirname(os.path.abspath(__file__)))
REFACTOR_REGRESSIONS = {  # patch -> properties whose check once false-alarmed on it (DESIGN 7.5b)
    "A/r01": ["C15"], "A/r02": ["C04"], "A/r03": ["C02"], "A/r04": ["C03"], "A/r05": ["C02"], "A/r06": ["C17"], "A/r08": ["C13", "C15"], "A/r09": ["C06"],
    "B/r02": ["C09"], "B/r04": ["C06"], "B/r08": ["C07"], "B/r09": ["C07"], "B/r10": ["C09", "C20"],
    "C/r02": ["C10"], "C/r05": ["C11"], "C/r10": ["C17"], "D/r06": ["C20"], "D/r10": ["C19"],
    "E/r02": ["C05", "C13"], "E/r03": ["C05"], "E/r04": ["C02", "C04"], "E/r06": ["C15"], "E/r07": ["C15"],
    "F/r01": ["C07"], "F/r03": ["C07"], "F/r04": ["C16"], "F/r09": ["C16"],
}

def load(prop):
    p = os.path.join(VERIF, "mutants", prop + ".json")
    return p, (json.load(open(p)) if os.path.exists(p) else [])

def main():
    added = 0
    sdir = os.path.join(VERIF, "seeded")
    for seed in sorted(os.listdir(sdir)):
        d = os.path.join(sdir, seed)
        if not os.path.exists(os.path.join(d, "patch.diff")) or not os.path.exists(os.path.join(d, "detection.json")):
            continue
        log = open(os.path.join(d, "confirm.log")).read() if os.path.exists(os.path.join(d, "confirm.log")) else ""
        if "VERDICT=CONFIRMED" not in log:
            continue
        det = json.load(open(os.path.join(d, "detection.json")))
        for prop in det.get("caught_by", []):
            p, m = load(prop)
            mid = "seed-" + seed
            if any(x["id"] == mid or x["id"].startswith(mid + "-") for x in m):
                continue
            rep = (det["results"][prop]["reports"] or [""])[0]
            mm = re.match(r"violated: (R\d+) ", rep)
            m.append({"id": mid, "patch": f"seeded/{seed}/patch.diff", "expect": mm.group(1) if mm else "", "why": f"confirmed sub-agent seed {seed} (see seeded/{seed}/meta.json)"})
            json.dump(m, open(p, "w"), indent=1)
            added += 1
    for pt, props in REFACTOR_REGRESSIONS.items():
        for prop in props:
            p, m = load(prop)
            mid = "refactor-" + pt.replace("/", "-")
            if any(x["id"] == mid for x in m):
                continue
            m.append({"id": mid, "patch": f"refactors/{pt}.diff", "expect_ok": True, "why": "behaviour-preserving refactoring by a sub-agent that once raised a false alarm on this check"})
            json.dump(m, open(p, "w"), indent=1)
            added += 1
    print("added", added)

if __name__ == "__main__":
    main()

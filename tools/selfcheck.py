#!/usr/bin/env python3
"""Self-validation of the checker (DESIGN 2.5): apply one mutant at a time to a scratch copy of /repo,
run the same evcheck binary on it, require exit 1 and a report naming the expected rule/construct.

Mutants are described in /verif/mutants/Cxx.json:
  [{"id": "...", "file": "path/in/repo.go", "old": "exact text (must occur once)", "new": "replacement",
    "expect": "substring expected in a `violated:` line", "why": "what the edit breaks"}]
A mutant may have "edits": [{"file","old","new"}, ...] instead of file/old/new, or "patch": "<path under /verif of a unified diff>".
"expect_ok": true marks a behaviour-preserving refactor on which the check must stay silent.
"""
import json, os, shutil, subprocess, sys, argparse, tempfile, concurrent.futures, time

VERIF = os.path.dirname(os.path.dirname(os.path.abspath(__file__)))
SCRATCH = os.environ.get("VERIF_SCRATCH", "/var/tmp/verif-scratch")

def run_mutant(prop, m, repo, tier):
    d = tempfile.mkdtemp(prefix=f"{prop}-{m['id']}-", dir=SCRATCH)
    try:
        dst = os.path.join(d, "repo")
        shutil.copytree(repo, dst, ignore=shutil.ignore_patterns(".git", "build"), symlinks=True)
        if m.get("patch"):
            # a unified diff kept under /verif (a confirmed seed or a behaviour-preserving refactoring)
            pp = subprocess.run(["patch", "-p1", "-s", "-d", dst, "-i", os.path.join(VERIF, m["patch"])], capture_output=True, text=True)
            if pp.returncode != 0:
                return (m["id"], "SKIP", "patch does not apply (tree changed?): " + (pp.stdout + pp.stderr)[-200:])
        edits = m.get("edits") or ([] if m.get("patch") else [{"file": m["file"], "old": m["old"], "new": m["new"]}])
        for e in edits:
            p = os.path.join(dst, e["file"])
            if e.get("create"):
                os.makedirs(os.path.dirname(p), exist_ok=True)
                open(p, "w").write(e["new"])
                continue
            s = open(p).read()
            n = s.count(e["old"])
            if n != 1:
                return (m["id"], "SKIP", f"anchor text occurs {n} times in {e['file']} (tree changed?)")
            open(p, "w").write(s.replace(e["old"], e["new"]))
        out = os.path.join(d, "ev")
        t = time.time()
        pr = subprocess.run([os.path.join(VERIF, "bin/evcheck"), "-property", prop, "-tier", tier, "-repo", dst, "-out", out, "-verif", VERIF],
                            capture_output=True, text=True)
        txt = pr.stdout + pr.stderr
        dt = time.time() - t
        if "does not load" in txt or "engine load" in txt:
            return (m["id"], "BROKEN-MUTANT", "mutant does not type-check: " + txt[-400:])
        if m.get("expect_ok"):
            if pr.returncode == 0:
                return (m["id"], "SILENT-OK", f"{dt:.0f}s")
            return (m["id"], "FALSE-ALARM", txt[-1500:])
        viol = [l for l in txt.splitlines() if l.startswith("violated:") or l.startswith("undecided:")]
        if pr.returncode != 1 or not viol:
            return (m["id"], "MISSED", f"exit={pr.returncode} {dt:.0f}s " + txt[-300:])
        exp = m.get("expect", "")
        hit = [l for l in viol if exp in l]
        if not hit:
            return (m["id"], "WRONG-SITE", f"expected '{exp}' in: " + " | ".join(viol)[:800])
        return (m["id"], "CAUGHT", f"{dt:.0f}s {hit[0][:160]}")
    finally:
        shutil.rmtree(d, ignore_errors=True)

def main():
    ap = argparse.ArgumentParser()
    ap.add_argument("-p", "--property", action="append")
    ap.add_argument("-m", "--mutant", action="append")
    ap.add_argument("-j", type=int, default=4)
    ap.add_argument("--repo", default="/repo")
    ap.add_argument("--tier", default="quick")
    ap.add_argument("--merge-evidence")
    a = ap.parse_args()
    os.makedirs(SCRATCH, exist_ok=True)
    jobs = []
    for f in sorted(os.listdir(os.path.join(VERIF, "mutants"))):
        if not f.endswith(".json"):
            continue
        prop = f[:-5]
        if a.property and prop not in a.property:
            continue
        for m in json.load(open(os.path.join(VERIF, "mutants", f))):
            if a.mutant and m["id"] not in a.mutant:
                continue
            jobs.append((prop, m))
    bad = 0
    results = []
    with concurrent.futures.ThreadPoolExecutor(a.j) as ex:
        futs = {ex.submit(run_mutant, p, m, a.repo, a.tier): (p, m) for p, m in jobs}
        for fu in concurrent.futures.as_completed(futs):
            p, m = futs[fu]
            mid, st, info = fu.result()
            print(f"{p} {mid:40s} {st:14s} {info}", flush=True)
            results.append({"mutant": mid, "result": st, "why": m.get("why", ""), "info": info[:200]})
            if st not in ("CAUGHT", "SILENT-OK", "SKIP"):
                bad += 1
    print(f"selfcheck: {len(jobs)} mutants, {bad} not as expected")
    if a.merge_evidence and os.path.exists(a.merge_evidence):
        ev = json.load(open(a.merge_evidence))
        results.sort(key=lambda r: r["mutant"])
        ev["coverage"]["selfcheck"] = {"what": "mutant replay on scratch copies of /repo's current tree with the same analyser binary (DESIGN 2.5)",
                                       "mutants": len(jobs), "as_expected": len(jobs) - bad, "results": results}
        json.dump(ev, open(a.merge_evidence, "w"), indent=1)
    sys.exit(1 if bad else 0)

if __name__ == "__main__":
    main()

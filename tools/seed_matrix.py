#!/usr/bin/env python3
"""Runs the checks against every confirmed seeded change (sub-agent breakage) on scratch copies of /repo
and records which checks report it: seeded/<id>/detection.json, seeded/<id>/meta.json, seeded/MATRIX.md.

usage: seed_matrix.py [-s SEED ...] [-j N] [--all-props]
Each seed is evaluated against its own property, the properties listed in NEIGHBOURS, and every cheap (non call-graph) check.
"""
import argparse, concurrent.futures, json, os, shutil, subprocess, tempfile, time

VERIF = os.path.dirname(os.path.dirname(os.path.abspath(__file__)))
SCRATCH = os.environ.get("VERIF_SCRATCH", "/var/tmp/verif-scratch")
L4 = {"C01", "C03", "C04", "C08", "C11", "C12"}
ALL = ["C%02d" % i for i in range(1, 21)]
# L4 checks that are also worth running for a seed of the given property
NEIGHBOURS = {
    "C01": ["C03"], "C02": ["C03", "C04"], "C03": ["C08", "C12"], "C04": ["C03"], "C05": [], "C06": [], "C07": [],
    "C08": ["C03"], "C09": ["C01"], "C10": ["C12", "C04", "C03"], "C11": ["C12", "C03"], "C12": ["C11", "C03"], "C13": [],
    "C14": [], "C15": ["C04", "C03"], "C16": [], "C17": ["C12"], "C18": [], "C19": [], "C20": ["C01"],
}


def prepare(seed):
    d = tempfile.mkdtemp(prefix=f"seed-{seed}-", dir=SCRATCH)
    dst = os.path.join(d, "repo")
    shutil.copytree("/repo", dst, ignore=shutil.ignore_patterns(".git", "build"), symlinks=True)
    pr = subprocess.run(["git", "apply", "--unsafe-paths", "--directory", dst, os.path.join(VERIF, "seeded", seed, "patch.diff")],
                        capture_output=True, text=True, cwd="/")
    if pr.returncode != 0:
        # retry with patch(1), which tolerates moved context
        pr = subprocess.run(["patch", "-p1", "-d", dst, "-i", os.path.join(VERIF, "seeded", seed, "patch.diff")], capture_output=True, text=True)
        if pr.returncode != 0:
            shutil.rmtree(d, ignore_errors=True)
            return None, None, (pr.stdout + pr.stderr)[-400:]
    return d, dst, ""


def run_check(prop, dst, d):
    out = os.path.join(d, "ev-" + prop)
    t = time.time()
    pr = subprocess.run([os.path.join(VERIF, "bin/evcheck"), "-property", prop, "-repo", dst, "-out", out, "-verif", VERIF],
                        capture_output=True, text=True)
    lines = [l for l in (pr.stdout + pr.stderr).splitlines() if l.startswith(("violated:", "undecided:"))]
    return prop, pr.returncode, lines, time.time() - t


def main():
    ap = argparse.ArgumentParser()
    ap.add_argument("-s", "--seed", action="append")
    ap.add_argument("-j", type=int, default=4)
    ap.add_argument("--all-props", action="store_true")
    a = ap.parse_args()
    os.makedirs(SCRATCH, exist_ok=True)
    seeds = sorted(s for s in os.listdir(os.path.join(VERIF, "seeded")) if os.path.exists(os.path.join(VERIF, "seeded", s, "patch.diff")))
    if a.seed:
        seeds = [s for s in seeds if s in a.seed]
    for seed in seeds:
        sd = os.path.join(VERIF, "seeded", seed)
        own = seed[:3]
        props = ALL if a.all_props else sorted(set([own] + NEIGHBOURS.get(own, []) + [p for p in ALL if p not in L4]))
        d, dst, err = prepare(seed)
        if d is None:
            print(seed, "PATCH-DOES-NOT-APPLY", err)
            json.dump({"seed": seed, "error": "patch does not apply to the current tree: " + err}, open(os.path.join(sd, "detection.json"), "w"), indent=1)
            continue
        res = {}
        try:
            with concurrent.futures.ThreadPoolExecutor(a.j) as ex:
                for prop, rc, lines, dt in ex.map(lambda p: run_check(p, dst, d), props):
                    res[prop] = {"exit": rc, "reports": [l[:400] for l in lines[:6]], "wall_s": round(dt, 1)}
        finally:
            shutil.rmtree(d, ignore_errors=True)
        caught = sorted(p for p, v in res.items() if v["exit"] == 1)
        json.dump({"seed": seed, "property": own, "checks_run": props, "caught_by": caught, "results": res}, open(os.path.join(sd, "detection.json"), "w"), indent=1)
        print(seed, "caught by", caught or "NONE", flush=True)


if __name__ == "__main__":
    main()

#!/bin/sh
# validates MANIFEST.json and every evidence file against the given schemas
cd "$(dirname "$0")/.."
python3-vt - <<'PY'
import json,jsonschema,glob
jsonschema.validate(json.load(open('MANIFEST.json')),json.load(open('/root/.vp/MANIFEST.schema.json')));print('manifest ok')
s=json.load(open('/root/.vp/EVIDENCE.schema.json'))
for f in sorted(glob.glob('evidence/C??.json')):
    jsonschema.validate(json.load(open(f)),s)
print('evidence ok')
PY

#!/bin/bash
# usage: confirm_queue.sh <id>... — confirms seeds one at a time (global lock), worktree at /tmp/seed/<id>
for s in "$@"; do
  flock /tmp/confirm.lock bash /verif/tools/confirm_seed.sh "$s" "/tmp/seed/$s" > "/tmp/seed/$s.confirm.out" 2>&1
done

#!/usr/bin/env python3
"""Runs every check against behaviour-preserving refactorings of /repo (patches under /verif/refactors/<set>/rNN.diff,
produced by sub-agents that saw nothing of /verif) on scratch copies; a check that exits non-zero on one of them is a
FALSE ALARM to be fixed in the checker.  usage: refactor_eval.py [-s SET] [-p PATCH] [-j N] [--props C01,C02]"""
import argparse, concurrent.futures, json, os, shutil, subprocess, tempfile, time

VERIF = os.path.dirname(os.path.dirname(os.path.abspath(__file__)))
SCRATCH = os.environ.get("VERIF_SCRATCH", "/var/tmp/verif-scratch")
ALL = ["C%02d" % i for i in range(1, 21)]


def run_check(prop, dst, d):
    out = os.path.join(d, "ev-" + prop)
    pr = subprocess.run([os.path.join(VERIF, "bin/evcheck"), "-property", prop, "-repo", dst, "-out", out, "-verif", VERIF], capture_output=True, text=True)
    lines = [l for l in (pr.stdout + pr.stderr).splitlines() if l.startswith(("violated:", "undecided:"))]
    return prop, pr.returncode, lines


def main():
    ap = argparse.ArgumentParser()
    ap.add_argument("-s", "--set", action="append")
    ap.add_argument("-p", "--patch", action="append")
    ap.add_argument("-j", type=int, default=5)
    ap.add_argument("--props")
    a = ap.parse_args()
    props = a.props.split(",") if a.props else ALL
    os.makedirs(SCRATCH, exist_ok=True)
    root = os.path.join(VERIF, "refactors")
    results = {}
    rp = os.path.join(root, "RESULTS.json")
    if os.path.exists(rp):
        results = json.load(open(rp))
    for st in sorted(os.listdir(root)):
        if not os.path.isdir(os.path.join(root, st)) or (a.set and st not in a.set):
            continue
        for pf in sorted(os.listdir(os.path.join(root, st))):
            if not pf.endswith(".diff") or (a.patch and pf not in a.patch):
                continue
            d = tempfile.mkdtemp(prefix=f"rf-{st}-{pf}-", dir=SCRATCH)
            try:
                dst = os.path.join(d, "repo")
                shutil.copytree("/repo", dst, ignore=shutil.ignore_patterns(".git", "build"), symlinks=True)
                pr = subprocess.run(["patch", "-p1", "-s", "-d", dst, "-i", os.path.join(root, st, pf)], capture_output=True, text=True)
                if pr.returncode != 0:
                    print(st, pf, "PATCH-DOES-NOT-APPLY", (pr.stdout + pr.stderr)[-200:].replace("\n", " "))
                    results[f"{st}/{pf}"] = {"error": "does not apply to the current tree"}
                    continue
                alarms = {}
                with concurrent.futures.ThreadPoolExecutor(a.j) as ex:
                    for prop, rc, lines in ex.map(lambda p: run_check(p, dst, d), props):
                        if rc != 0:
                            alarms[prop] = [l[:300] for l in lines[:4]]
                prev = results.get(f"{st}/{pf}", {})
                merged = {k: v for k, v in prev.get("alarms", {}).items() if k not in props}
                merged.update(alarms)
                results[f"{st}/{pf}"] = {"props": sorted(set(prev.get("props", [])) | set(props)), "alarms": merged}
                print(st, pf, "SILENT" if not alarms else "FALSE-ALARM " + json.dumps(alarms)[:600], flush=True)
            finally:
                shutil.rmtree(d, ignore_errors=True)
    # merge with what another run may have written meanwhile
    if os.path.exists(rp):
        try:
            disk = json.load(open(rp))
            for k, v in disk.items():
                if k not in results:
                    results[k] = v
        except Exception:
            pass
    json.dump(results, open(rp, "w"), indent=1)


if __name__ == "__main__":
    main()

#!/usr/bin/env python3
"""Generates /verif/MANIFEST.json from the per-property metadata below and the list of properties the
built analyser implements (`bin/evcheck -list`). Properties without an implemented check go to not_applicable."""
import json, os, subprocess, sys

VERIF = os.path.dirname(os.path.dirname(os.path.abspath(__file__)))

META = {
 "C01": dict(design="3.1", tech="call-graph reachability (VTA) from block-execution roots + forward value slices; AST map-range order-sensitivity lint",
   text="Decides the structural mechanism of determinism: no repo-owned code reachable from block execution (ante decorators, msg servers, begin/end blockers, StateDB, precompile executors) reads wall clock / randomness / environment into anything but telemetry, ranges a map with an order-sensitive body, spawns goroutines, or uses node-local min-gas-prices outside CheckTx. This holds for every input and block at once, which no replay test can sample. It does not decide equality of app hashes as values. Also decided: no sync / sync-atomic primitive (process-wide caches) in code reachable from block execution, and slices owned by a dependency are never sorted or appended to in place.",
   note="Trusts dependency code (SDK, CometBFT, upstream geth) to be deterministic; call graph = VTA over go/ssa; reports restricted to repo-owned code and the fork's *_evermint.go files."),
 "C02": dict(design="3.2", tech="sibling comparison of the copied state transition with the linked go-ethereum's; MUST-PASS/PAIR rules on the StateDB over go/ssa",
   text="Behavioural equivalence with go-ethereum over all programs is not statically decidable; decided are necessary structural conditions: the copied state transition differs from the linked fork's core/state_transition.go only in the documented deviation classes, StateDB mutators touch accounts on every path, committed-state reads use the original context, EIP-158/6780 destruction conditions, refund counter guards, the block-context wiring, deep copies standing in for go-ethereum's access-list/transient-storage journal, and that the zero address is not pre-warmed. Further structural clauses: statements of the copied transition sit under the same conditions as in go-ethereum (nesting); access-list preparation warms every listed address and key; Suicide zeroes the balance on every successful call; storage keys are injective in (address, slot).",
   note="Interpreter semantics, gas tables and the fork's upstream files are the trusted reference; restructuring the verbatim copy is reported (stated limit)."),
 "C03": dict(design="3.3", tech="struct-field census + snapshot/revert exhaustiveness + context-provenance over go/ssa",
   text="Decides that every piece of transaction-scoped mutable StateDB state is captured by Snapshot and restored by RevertToSnapshot through a deep copy, and that every store access of the StateDB and of every custom precompile goes through the StateDB's current cache context (so reverting the context reverts other modules' writes too). Covers the field somebody adds next month and every precompile path, which sampled tests cannot. Does not decide the algebra of nested snapshot ids over all interleavings.",
   note="Trusts the SDK's CacheContext/cachekv to isolate writes until the write closure is called."),
 "C04": dict(design="3.4", tech="who-may-call census of bank mint/burn entry points + credit/debit pairing over go/ssa + call-graph effect search from precompile executors",
   text="Decides the structural carrier of supply conservation: coins are minted/burnt by the EVM module only inside the StateDB's paired mint+send / send+burn helpers with one coins value, every AddBalance credit in repo and fork code is paired with a debit of the same value (or is the documented gas refund), the paid-fee flag is raised only by the fee decorator on the Ethereum lane, and no precompile can reach MintCoins. Suicide debits the whole balance on every successful path and the refund is priced at the purchase price. Numeric supply equality is not decided. The balances CreateAccount re-mints are burnt by DestroyAccount on every exit, and an Ethereum message cannot reach execution without the fee-deducting lane (authz screen).",
   note="x/bank arithmetic trusted. Known finding F4 (refund minted rather than taken from the fee collector) is recorded, not repaired: an unedited test encodes it."),
 "C05": dict(design="3.5", tech="PAIR / provenance rules over go/ssa on gas-meter reset, refund quotient and price sources",
   text="The arithmetic law charge = gasUsed x price quantifies over runtime values and is not decided. Decided necessary conditions: ante deduction and refund are priced from the same fee-market base fee, every exit of ApplyTransaction after message application resets the gas meter exactly once with the right operand, the refund quotient constant is selected by London, the gas limit installed equals the transaction's, ResetGasMeterAndConsumeGas has refund-then-consume shape, the sender's refund is computed from the final remaining gas, and cumulative gas is own gas plus the slots of the preceding transactions. The ante handler deducts the effective fee (the price the refund uses), and per-transaction flags/slots are keyed by the transaction index only after the transaction was counted.",
   note="Does not decide intrinsic <= used <= limit or the one-fifth bound as numbers."),
 "C06": dict(design="3.6", tech="MUST-PASS (edge-deletion dominance) and PAIR rules over go/ssa on the ante chain and msg server",
   text="Decides, for every path of the admission code at once, that an Ethereum transaction reaches the next decorator only after sender recovery under the chain's EIP-155 signer succeeded, the declared sender equals the recovered one, the nonce strictly equals the account sequence, the transaction is replay-protected and validated, and that the ante nonce increment and its execution-side undo are paired (increment -> store -> flag; undo only under the flag -> store -> flag reset -> execution; both sides are followed into single-call-site private helpers), and that every accepted state transition re-applies the nonce. Chain order of the decorators is checked from the chain literal.",
   note="ecrecover and the SDK's Cosmos-lane signature decorators are trusted; numeric nonce trajectories are not decided."),
 "C07": dict(design="3.7", tech="census of AnteDecorator implementers vs chain literal; MUST-PASS lane-guard dominance over go/ssa; table agreement with the SDK vesting MsgServer",
   text="Decides the structural composition of the dual-lane ante chain for all transactions at once: every lane decorator is in the chain exactly once; lane-sensitive operations are dominated by the correct edge of the lane predicate; the foreign lane falls straight through; each Ethereum-shape restriction named by the property is enforced by an error-returning guard before fee deduction; the authz screen recurses with depth+1, refuses grants and nested disabled messages, errors past the depth limit, and the default disabled list covers MsgEthereumTx and every request type of the SDK vesting MsgServer. 'Must be empty/zero' guards are exact for every value of the field (no ordering test on a sign-converted value).",
   note="The guard structure of the two lane predicates (HasSingleEthereumMessage / IsEthereumTx) is decided by R6, their full truth table is not; re-check paths are assumed to carry bytes that already passed the guards."),
 "C08": dict(design="3.8", tech="call-graph effect search (VTA) from query handlers; constant/provenance rules over go/ssa on commit flags and the simulation context",
   text="Decides structural isolation: pure gRPC queries reach no store write, event or global write; EthCall/EstimateGas pass commit=false and CommitMultiStore is reachable only under commit; the mempool trial execution works only on a CacheContext whose write closure is discarded; each block-context request field reaches the EVM block context by data flow. the gas estimator's 'nothing passed' sentinel is the bound it searched and that bound is re-executed. 'Predicts execution' in general is behavioural and not decided. The flag raised only on delivery conditions nothing but the sender's refund credit, and StateDB writes never go to the caller's original context.",
   note="TraceTx/TraceBlock commit on the SDK's discarded query context (assumption). Call graph = VTA."),
 "C09": dict(design="3.9", tech="interval/guard analysis of the EIP-1559 divisor, provenance of the header fields, MUST-PASS admission rules over go/ssa",
   text="The EIP-1559 function lives in the (trusted) dependency; decided is that it is fed from the block gas meter / params / height, that its gas-limit operand cannot make the gas target zero (divisor guard), that the result is clamped by the minimum gas price, stored and emitted as the same value from an end-blocker that is wired, and that the admission rule rejects prices below max(base fee, global minimum) with the node-local term confined to CheckTx, that the fee actually charged is the fee whose price was checked, and that message-dispatching end-blockers (gov) run before the fee market's. Numeric results are not decided.",
   note="misc.CalcBaseFee trusted (upstream)."),
 "C10": dict(design="3.10", tech="MUST-PASS + provenance over go/ssa on the ERC-20 executors; who-may-call census of bank mutators and allowance writers",
   text="Decides authorisation and single-mover structure for every caller/amount at once: bank mutators are reached only through the one transfer helper, whose source is the caller or a holder whose allowance was spent for the same amount by the caller; allowance writes only in approve/spendAllowance with the unlimited case untouched; exactly one Transfer/Approval log per success path; views read the bank of the contract's denomination. The allowance key must be scoped by the token contract (today it is not: recorded known finding F10a) and the StateDB emptiness test must cover all denominations; the allowance key is an injective encoding of (owner, spender); wrappers of spendAllowance are judged by summary. Balance arithmetic (x/bank) is trusted.",
   note="Atomicity relies on C03 (revert of the cache context) and on the fork reverting the snapshot on precompile error (decided by R6). Value identity is structural (a copied amount is not recognised as the same amount)."),
 "C11": dict(design="3.11", tech="provenance of the delegator argument + MUST-PASS on caller/signature guards over go/ssa; effect census of store writers",
   text="Decides who the delegator can be (only the caller, or a signed message's delegator that equals the caller and verifies under EIP-712 for the EVM's chain id), that mutations go through the SDK's own message servers, that logs are derived from the SDK events after the mutation, and that the EIP-712 typed data covers every message field. Numerical equality with native staking is not decided. Views reach no write and never accumulate individually rounded values.",
   note="SDK staking/distribution msg servers trusted."),
 "C12": dict(design="3.12", tech="call-graph effect search (VTA) from every precompile executor, constant folding of ReadOnly()/RequireGas()",
   text="Decides for all inputs that every executor declared read-only reaches no store write, event or log; every executor that can write is declared non-read-only with non-zero gas; the dispatcher refuses non-read-only methods in read-only mode and charges gas first; method flags are copied from the executor they wrap. The fork's failure to inherit the interpreter's read-only flag for CALL-from-STATICCALL (F12a, dependency) is a recorded known finding.",
   note="Isolation exemption: calls on a CacheContext whose write closure is discarded are write-free."),
 "C13": dict(design="3.13", tech="unit (dimension) provenance over go/ssa on receipt fields; PAIR rules on the transient counters",
   text="Decides that gas-dimension sinks (cumulative gas, gas-used transient) are fed only by gas sources and log-dimension sinks (log index, log count) only by log sources, that Log.Index has a writer fed by the block-level log counter, that every counted transaction gets a receipt and gas entry, status/contract-address conditions, and bloom derivation; every outcome of a counted transaction stores its gas and log-count slots, writer and reader of a slot use one key function, and the slot keys are injective in the transaction index. The running-sum law as numbers is not decided. Slot keys are injective in the transaction index and the index is used only after counting.",
   note=""),
 "C14": dict(design="3.14", tech="table agreement between event writers and readers; batch-discipline and field-writer rules over go/ssa in the indexer",
   text="Mostly a history/value property; decided necessary conditions: every event attribute key the JSON-RPC readers require is emitted by the consensus-side writers on all paths using the same constants; all indexer DB mutations go through one batch written once; IndexBlock is a function of its arguments; TxResult fields are wired to height / position / Ethereum counter. Field-by-field RPC agreement and crash convergence beyond the atomic batch are not decided.",
   note=""),
 "C15": dict(design="3.15", tech="MUST-PASS dominance of the destroy guard, who-may-call census, provenance of the time source over go/ssa",
   text="Decides that account removal, burn and storage deletion in DestroyAccount are dominated by the protected-account test (module accounts, unexpired vesting by block time), that nothing else removes accounts, that emptiness tests code, all balances (every denomination), nonce and storage, that destruction removes all four parts, and that debits go through the bank entry that enforces vesting locks. The storage-iteration helper hands every entry (also cleared slots) to the deletion callback.",
   note="x/bank's locked-coin enforcement trusted."),
 "C16": dict(design="3.16", tech="MUST-PASS dominance over go/ssa on the proof msg server and ValidateBasic; table agreement with the SDK vesting MsgServer; structural key-injectivity of the proof key builder",
   text="Decides that a proof is stored only after validation, absence of an existing proof, and the fee being moved and burnt with one coins value; that ValidateBasic accepts only through a verified signature for the message's own account; that the vesting authorisation decorator covers every SDK vesting message and rejects unless a proof exists; that next() is reached only after the whole message list was inspected, that HasProof is exactly the existence of the record, that the proof store key is an injective encoding of the full account address (no truncating conversion) and the keeper's Save/Has/Get build it from their own address. Unforgeability of secp256k1 is not decided.",
   note=""),
 "C17": dict(design="3.17", tech="selector/ABI table agreement (keccak of embedded ABI signatures vs executor literals), MUST-PASS deploy authorisation, exhaustiveness census over go/types + go/ssa",
   text="Decides that deploy handlers run only after the whitelist check, uniqueness/no-downgrade guards dominate the writes, NewEVM exposes exactly the registered contracts without filtering, every executor's 4-byte selector equals keccak of the ABI method it packs/unpacks and its argument assertions match the ABI types, selectors are unique per contract, and every contract type constant has arms in validation and construction; the metadata and denomination-index keys are injective encodings of the contract address / denomination.",
   note="The engine computes Keccak-256 itself and parses the embedded ABI JSON."),
 "C18": dict(design="3.18", tech="store-prefix census: run-time writers vs ExportGenesis readers / InitGenesis writers over go/ssa",
   text="Round-trip equality over reachable states is a history property and is not decided. Decided necessary condition: every persistent key prefix a custom module writes at run time is read by its ExportGenesis and written by its InitGenesis; export callbacks never stop an iteration early and the iteration helpers hand every entry to their callback; InitGenesis writes through a frozen table of keeper writers with the parameters stored verbatim; deploy flags whose deployment takes its address from the module account sequence are exported as false; every completed iteration of an InitGenesis loop visits the record's nested collections and no import branch depends on what the store already holds. The cpc metadata/index/allowance prefixes and vauth proofs are not exported today (F18a-d): recorded known findings whose repair needs new genesis proto fields.",
   note=""),
 "C19": dict(design="3.19", tech="MUST-PASS on the verifier path and provenance of sign-doc fields over go/ssa; who-may-call census of non-standard derivation",
   text="Binding and injectivity are statements about values of cryptographic functions and are not decided. Decided structural necessary conditions only: signature verification can return true only through crypto.VerifySignature over Keccak of the message or its EIP-712 rendering (the message reaches the digest argument only through the hash), the address is derived from the decompressed key, each sign-doc field flows into its own argument of the typed-data construction (the sequence is that of the only signer info), no non-BIP-32 derivation API is used, and the private scalar is never rendered with a variable-width encoder.",
   note="narrow claim; see DESIGN 3.19"),
 "C20": dict(design="3.20", tech="lockset analysis (guarded-by table, close/send discipline, lock order) and closed-channel loop rules over go/ssa; divisor and pairing obligations shared with C09/C13",
   text="A union of clauses; decided statically: end/begin-block obligations (receipt for every counted tx, divisor, nil-meter guard), no send on a channel that another function closes unless the closing lock is held, guarded-by discipline for the RPC filter/pubsub/indexer shared maps, closed-channel receive cases leave their loops, user-input slicing is dominated by length guards, the lock acquisition graph is acyclic, a filter is removed from the API map under the lock before it is unsubscribed, and panicking payload accessors in the indexer run only after the dropped-transaction test. Helpers documented as 'caller holds the lock' inherit the locks held at all their call sites. Robustness of dependency decoders and liveness under all schedules are not decided. A variable captured by a goroutine and called through is assigned before the go statement and never after.",
   note=""),
}

def main():
    props = [json.loads(l) for l in open(os.path.join(VERIF, "properties.jsonl"))]
    out = subprocess.run([os.path.join(VERIF, "bin/evcheck"), "-list"], capture_output=True, text=True).stdout.split()
    impl = set(out)
    na_path = os.path.join(VERIF, "not_applicable.json")
    na_reasons = json.load(open(na_path)) if os.path.exists(na_path) else {}
    checks, na = [], []
    for p in props:
        pid = p["id"]
        m = META[pid]
        if pid in impl and pid not in na_reasons:
            checks.append({
                "property_id": pid,
                "quick_cmd": f"./check {pid} quick",
                "thorough_cmd": f"./check {pid} thorough",
                "evidence_file": f"/verif/evidence/{pid}.json",
                "replay_cmd_template": "cat {path}",
                "engine": "evcheck",
                "level_claimed": {"category": "other", "text": m["text"], "design_ref": "DESIGN.md section " + m["design"]},
                "level_note": (m["note"] + " " if m["note"] else "") + "Static analysis only: decides the named structural clauses from /repo's current source on every run; arithmetic/value/history clauses listed under coverage.not_decided in the evidence are NOT decided.",
                "technique": "static analysis: " + m["tech"],
            })
        else:
            na.append({"property_id": pid, "reason": na_reasons.get(pid, "check not built yet (build phase in progress); planned static rules in DESIGN.md section " + m["design"])})
    man = {
        "version": 1,
        "setup_cmd": "cd /verif && ./setup.sh",
        "hooks": {"guard": "verif", "enable": "none needed: the checks read /repo's source as it is (static analysis); no instrumentation is compiled in",
                  "baseline_off_cmd": "cd /repo && go test -mod=mod -vet=off -count=1 -timeout 25m ./...", "source_commits": [], "add_only": True},
        "engines": [{"name": "evcheck", "path": "/verif/engine", "serves_properties": sorted(c["property_id"] for c in checks),
                     "kind_free_text": "repository-specific static analyser (go/packages + go/types + go/ssa + CHA/VTA call graph); one rule set per property; obligations keyed by rule+construct; known findings in /verif/known_findings.json"}],
        "checks": checks,
        "notes": "All checks: `./check <id> quick|thorough` -> /verif/bin/evcheck (rebuilt by ./check if missing) analyses /repo's working tree. thorough additionally replays the mutant corpus /verif/mutants/<id>.json on scratch copies (checker self-validation).",
        "not_applicable": na,
    }
    json.dump(man, open(os.path.join(VERIF, "MANIFEST.json"), "w"), indent=1)
    print("checks:", [c["property_id"] for c in checks], "not_applicable:", [x["property_id"] for x in na])

if __name__ == "__main__":
    main()

#!/bin/bash
# usage: seed_eval.sh <seed-id> <property>...   — applies /verif/seeded/<id>/patch.diff to /repo, runs the named checks
# (evidence goes to a scratch dir), records what each reports, and undoes the change straight afterwards.
ID="$1"; shift
S=/verif/seeded/$ID
[ -f "$S/patch.diff" ] || { echo "no such seed"; exit 2; }
[ -z "$(git -C /repo status --porcelain)" ] || { echo "/repo not clean"; exit 2; }
git -C /repo apply "$S/patch.diff" || exit 2
: > "$S/detection.txt"
for P in "$@"; do
  echo "== $P" >> "$S/detection.txt"
  /verif/bin/evcheck -property "$P" -repo /repo -out /tmp/ev-scratch-$ID 2>&1 | grep -E "^(violated|undecided|VIOLATION|OK|KNOWN)" >> "$S/detection.txt"
done
git -C /repo checkout -- . ; rm -rf /tmp/ev-scratch-$ID
cat "$S/detection.txt"

#!/usr/bin/env python3
"""usage: mk_seed_round.py <suffix> <prop>... — creates /tmp/seed/<prop><suffix> worktrees, property json and prompt files
(the prompt lists what earlier seeds for the property did, so the agent chooses something else)."""
import json, os, subprocess, sys
VERIF = os.path.dirname(os.path.dirname(os.path.abspath(__file__)))
suffix, props = sys.argv[1], sys.argv[2:]
os.makedirs("/tmp/seed", exist_ok=True)
tmpl = open(os.path.join(VERIF, "tools/seed_prompt.tmpl")).read()
allp = {json.loads(l)["id"]: json.loads(l) for l in open(os.path.join(VERIF, "properties.jsonl"))}
for p in props:
    sid = p + suffix
    d = "/tmp/seed/" + sid
    subprocess.run(["git", "-C", "/repo", "worktree", "add", "--detach", d], capture_output=True)
    json.dump(allp[p], open(f"/tmp/seed/{p}.property.json", "w"), indent=1)
    earlier = []
    for s in sorted(os.listdir(os.path.join(VERIF, "seeded"))):
        if s.startswith(p):
            mp = os.path.join(VERIF, "seeded", s, "meta.agent.json")
            if os.path.exists(mp):
                earlier.append(" ".join(str(json.load(open(mp)).get("summary", "")).split())[:260])
    note = "\nADDITIONAL NOTES: "
    if earlier:
        note += "Earlier seeded changes for this property did the following — choose a DIFFERENT mechanism in DIFFERENT code (another clause of the property, another module/file): " + " ".join(f"({i+1}) {e}" for i, e in enumerate(earlier)) + " "
    note += "Never use pkill/killall or kill processes you did not start (other jobs run on this machine). Keep any _test.go copies under SEED/ out of the way when running the full suite (e.g. run the suite with 'go test $(go list ./... | grep -v /SEED)'). The machine is shared and busy: a full suite run can take 10-15 minutes.\n"
    open(f"/tmp/seed/{sid}.prompt", "w").write(tmpl.replace("__DIR__", d).replace("__PID__", p) + note)
    print(sid, "earlier:", len(earlier))

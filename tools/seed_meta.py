#!/usr/bin/env python3
"""Writes seeded/<id>/meta.json (property broken, what it needs to manifest, what was run to confirm it, which checks
catch it) from the agent's own description, the confirmation log and detection.json; writes seeded/MATRIX.md and refreshes the
seed table in DESIGN.md (between the SEED-TABLE markers)."""
import json, os, re

VERIF = os.path.dirname(os.path.dirname(os.path.abspath(__file__)))
RULE_ADDED = {
    "C01b": "C01-R7 (slice ownership)", "C02b": "C02-R4 (short-circuits depend on account identity only)", "C04a": "C04-R2 (Suicide clears balance)",
    "C04b": "C04-R2 refund priced at st.gasPrice", "C05a": "C05-R4 (credit from final remaining gas)", "C05b": "C05-R7 / C13-R4", "C06b": "C06-R6 (nonce re-applied)",
    "C07b": "C07-R6 (lane predicate guards)", "C08a": "C08-R4 (sentinel = searched bound)", "C09a": "C09-R5 (checked fee = charged fee)",
    "C09b": "C09-R4 (dispatching end-blockers before feemarket)", "C10a": "C10-R7 (= C15-R4)", "C13a": "C13-R3 (slot writer / cumulative reader shape)",
    "C14a": "C14-R5 (position pairing)", "C17a": "C17-R4 (whole-prefix enumeration)", "C18a": "C18-R2 (callbacks never stop)", "C20a": "C20-R7 (indexer accessors)",
    "C11a": "C11-R5 (staking view provenance)",
    "C11b": "C11-R3 (log amount = moved amount)", "C13b": "C13-R3 (every result stores the slots)", "C17b": "C17-R1 (membership is an equality with the authority)",
    "C20b": "C20-R8 (uninstall at most once)",
    "C01c": "C01-R3 (sync/atomic in consensus code)", "C02c": "C02-R11 (= C04-R2 Suicide)", "C04c": "C04-R2 (carry-over burnt first)", "C05c": "C05-R1 (deducts the effective fee)",
    "C06c": "C06-R7 (authz screen, shared)", "C08b": "C08-R7 (= C03-R2)", "C08c": "C02-R1 nesting / C08-R6", "C11c": "C11-R6 (round once)", "C15c": "C15-R5 / C18-R2 (iteration helpers complete)",
    "C16b": "C16-R4 (KEY-INJECTIVE)", "C16c": "C16-R3 (next() after the loop)", "C18b": "C18-R2 (import completeness)", "C18c": "C18-R2 (verbatim import)", "C19b": "C19-R1 (digest only through the hash)",
    "C19c": "C19-R2 (single signer info)", "C20c": "C20-R9 (init before go)", "C02d": "C02-R2 (access-list loops)", "C04d": "C04-R5 (= C06-R7)", "C05d": "C05-R8 / C13-R8 (index after counting)",
    "C07d": "C07-R3 (exact zero tests)", "C11d": "C11-R7 (views write nothing)", "C16d": "C16-R1 (HasProof exact)", "C18d": "C18-R2 (dynamic deploy flags)", "C19d": "C19-R5 (no raw private scalar)",
    "C01e": "C01-R7 (package-level slices cap == len)", "C03e": "C03-R3 a2 (environment built per call)", "C06e": "C06-R6 (every result committed)", "C08e": "C08-R8 (BinSearch estimate provenance)",
    "C10e": "C10-R8 (= C03-R3 a/a2)", "C11e": "C11-R8 (signed fields bound)", "C12e": "C12-R6 (dispatcher writes nothing)", "C15e": "C15-R7 (= C03-R1 aliasing)",
    "C18e": "C18-R2 (import-time deployment refusals)", "C19e": "C19-R6 (typed data unnarrowed)", "C20e": "C20-R10 (BOUNDS)",
    "C19f": "C19-R7 (HD path constructor slots)", "C20f": "C20-R2 (provenance through append/copy)",
    "C03g": "C03-R1 (restore unconditional)", "C05g": "C13-R3 / C05-R7 (gas slot before the receipt is built)", "C17g": "C17-R8 (deploy forces newDeployment=true)",
}


def first_sentence(s, n=230):
    s = " ".join(str(s).split())
    return s if len(s) <= n else s[: n - 1] + "…"


def main():
    rows = []
    sdir = os.path.join(VERIF, "seeded")
    for seed in sorted(os.listdir(sdir)):
        d = os.path.join(sdir, seed)
        if not os.path.exists(os.path.join(d, "patch.diff")):
            continue
        agent = {}
        for cand in ("meta.agent.json",):
            p = os.path.join(d, cand)
            if os.path.exists(p):
                agent = json.load(open(p))
        verdict, log = "not confirmed yet", ""
        p = os.path.join(d, "confirm.log")
        if os.path.exists(p):
            log = open(p).read()
            m = re.findall(r"VERDICT=.*", log)
            if m:
                verdict = m[-1]
        det = {}
        p = os.path.join(d, "detection.json")
        if os.path.exists(p):
            det = json.load(open(p))
        demo_cmd = agent.get("demo_cmd", "")
        meta = {
            "id": seed,
            "property": agent.get("property", seed[:3]),
            "what_changed": agent.get("summary", ""),
            "breaks": agent.get("breaks", ""),
            "needs_to_manifest": agent.get("needs_to_manifest", ""),
            "files_changed": agent.get("files_changed", []),
            "demonstration": {"files": agent.get("demo_files", []), "cmd": demo_cmd},
            "produced_by": "fresh sub-agent given only the property record and a scratch git worktree of /repo (nothing from /verif)",
            "what_i_ran": [
                "tools/confirm_seed.sh %s <agent worktree>: new scratch worktree of /repo; demonstration on the unchanged tree (must pass); git apply patch.diff; go build ./...; demonstration with the change (must fail); demonstration removed; go test -vet=off -count=1 -timeout 25m ./... with the change (no failure other than client::TestInitConfigNonNotExistError, at least 40 packages ok); worktree removed" % seed,
                verdict,
                "tools/seed_matrix.py: scratch copy of /repo's current tree with patch.diff applied, checks run with -repo <copy>; /repo itself untouched",
            ],
            "confirmed": verdict.startswith("VERDICT=CONFIRMED"),
            "checks_run": det.get("checks_run", []),
            "caught_by": det.get("caught_by", []),
            "reports": {p: v["reports"][:2] for p, v in det.get("results", {}).items() if v.get("exit") == 1},
            "rule_added_because_of_this_seed": RULE_ADDED.get(seed, ""),
        }
        if det.get("error"):
            meta["detection_error"] = det["error"]
        json.dump(meta, open(os.path.join(d, "meta.json"), "w"), indent=1, ensure_ascii=False)
        rows.append(meta)
    lines = ["| seed | property | change (needs …) | confirmed | caught by | first report | rule added |", "|---|---|---|---|---|---|---|"]
    for m in rows:
        rep = ""
        own = m["property"]
        for p in ([own] if own in m["reports"] else []) + sorted(m["reports"]):
            if m["reports"].get(p):
                rep = p + ": " + first_sentence(re.sub(r"^violated: ", "", m["reports"][p][0]).split(" at ")[0], 110)
                break
        change = first_sentence(m["what_changed"], 150)
        if m["needs_to_manifest"]:
            change += " — needs: " + first_sentence(m["needs_to_manifest"], 120)
        change = change.replace("|", "\\|")
        lines.append("| %s | %s | %s | %s | %s | %s | %s |" % (
            m["id"], own, change, "yes" if m["confirmed"] else "no", ", ".join(m["caught_by"]) or "**none**", rep.replace("|", "\\|"), m["rule_added_because_of_this_seed"]))
    table = "\n".join(lines)
    open(os.path.join(sdir, "MATRIX.md"), "w").write("# Seeded changes × checks\n\n" + table + "\n")
    dp = os.path.join(VERIF, "DESIGN.md")
    s = open(dp).read()
    block = "<!-- SEED-TABLE-BEGIN (generated by tools/seed_meta.py) -->\n" + table + "\n<!-- SEED-TABLE-END -->"
    if "SEED_TABLE_PLACEHOLDER" in s:
        s = s.replace("SEED_TABLE_PLACEHOLDER", block)
    else:
        s = re.sub(r"<!-- SEED-TABLE-BEGIN.*?<!-- SEED-TABLE-END -->", lambda _: block, s, flags=re.S)
    open(dp, "w").write(s)
    print("seeds:", len(rows), "uncaught:", [m["id"] for m in rows if not m["caught_by"]], "unconfirmed:", [m["id"] for m in rows if not m["confirmed"]])


if __name__ == "__main__":
    main()

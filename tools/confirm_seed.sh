#!/bin/bash
# usage: confirm_seed.sh <seed-id> <agent-worktree>
# Independently confirms a seeded change: demo passes on the unchanged tree, fails with the change,
# and the existing suite still passes with the change (demo removed). Stores the seed under /verif/seeded/<id>/.
set -u
ID="$1"; SRC="$2"
export GOFLAGS=-mod=mod GOPROXY=off GOSUMDB=off GOTOOLCHAIN=local
W=/tmp/confirm/$ID
OUT=/verif/seeded/$ID
mkdir -p /tmp/confirm "$OUT"
rm -rf "$W"; git -C /repo worktree prune
git -C /repo worktree add -q --detach "$W" HEAD || exit 2
cp "$SRC/SEED/patch.diff" "$OUT/patch.diff"
cp "$SRC/SEED/meta.json" "$OUT/meta.agent.json"
[ -f "$SRC/SEED/DEMO.md" ] && cp "$SRC/SEED/DEMO.md" "$OUT/DEMO.md"
LOG="$OUT/confirm.log"; : > "$LOG"
python3 - "$SRC" "$W" "$OUT" <<'PY' >> "$LOG" 2>&1
import json,sys,shutil,os
src,w,out=sys.argv[1:4]
m=json.load(open(os.path.join(src,'SEED','meta.json')))
for d in m.get('demo_files',[]):
    s=os.path.join(src,d['src']); t=os.path.join(w,d['dst'])
    os.makedirs(os.path.dirname(t),exist_ok=True)
    shutil.copy(s,t); shutil.copy(s,os.path.join(out,os.path.basename(d['dst'])))
    print('demo file',d['dst'])
open(os.path.join(out,'demo_cmd.txt'),'w').write(m['demo_cmd']+"\n")
open(os.path.join(out,'demo_files.json'),'w').write(json.dumps(m.get('demo_files',[])))
PY
CMD="$(cat "$OUT/demo_cmd.txt")"
cd "$W"
echo "== demo on unchanged tree: $CMD" >> "$LOG"
( eval "$CMD" ) > "$OUT/demo_unchanged.out" 2>&1; RC0=$?
echo "exit=$RC0" >> "$LOG"
git apply "$OUT/patch.diff" >> "$LOG" 2>&1 || { echo "PATCH DOES NOT APPLY" >> "$LOG"; }
echo "== build with change" >> "$LOG"
go build ./... >> "$LOG" 2>&1; RCB=$?
echo "exit=$RCB" >> "$LOG"
echo "== demo with change" >> "$LOG"
( eval "$CMD" ) > "$OUT/demo_changed.out" 2>&1; RC1=$?
echo "exit=$RC1" >> "$LOG"
# remove demo files, run the existing suite with the change
python3 - "$W" "$OUT" <<'PY'
import json,sys,os
w,out=sys.argv[1:3]
for d in json.load(open(os.path.join(out,'demo_files.json'))):
    try: os.remove(os.path.join(w,d['dst']))
    except FileNotFoundError: pass
PY
echo "== existing suite with change (demo removed)" >> "$LOG"
go test -vet=off -count=1 -timeout 25m ./... > "$OUT/suite_changed.out" 2>&1
grep -E "^(--- FAIL|FAIL|panic:|ok .*\(cached\))" "$OUT/suite_changed.out" | grep -v "TestInitConfigNonNotExistError\|^FAIL$\|FAIL	github.com/EscanBE/evermint/v12/client	" | head -30 > "$OUT/suite_failures.txt"
NF=$(grep -c . "$OUT/suite_failures.txt")
NOK=$(grep -c "^ok " "$OUT/suite_changed.out")
echo "packages ok: $NOK" >> "$LOG"
echo "unexpected suite failure lines: $NF" >> "$LOG"
VERDICT=REJECTED
if [ $RC0 -eq 0 ] && [ $RC1 -ne 0 ] && [ $RCB -eq 0 ] && [ "$NF" -eq 0 ]; then VERDICT=CONFIRMED; fi
if [ "$NOK" -lt 40 ]; then VERDICT=INCOMPLETE-SUITE-RUN; fi
echo "VERDICT=$VERDICT (demo unchanged exit=$RC0, demo changed exit=$RC1, build=$RCB, unexpected suite failures=$NF)" >> "$LOG"
tail -c 1500 "$OUT/demo_changed.out" > "$OUT/demo_changed.tail"; rm -f "$OUT/demo_changed.out" "$OUT/suite_changed.out"
tail -c 600 "$OUT/demo_unchanged.out" > "$OUT/demo_unchanged.tail"; rm -f "$OUT/demo_unchanged.out"
cd /; git -C /repo worktree remove --force "$W"
tail -1 "$LOG"

package main

import "testing"

func TestKeccak(t *testing.T) {
	if !keccakSelfTest() {
		t.Fatal("keccak self test failed")
	}
	h := keccak256(nil)
	if h[0] != 0xc5 || h[1] != 0xd2 || h[31] != 0x70 {
		t.Fatalf("empty hash wrong: %x", h)
	}
}

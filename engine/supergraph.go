package main

import (
	"golang.org/x/tools/go/ssa"
)

// Supergraph of a Region: the control-flow graphs of the root function and of its single-site private helpers, stitched at
// the helpers' call sites (each helper has exactly one site, so this is exact CFG-level inlining: no context is merged).
// Basic blocks are split into segments at the calls of region helpers.
//
// It lets the path rules (MUST-PASS by edge deletion, PAIR, post-dominance) see through "extract method" refactorings:
// a guard that moved into a helper (and makes the helper panic or return an error that the root propagates) still cuts the
// paths to an operation that stayed in the root or moved into another helper.

type seg struct {
	fn     *ssa.Function
	blk    *ssa.BasicBlock
	lo, hi int // instruction index range [lo, hi)
	id     int
	succs  []*seg
	preds  []*seg
	// ifSuccs: for the last segment of a block ending in If: succs[0]/succs[1] correspond to the true/false successors
}

type SG struct {
	r      *Region
	segs   []*seg
	first  map[*ssa.BasicBlock]*seg // first segment of each block
	last   map[*ssa.BasicBlock]*seg
	byInst map[ssa.Instruction]*seg
	entry  *seg
}

type segEdge struct{ from, to int }

func (r *Region) Supergraph() *SG {
	g := &SG{r: r, first: map[*ssa.BasicBlock]*seg{}, last: map[*ssa.BasicBlock]*seg{}, byInst: map[ssa.Instruction]*seg{}}
	helperAt := map[ssa.Instruction]*ssa.Function{}
	for h, s := range r.site {
		helperAt[s.(ssa.Instruction)] = h
	}
	newSeg := func(fn *ssa.Function, b *ssa.BasicBlock, lo, hi int) *seg {
		s := &seg{fn: fn, blk: b, lo: lo, hi: hi, id: len(g.segs)}
		g.segs = append(g.segs, s)
		for _, in := range b.Instrs[lo:hi] {
			g.byInst[in] = s
		}
		return s
	}
	link := func(a, b *seg) {
		a.succs = append(a.succs, b)
		b.preds = append(b.preds, a)
	}
	type pending struct {
		before, after *seg
		helper        *ssa.Function
	}
	var calls []pending
	for _, fn := range r.Fns {
		for _, b := range fn.Blocks {
			lo := 0
			var prev *seg
			for i, in := range b.Instrs {
				if h, ok := helperAt[in]; ok {
					s := newSeg(fn, b, lo, i+1) // the call instruction ends the segment
					if prev == nil {
						g.first[b] = s
					}
					if prev != nil {
						// prev → (helper) → s handled through pending list
					}
					calls = append(calls, pending{before: s, helper: h})
					prev = s
					lo = i + 1
				}
			}
			s := newSeg(fn, b, lo, len(b.Instrs))
			if g.first[b] == nil {
				g.first[b] = s
			}
			g.last[b] = s
			// connect consecutive segments of this block through the helpers
			_ = prev
		}
	}
	// fill "after" of each pending call: the segment following `before` in the same block
	for k := range calls {
		b := calls[k].before.blk
		for _, s := range g.segs {
			if s.blk == b && s.lo == calls[k].before.hi {
				calls[k].after = s
			}
		}
	}
	// intra-function edges between blocks
	for _, fn := range r.Fns {
		for _, b := range fn.Blocks {
			for _, sc := range b.Succs {
				link(g.last[b], g.first[sc])
			}
		}
	}
	// call / return edges
	for _, c := range calls {
		h := c.helper
		if len(h.Blocks) == 0 {
			continue
		}
		link(c.before, g.first[h.Blocks[0]])
		// Correlated error returns: when the site is `if err := h(…); err != nil { … }` (the test ends the block of the call and
		// nothing but the test sits between), a return of h whose error is provably non-nil continues on the failing edge of
		// that test, a return of constant nil on the surviving edge. Without this every error-returning guard that was
		// extracted into h would seem to fall through to the code after the test.
		var failTo, okTo *seg
		if c.after != nil && errResultIndex(h) >= 0 {
			site := r.site[h]
			if sv, isCall := site.(*ssa.Call); isCall && pureTail(c.after) {
				for _, gd := range errNilGuards(c.before.fn, func(x *ssa.Call) bool { return x == sv }) {
					if gd.If.Block() == c.before.blk && gd.If.Block().Succs[0] != gd.If.Block().Succs[1] {
						okTo = g.first[gd.If.Block().Succs[gd.Survive]]
						failTo = g.first[gd.If.Block().Succs[1-gd.Survive]]
					}
				}
			}
		}
		for _, hb := range h.Blocks {
			if len(hb.Instrs) == 0 {
				continue
			}
			ret, isRet := hb.Instrs[len(hb.Instrs)-1].(*ssa.Return)
			if !isRet || c.after == nil {
				continue
			}
			if failTo != nil && okTo != nil {
				ev := ret.Results[errResultIndex(h)]
				if !isSuccessReturn(h, ret) {
					link(g.last[hb], failTo)
					continue
				}
				if isNilConst(ev) {
					link(g.last[hb], okTo)
					continue
				}
			}
			link(g.last[hb], c.after)
		}
	}
	g.entry = g.first[r.Root.Blocks[0]]
	return g
}

func (g *SG) segOf(i ssa.Instruction) *seg { return g.byInst[i] }

// edgeOf returns the supergraph edge that corresponds to the surviving (or failing) successor of a guard.
func (g *SG) edgeOf(gd Guard, survive bool) (segEdge, bool) {
	b := gd.If.Block()
	idx := gd.Survive
	if !survive {
		idx = 1 - gd.Survive
	}
	if b.Succs[0] == b.Succs[1] {
		return segEdge{}, false
	}
	from, to := g.last[b], g.first[b.Succs[idx]]
	if from == nil || to == nil {
		return segEdge{}, false
	}
	return segEdge{from.id, to.id}, true
}

func (g *SG) reachableFrom(start *seg, deleted map[segEdge]bool) map[*seg]bool {
	seen := map[*seg]bool{start: true}
	work := []*seg{start}
	for len(work) > 0 {
		s := work[len(work)-1]
		work = work[:len(work)-1]
		for _, t := range s.succs {
			if deleted[segEdge{s.id, t.id}] || seen[t] {
				continue
			}
			seen[t] = true
			work = append(work, t)
		}
	}
	return seen
}

// MustPass: every path from the root's entry to target crosses the surviving edge of one of the guards (guards may sit in
// the root or in any helper of the region).
func (g *SG) MustPass(target ssa.Instruction, gs []Guard) bool {
	del := map[segEdge]bool{}
	n := 0
	for _, gd := range gs {
		if e, ok := g.edgeOf(gd, true); ok {
			del[e] = true
			n++
		}
	}
	t := g.segOf(target)
	if n == 0 || t == nil {
		return false
	}
	return !g.reachableFrom(g.entry, del)[t]
}

// PassesOr: every path from entry to target executes `via` first, or crosses the surviving edge of a bypass guard.
func (g *SG) PassesOr(target, via ssa.Instruction, bypass []Guard) bool {
	t, v := g.segOf(target), g.segOf(via)
	if t == nil || v == nil {
		return false
	}
	if t == v {
		return instrIndex(via) < instrIndex(target)
	}
	del := map[segEdge]bool{}
	for _, gd := range bypass {
		if e, ok := g.edgeOf(gd, true); ok {
			del[e] = true
		}
	}
	for _, p := range v.preds {
		del[segEdge{p.id, v.id}] = true
	}
	if v == g.entry {
		return true
	}
	return !g.reachableFrom(g.entry, del)[t]
}

// ReachesFrom: can `to` execute after `from`?
func (g *SG) ReachesFrom(from, to ssa.Instruction) bool {
	f, t := g.segOf(from), g.segOf(to)
	if f == nil || t == nil {
		return false
	}
	if f == t && instrIndex(to) > instrIndex(from) {
		return true
	}
	seen := map[*seg]bool{}
	work := append([]*seg{}, f.succs...)
	for len(work) > 0 {
		s := work[len(work)-1]
		work = work[:len(work)-1]
		if seen[s] {
			continue
		}
		seen[s] = true
		if s == t {
			return true
		}
		work = append(work, s.succs...)
	}
	return false
}

// RootReturns lists the Return instructions of the root (helpers' returns flow back into the root).
func (g *SG) RootReturns() []*ssa.Return { return returnsOf(g.r.Root) }

func (g *SG) RootSuccessReturns() []*ssa.Return { return successReturns(g.r.Root) }

// Ifs lists the If instructions of all region functions.
func (g *SG) Ifs() []*ssa.If {
	var out []*ssa.If
	for _, f := range g.r.Fns {
		out = append(out, ifs(f)...)
	}
	return out
}

// EndsInPanicRegion: from the given successor every path ends in a panic (no root return reachable).
func (g *SG) EndsInPanic(start *ssa.BasicBlock) bool {
	s := g.first[start]
	if s == nil {
		return false
	}
	pan := false
	for x := range g.reachableFrom(s, nil) {
		if x.hi == 0 || x.hi > len(x.blk.Instrs) || x.hi != len(x.blk.Instrs) {
			continue
		}
		if len(x.blk.Instrs) == 0 {
			continue
		}
		switch x.blk.Instrs[len(x.blk.Instrs)-1].(type) {
		case *ssa.Return:
			if x.fn == g.r.Root {
				return false
			}
		case *ssa.Panic:
			pan = true
		}
	}
	return pan
}

func (r *Region) BoolCallGuards(surviveWhen bool, pred func(*ssa.Call) bool) []Guard {
	var out []Guard
	for _, f := range r.Fns {
		out = append(out, boolCallGuards(f, surviveWhen, pred)...)
	}
	return out
}

func (r *Region) ErrNilGuards(pred func(*ssa.Call) bool) []Guard {
	var out []Guard
	for _, f := range r.Fns {
		out = append(out, errNilGuards(f, pred)...)
	}
	return out
}

func (r *Region) EqGuards(surviveOnEqual bool, a, b func(ssa.Value) bool) []Guard {
	var out []Guard
	for _, f := range r.Fns {
		out = append(out, eqGuards(f, surviveOnEqual, a, b)...)
	}
	return out
}

// First returns the first call of the region accepted by pred (nil if none).
func (r *Region) First(pred func(ssa.CallInstruction) bool) ssa.CallInstruction {
	cs := r.Calls(pred)
	if len(cs) == 0 {
		return nil
	}
	return cs[0]
}

// PassesBetween: every path from `from` to `to` executes `via` (false if `to` is unreachable from `from`).
func (g *SG) PassesBetween(from, to, via ssa.Instruction) bool {
	f, t, v := g.segOf(from), g.segOf(to), g.segOf(via)
	if f == nil || t == nil || v == nil || !g.ReachesFrom(from, to) {
		return false
	}
	if v == f {
		return instrIndex(via) > instrIndex(from) && (t != f || instrIndex(via) < instrIndex(to))
	}
	if v == t {
		return instrIndex(via) < instrIndex(to)
	}
	del := map[segEdge]bool{}
	for _, p := range v.preds {
		del[segEdge{p.id, v.id}] = true
	}
	return !g.reachableFrom(f, del)[t]
}

// pureTail: the segment after a helper call holds nothing but the extraction / test of the call's results.
func pureTail(s *seg) bool {
	if s.hi != len(s.blk.Instrs) {
		return false
	}
	for _, in := range s.blk.Instrs[s.lo:s.hi] {
		switch in.(type) {
		case *ssa.Extract, *ssa.BinOp, *ssa.If, *ssa.DebugRef, *ssa.UnOp, *ssa.Store, *ssa.Phi:
		default:
			return false
		}
	}
	return true
}

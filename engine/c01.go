package main

import (
	"fmt"
	"go/ast"
	"go/token"
	"go/types"
	"sort"
	"strings"

	"golang.org/x/tools/go/packages"
	"golang.org/x/tools/go/ssa"
)

func init() {
	registry["C01"] = checkC01
	needsL4["C01"] = true
}

// consensusRoots enumerates, by type, the entry points of block execution.
func consensusRoots(e *Engine, r *Report) []*ssa.Function {
	e.BuildSSA()
	var roots []*ssa.Function
	add := func(f *ssa.Function) {
		if f != nil && f.Blocks != nil {
			roots = append(roots, f)
			for _, a := range f.AnonFuncs {
				roots = append(roots, a)
			}
		}
	}
	n := map[string]int{}
	// ante decorators
	for _, d := range decoratorCensus(e) {
		add(d.Fn)
		n["ante_decorators"]++
	}
	// message servers of the four custom modules: every method of <module>/types.MsgServer on its implementers
	for _, m := range []string{"evm", "feemarket", "cpc", "vauth"} {
		tp := EV + "/x/" + m + "/types"
		iface := e.Iface(tp, "MsgServer")
		for _, p := range e.RepoPackages() {
			if !strings.HasPrefix(p.PkgPath, EV+"/x/"+m) {
				continue
			}
			sc := p.Types.Scope()
			for _, name := range sc.Names() {
				tn, ok := sc.Lookup(name).(*types.TypeName)
				if !ok {
					continue
				}
				named, ok := types.Unalias(tn.Type()).(*types.Named)
				if !ok {
					continue
				}
				if _, isI := named.Underlying().(*types.Interface); isI {
					continue
				}
				if strings.HasPrefix(name, "Unimplemented") {
					continue
				}
				var recv types.Type
				if types.Implements(named, iface) {
					recv = named
				} else if types.Implements(types.NewPointer(named), iface) {
					recv = types.NewPointer(named)
				} else {
					continue
				}
				for i := 0; i < iface.NumMethods(); i++ {
					sel := e.Prog.MethodSets.MethodSet(recv).Lookup(iface.Method(i).Pkg(), iface.Method(i).Name())
					if sel == nil {
						continue
					}
					if fo, ok := sel.Obj().(*types.Func); ok {
						if f := e.Prog.FuncValue(fo); f != nil && f.Blocks != nil {
							add(f)
							n["msg_server_methods"]++
						}
					}
				}
			}
		}
	}
	// module begin/end blockers and genesis
	for _, m := range []string{"evm", "feemarket", "cpc", "vauth"} {
		for _, meth := range []string{"BeginBlock", "EndBlock", "InitGenesis", "PreBlock"} {
			if fo := e.TryMethodObj(EV+"/x/"+m, "AppModule", meth); fo != nil {
				add(e.Prog.FuncValue(fo))
				n["module_abci"]++
			}
		}
	}
	for _, meth := range []string{"BeginBlocker", "EndBlocker", "InitChainer", "PreBlocker"} {
		if fo := e.TryMethodObj(EV+"/app", "Evermint", meth); fo != nil {
			add(e.Prog.FuncValue(fo))
			n["app_abci"]++
		}
	}
	// StateDB
	sdb := e.Named(pkgEvmVM, "cStateDb")
	for _, t := range []types.Type{sdb, types.NewPointer(sdb)} {
		ms := e.Prog.MethodSets.MethodSet(t)
		for i := 0; i < ms.Len(); i++ {
			if fo, ok := ms.At(i).Obj().(*types.Func); ok && recvNamed(fo) == sdb && !strings.HasPrefix(fo.Name(), "ForTest_") {
				if f := e.Prog.FuncValue(fo); f != nil && f.Blocks != nil {
					if _, isPtr := t.(*types.Pointer); isPtr {
						if e.Prog.MethodSets.MethodSet(sdb).Lookup(fo.Pkg(), fo.Name()) != nil {
							continue
						}
					}
					add(f)
					n["statedb_methods"]++
				}
			}
		}
	}
	// precompile executors and the dispatcher
	for _, x := range executorCensus(e) {
		add(x.Execute)
		add(x.ReadOnly)
		add(x.Gas)
		add(x.Sig)
		n["executors"]++
	}
	add(e.Fn(pkgCpcKeeper, "customPrecompiledContractMethodExecutorImpl.Execute"))
	// fee checkers
	for _, fnn := range []string{"DualLaneFeeChecker", "EthereumTxFeeChecker", "CosmosTxFeeChecker"} {
		add(e.Fn(pkgDual, fnn))
		n["fee_checkers"]++
	}
	// state transition
	st := e.Named(pkgEvmKeeper, "StateTransition")
	ms := e.Prog.MethodSets.MethodSet(types.NewPointer(st))
	for i := 0; i < ms.Len(); i++ {
		if fo, ok := ms.At(i).Obj().(*types.Func); ok && recvNamed(fo) == st {
			add(e.Prog.FuncValue(fo))
			n["state_transition_methods"]++
		}
	}
	for _, q := range []string{"Keeper.ApplyTransaction", "Keeper.ApplyMessageWithConfig", "Keeper.NewEVM", "Keeper.EVMConfig"} {
		add(e.Fn(pkgEvmKeeper, q))
	}
	for k, v := range n {
		r.Count("roots_"+k, v)
	}
	mins := map[string]int{"ante_decorators": 16, "msg_server_methods": 5, "statedb_methods": 35, "executors": 30, "module_abci": 4, "app_abci": 3}
	for k, m := range mins {
		if n[k] < m {
			undecidedf("root census: only %d %s found (expected >= %d)", n[k], k, m)
		}
	}
	return roots
}

// ownedForReports: repo-owned code, or one of the fork's evermint-specific files.
func ownedForReports(e *Engine, f *ssa.Function) bool {
	top := f
	for top.Parent() != nil {
		top = top.Parent()
	}
	var path string
	if top.Pkg != nil {
		path = top.Pkg.Pkg.Path()
	} else if o := top.Origin(); o != nil && o.Pkg != nil {
		path = o.Pkg.Pkg.Path()
	}
	file := e.File(f.Pos())
	if IsGenerated(file) {
		return false
	}
	if e.RepoOwned(path) {
		return true
	}
	return strings.HasPrefix(path, GETH) && strings.HasSuffix(file, "_evermint.go")
}

var nondetCalls = []CallSpec{
	{"time", "", "Now"}, {"time", "", "Since"}, {"time", "", "Until"},
	{"os", "", "Getenv"}, {"os", "", "LookupEnv"}, {"os", "", "Environ"}, {"os", "", "Hostname"}, {"os", "", "Getpid"}, {"os", "", "Getwd"},
	{"runtime", "", "NumGoroutine"}, {"runtime", "", "GOMAXPROCS"}, {"runtime", "", "NumCPU"},
}

func isNondetCall(c ssa.CallInstruction) (string, bool) {
	if isCallTo(c, nondetCalls...) {
		return calleeName(c), true
	}
	if fo := calleeObj(c); fo != nil && fo.Pkg() != nil {
		switch fo.Pkg().Path() {
		case "math/rand", "math/rand/v2", "crypto/rand":
			if fo.Type().(*types.Signature).Recv() == nil || fo.Pkg().Path() != "crypto/rand" {
				return calleeName(c), true
			}
		}
	}
	return "", false
}

func isTelemetrySink(c ssa.CallInstruction) bool {
	fo := calleeObj(c)
	if fo == nil || fo.Pkg() == nil {
		return false
	}
	p := fo.Pkg().Path()
	for _, t := range []string{"github.com/cosmos/cosmos-sdk/telemetry", "github.com/hashicorp/go-metrics", "github.com/armon/go-metrics", "cosmossdk.io/log", "github.com/prometheus/", "github.com/cometbft/cometbft/libs/log"} {
		if p == t || strings.HasPrefix(p, t) {
			return true
		}
	}
	// Logger interface methods
	if rn := recvNamed(fo); rn != nil && rn.Obj().Name() == "Logger" {
		return true
	}
	return false
}

// escapesTelemetry: does value v flow anywhere other than into telemetry/metrics/logger calls? Returns a description of the first such use.
func escapesTelemetry(v ssa.Value, seen map[ssa.Value]bool) (string, token.Pos) {
	if seen[v] {
		return "", token.NoPos
	}
	seen[v] = true
	refs := v.Referrers()
	if refs == nil {
		return "", token.NoPos
	}
	for _, ref := range *refs {
		switch x := ref.(type) {
		case *ssa.DebugRef:
			continue
		case ssa.CallInstruction:
			if isTelemetrySink(x) {
				continue
			}
			// methods on the time value itself (UTC, Unix, Sub …) continue the slice
			if cv, ok := x.(ssa.Value); ok {
				if fo := calleeObj(x); fo != nil && fo.Pkg() != nil && fo.Pkg().Path() == "time" {
					if d, p := escapesTelemetry(cv, seen); d != "" {
						return d, p
					}
					continue
				}
			}
			return "argument of " + calleeName(x), x.Pos()
		case *ssa.If:
			return "branch condition", x.Pos()
		case *ssa.Return:
			return "returned", x.Pos()
		case *ssa.Store:
			if x.Val == v {
				// a spill to a local that only feeds telemetry is fine
				if a, ok := x.Addr.(*ssa.Alloc); ok {
					if d, p := escapesTelemetry(a, seen); d != "" {
						return d, p
					}
					continue
				}
				// element of a fresh variadic-argument array: follow the array to the call that receives it
				if ia, ok := x.Addr.(*ssa.IndexAddr); ok {
					if a, ok := ia.X.(*ssa.Alloc); ok {
						if d, p := escapesTelemetry(a, seen); d != "" {
							return d, p
						}
						continue
					}
				}
				return "stored to memory", x.Pos()
			}
		case *ssa.MapUpdate, *ssa.Send, *ssa.Panic:
			return "stored/sent", ref.Pos()
		case ssa.Value:
			if d, p := escapesTelemetry(x, seen); d != "" {
				return d, p
			}
		}
	}
	return "", token.NoPos
}

func checkC01(e *Engine, r *Report) {
	e.BuildSSA()
	r.NotDecided("equality of application hashes / results as values; determinism of dependency code (cosmos-sdk, cometbft, upstream go-ethereum) is assumed")
	r.NotDecided("order-sensitivity of map ranges in code not reachable from the block-execution roots is reported as advisory only")
	r.Assumption("block execution enters repo code only through the census roots (ante decorators, msg servers, module begin/end blockers and genesis, app ABCI hooks, StateDB methods, precompile executors, fee checkers, state transition)")
	roots := consensusRoots(e, r)
	ee := e.Effects()
	reach := ee.ReachSet(roots, EffectOpts{NoIsolated: true})
	var owned []*ssa.Function
	for f := range reach {
		if ownedForReports(e, f) {
			owned = append(owned, f)
			for _, a := range f.AnonFuncs {
				if !reach[a] {
					owned = append(owned, a)
				}
			}
		}
	}
	sort.Slice(owned, func(i, j int) bool { return fnKey(owned[i]) < fnKey(owned[j]) })
	r.Count("roots", len(roots))
	r.Count("reachable_functions", len(reach))
	r.Count("reachable_repo_owned", len(owned))

	r.Rule("R1", "EFFECT+PROVENANCE", "no repo-owned function reachable from block execution lets the result of a wall-clock / randomness / environment / runtime-introspection call flow anywhere but telemetry, metrics or logging", 1, func() {
		n := 0
		for _, f := range owned {
			ord := map[string]int{}
			allInstrs(f, false, func(_ *ssa.Function, _ *ssa.BasicBlock, in ssa.Instruction) {
				c, ok := in.(ssa.CallInstruction)
				if !ok {
					return
				}
				name, nd := isNondetCall(c)
				if !nd {
					return
				}
				n++
				ord[name]++
				key := fmt.Sprintf("%s › %s", fnKey(f), name)
				if ord[name] > 1 {
					key += fmt.Sprintf("#%d", ord[name]-1)
				}
				v, isV := c.(ssa.Value)
				if !isV {
					r.OK(key, e.Pos(c.Pos()), "result unused (go/defer)")
					return
				}
				if d, p := escapesTelemetry(v, map[ssa.Value]bool{}); d != "" {
					r.Bad(key, e.Pos(c.Pos()), "non-deterministic source reachable from block execution influences behaviour: result is "+d+" at "+e.Pos(p))
				} else {
					r.OK(key, e.Pos(c.Pos()), "feeds telemetry/logging only")
				}
			})
		}
		// expected count on the real tree is zero: the same detector must fire on the canary (and stay silent on the telemetry idiom)
		cn := LoadCanary(verifDir)
		fired := func(name string) bool {
			hit := false
			allInstrs(cn.CanaryFn(name), false, func(_ *ssa.Function, _ *ssa.BasicBlock, in ssa.Instruction) {
				if c, ok := in.(ssa.CallInstruction); ok {
					if _, nd := isNondetCall(c); nd {
						if v, isV := c.(ssa.Value); isV {
							if d, _ := escapesTelemetry(v, map[ssa.Value]bool{}); d != "" {
								hit = true
							}
						}
					}
				}
			})
			return hit
		}
		for _, name := range []string{"WallClockBranch", "RandomChoice", "EnvDependent"} {
			if !fired(name) {
				r.Undec("CHECKER-BROKEN canary "+name, "", "the non-determinism detector no longer reports its seeded canary")
			}
		}
		if fired("WallClockTelemetryOnly") {
			r.Undec("CHECKER-BROKEN canary WallClockTelemetryOnly", "", "the detector reports the allowed telemetry idiom")
		}
		r.Count("canary_fired_R1", 3)
		if n == 0 {
			r.OK("no non-deterministic source call in reachable repo-owned code", "", fmt.Sprintf("%d reachable repo-owned functions inspected; detector confirmed on 3 canaries + 1 negative canary", len(owned)))
		}
	})

	r.Rule("R2", "AST+EFFECT", "every `range` over a map in repo-owned code reachable from block execution has an order-insensitive body (map writes, commutative accumulation, appends that are sorted before use, effect-free calls, constant early exits)", 5, func() {
		checkMapRanges(e, r, ee, reach)
	})

	r.Rule("R7", "OWNERSHIP", "process-lifetime state: reachable repo code never sorts, compacts, reverses or element-assigns a slice it does not own (a parameter, or the result of a dependency call, which may alias a package-level table such as go-ethereum's precompile address lists) — it works on a copy; otherwise results depend on what the process executed before", 1, func() {
		checkSliceOwnership(e, r, owned, ee, reach)
	})

	r.Rule("R3", "SCHED", "no goroutine start, select, channel operation or lock in repo-owned code reachable from block execution", 1, func() {
		n := 0
		for _, f := range owned {
			allInstrs(f, false, func(_ *ssa.Function, _ *ssa.BasicBlock, in ssa.Instruction) {
				var what string
				switch x := in.(type) {
				case *ssa.Go:
					what = "go statement"
				case *ssa.Select:
					what = "select"
				case *ssa.Send:
					what = "channel send"
				case *ssa.UnOp:
					if x.Op == token.ARROW {
						what = "channel receive"
					}
				case *ssa.MakeChan:
					what = "channel creation"
				case ssa.CallInstruction:
					// locks / once / atomics guard memory that is shared between goroutines and outlives the call: process-lifetime,
					// node-local state (a cache filled by whichever request came first) in the middle of consensus code
					if fo := calleeObj(x); fo != nil && fo.Pkg() != nil && (fo.Pkg().Path() == "sync" || fo.Pkg().Path() == "sync/atomic") {
						what = "use of " + fo.Pkg().Path() + "." + fo.Name() + " (shared in-process state)"
					}
				}
				if what != "" {
					n++
					top := f
					for top.Parent() != nil {
						top = top.Parent()
					}
					r.Bad(fnKey(f)+" › "+what, e.Pos(in.Pos()), what+" in code reachable from block execution: the outcome can depend on goroutine scheduling", ee.WhyReach(roots, top, EffectOpts{NoIsolated: true})...)
				}
			})
		}
		cn := LoadCanary(verifDir)
		cf := cn.CanaryFn("Goroutine")
		seenGo, seenCh := false, false
		allInstrs(cf, true, func(_ *ssa.Function, _ *ssa.BasicBlock, in ssa.Instruction) {
			switch x := in.(type) {
			case *ssa.Go:
				seenGo = true
			case *ssa.UnOp:
				if x.Op == token.ARROW {
					seenCh = true
				}
			}
		})
		if !seenGo || !seenCh {
			r.Undec("CHECKER-BROKEN canary Goroutine", "", "the scheduling detector no longer sees its seeded canary")
		}
		if n == 0 {
			r.OK("no scheduling-dependent construct", "", fmt.Sprintf("%d reachable repo-owned functions inspected; detector confirmed on the canary", len(owned)))
		}
	})

	r.Rule("R4", "PROVENANCE+MUST-PASS", "every use of the node-local sdk.Context.MinGasPrices() in reachable repo code is dominated by the true edge of ctx.IsCheckTx()", 2, func() {
		for _, f := range owned {
			for _, c := range callsTo(f, false, CallSpec{pkgSdkTypes, "Context", "MinGasPrices"}) {
				v := c.(ssa.Value)
				gs := boolCallGuards(f, true, func(x *ssa.Call) bool { return isCallTo(x, CallSpec{pkgSdkTypes, "Context", "IsCheckTx"}) })
				bad := ""
				var walk func(v ssa.Value, seen map[ssa.Value]bool)
				walk = func(v ssa.Value, seen map[ssa.Value]bool) {
					if seen[v] || bad != "" {
						return
					}
					seen[v] = true
					refs := v.Referrers()
					if refs == nil {
						return
					}
					for _, ref := range *refs {
						if _, isDbg := ref.(*ssa.DebugRef); isDbg {
							continue
						}
						// pure derivations of the value may precede the guard; any consumption must be guarded
						switch x := ref.(type) {
						case *ssa.If, *ssa.Return, *ssa.Store, *ssa.MapUpdate:
							if !mustPass(f, ref, gs) {
								bad = "used at " + e.Pos(ref.Pos()) + " outside the IsCheckTx() branch"
							}
						case ssa.CallInstruction:
							if val, isVal := x.(ssa.Value); isVal && isPureDerivation(x) {
								walk(val, seen)
							} else if !mustPass(f, ref, gs) {
								bad = "passed to " + calleeName(x) + " at " + e.Pos(ref.Pos()) + " outside the IsCheckTx() branch"
							}
						case *ssa.Phi:
							// the assignment happens on the incoming edge: that edge's source block must be guarded; the merged value is a consensus value from then on
							for k, ed := range x.Edges {
								if ed == v {
									pred := x.Block().Preds[k]
									if len(pred.Instrs) == 0 || !mustPass(f, pred.Instrs[len(pred.Instrs)-1], gs) {
										bad = "assigned on an edge outside the IsCheckTx() branch (merge at " + e.Pos(x.Pos()) + ")"
									}
								}
							}
						case *ssa.Range, *ssa.Next:
							if !mustPass(f, ref, gs) {
								bad = "iterated at " + e.Pos(ref.Pos()) + " outside the IsCheckTx() branch"
							}
						case ssa.Value:
							walk(x, seen)
						}
					}
				}
				walk(v, map[ssa.Value]bool{})
				r.Check(bad == "", fnKey(f)+" › MinGasPrices()", e.Pos(c.Pos()), "every consumption is under IsCheckTx()", "node-local minimum gas prices influence block execution: "+bad)
			}
		}
	})

	r.Rule("R5", "WHO-MAY-CALL", "test-only switches (ForTest_* methods, package-level test flags) have no caller in non-test repo code; package-level variables of consensus packages read on reachable paths are written only by init/constructors/ForTest_*", 2, func() {
		checkTestSwitches(e, r, reach)
	})
}

// isPureDerivation: calls that merely transform the MinGasPrices value (methods of DecCoins/Dec/Int, len).
func isPureDerivation(c ssa.CallInstruction) bool {
	if b, ok := c.Common().Value.(*ssa.Builtin); ok {
		return b.Name() == "len"
	}
	fo := calleeObj(c)
	if fo == nil || fo.Pkg() == nil {
		return false
	}
	p := fo.Pkg().Path()
	if rn := recvNamed(fo); rn != nil {
		switch rn.Obj().Name() {
		case "DecCoins", "DecCoin", "LegacyDec", "Int", "Coins", "Coin":
			return p == pkgSdkTypes || p == "cosmossdk.io/math"
		}
	}
	return false
}

// ---------------------------------------------------------------- map ranges

func checkMapRanges(e *Engine, r *Report, ee *EffectEngine, reach map[*ssa.Function]bool) {
	// index reachable declared functions by their *types.Func
	reachObj := map[*types.Func]bool{}
	for f := range reach {
		top := f
		for top.Parent() != nil {
			top = top.Parent()
		}
		if o := top.Origin(); o != nil {
			top = o
		}
		if fo, ok := top.Object().(*types.Func); ok {
			reachObj[fo] = true
		}
	}
	type site struct {
		p   *packages.Package
		fd  *ast.FuncDecl
		rs  *ast.RangeStmt
		fo  *types.Func
		ord int
	}
	var sites []site
	var pkgs []*packages.Package
	pkgs = append(pkgs, e.RepoPackages()...)
	if p := e.All[pkgGethVM]; p != nil {
		pkgs = append(pkgs, p)
	}
	for _, p := range pkgs {
		for _, file := range p.Syntax {
			fname := e.Fset.Position(file.Pos()).Filename
			if IsGenerated(fname) {
				continue
			}
			if !e.RepoOwned(p.PkgPath) && !strings.HasSuffix(fname, "_evermint.go") {
				continue
			}
			for _, d := range file.Decls {
				fd, ok := d.(*ast.FuncDecl)
				if !ok || fd.Body == nil {
					continue
				}
				fo, _ := p.TypesInfo.Defs[fd.Name].(*types.Func)
				ord := 0
				ast.Inspect(fd.Body, func(n ast.Node) bool {
					rs, ok := n.(*ast.RangeStmt)
					if !ok {
						return true
					}
					if _, isMap := p.TypesInfo.TypeOf(rs.X).Underlying().(*types.Map); isMap {
						sites = append(sites, site{p, fd, rs, fo, ord})
						ord++
					}
					return true
				})
			}
		}
	}
	nReach := 0
	for _, s := range sites {
		key := funcObjKey(s.fo) + " › range " + types.ExprString(s.rs.X)
		if s.ord > 0 {
			key += fmt.Sprintf("#%d", s.ord)
		}
		j := &rangeJudge{e: e, ee: ee, p: s.p, fd: s.fd, rs: s.rs}
		why := j.judge()
		pos := e.Pos(s.rs.Pos())
		if !reachObj[s.fo] {
			if why == "" {
				r.Adv(key, pos, "not reachable from block execution; body is order-insensitive")
			} else {
				r.Adv(key, pos, "not reachable from block execution; order-sensitive: "+why)
			}
			continue
		}
		nReach++
		// named exemption, re-confirmed on every run
		if funcObjKey(s.fo) == GETH+"/core/vm.EVM.GetCustomPrecompiledContractsAddress" && why != "" {
			if okSet, reason := precompileAddrsUsedAsSet(e); okSet {
				r.OK(key, pos, "order-sensitive append, but the result is consumed only as a set: "+reason)
				continue
			} else {
				why += "; exemption not confirmed: " + reason
			}
		}
		r.Check(why == "", key, pos, "order-insensitive body", "map iteration order influences block execution: "+why)
	}
	r.Count("map_range_sites", len(sites))
	r.Count("map_range_sites_reachable", nReach)
}

// precompileAddrsUsedAsSet: the fork's GetCustomPrecompiledContractsAddress is called in repo code only to feed PrepareAccessList (a set insertion).
func precompileAddrsUsedAsSet(e *Engine) (bool, string) {
	spec := CallSpec{pkgGethVM, "EVM", "GetCustomPrecompiledContractsAddress"}
	n := 0
	for _, f := range e.SrcFuncs(e.RepoOwned) {
		if IsGenerated(e.File(f.Pos())) {
			continue
		}
		for _, c := range callsTo(f, true, spec) {
			n++
			v := c.(ssa.Value)
			ok := true
			var walk func(v ssa.Value, seen map[ssa.Value]bool)
			walk = func(v ssa.Value, seen map[ssa.Value]bool) {
				if seen[v] {
					return
				}
				seen[v] = true
				if refs := v.Referrers(); refs != nil {
					for _, ref := range *refs {
						switch x := ref.(type) {
						case *ssa.DebugRef:
						case ssa.CallInstruction:
							if b, isB := x.Common().Value.(*ssa.Builtin); isB && b.Name() == "append" {
								walk(x.(ssa.Value), seen)
							} else if isMethodNamed(x, "PrepareAccessList") {
								// set insertion
							} else {
								ok = false
							}
						case *ssa.Slice:
							walk(x, seen)
						default:
							ok = false
						}
					}
				}
			}
			walk(v, map[ssa.Value]bool{})
			if !ok {
				return false, "result of " + spec.String() + " in " + fnKey(f) + " flows somewhere other than PrepareAccessList"
			}
		}
	}
	if n == 0 {
		return true, "no repo caller"
	}
	return true, fmt.Sprintf("%d repo call site(s), each passes the list to PrepareAccessList only", n)
}

type rangeJudge struct {
	e  *Engine
	ee *EffectEngine
	p  *packages.Package
	fd *ast.FuncDecl
	rs *ast.RangeStmt
}

// judge returns "" if the body is order-insensitive, else the reason.
func (j *rangeJudge) judge() string {
	locals := map[types.Object]bool{}
	if id, ok := j.rs.Key.(*ast.Ident); ok && j.rs.Tok == token.DEFINE {
		locals[j.p.TypesInfo.Defs[id]] = true
	}
	if id, ok := j.rs.Value.(*ast.Ident); ok && j.rs.Tok == token.DEFINE {
		locals[j.p.TypesInfo.Defs[id]] = true
	}
	return j.stmts(j.rs.Body.List, locals)
}

func (j *rangeJudge) stmts(list []ast.Stmt, locals map[types.Object]bool) string {
	for _, s := range list {
		if why := j.stmt(s, locals); why != "" {
			return why
		}
	}
	return ""
}

func (j *rangeJudge) pos(n ast.Node) string { return j.e.Pos(n.Pos()) }

func (j *rangeJudge) stmt(s ast.Stmt, locals map[types.Object]bool) string {
	switch x := s.(type) {
	case *ast.BlockStmt:
		return j.stmts(x.List, locals)
	case *ast.EmptyStmt:
		return ""
	case *ast.DeclStmt:
		if gd, ok := x.Decl.(*ast.GenDecl); ok {
			for _, sp := range gd.Specs {
				if vs, ok := sp.(*ast.ValueSpec); ok {
					for _, id := range vs.Names {
						locals[j.p.TypesInfo.Defs[id]] = true
					}
					for _, v := range vs.Values {
						if why := j.expr(v); why != "" {
							return why
						}
					}
				}
			}
		}
		return ""
	case *ast.IncDecStmt:
		return "" // commutative
	case *ast.BranchStmt:
		if x.Tok == token.CONTINUE || x.Tok == token.BREAK {
			return ""
		}
		return "goto/fallthrough at " + j.pos(x)
	case *ast.ReturnStmt:
		for _, res := range x.Results {
			tv := j.p.TypesInfo.Types[res]
			if tv.Value == nil && !isNilIdent(res) {
				return "early return of a non-constant value at " + j.pos(x) + " (which element is met first decides the result)"
			}
		}
		return ""
	case *ast.IfStmt:
		if x.Init != nil {
			if why := j.stmt(x.Init, locals); why != "" {
				return why
			}
		}
		if why := j.expr(x.Cond); why != "" {
			return why
		}
		if why := j.stmts(x.Body.List, locals); why != "" {
			return why
		}
		if x.Else != nil {
			return j.stmt(x.Else, locals)
		}
		return ""
	case *ast.ForStmt:
		if x.Init != nil {
			if why := j.stmt(x.Init, locals); why != "" {
				return why
			}
		}
		return j.stmts(x.Body.List, locals)
	case *ast.RangeStmt:
		if id, ok := x.Key.(*ast.Ident); ok && x.Tok == token.DEFINE {
			locals[j.p.TypesInfo.Defs[id]] = true
		}
		if id, ok := x.Value.(*ast.Ident); ok && x.Tok == token.DEFINE {
			locals[j.p.TypesInfo.Defs[id]] = true
		}
		if why := j.expr(x.X); why != "" {
			return why
		}
		return j.stmts(x.Body.List, locals)
	case *ast.SwitchStmt, *ast.TypeSwitchStmt:
		why := ""
		ast.Inspect(x, func(n ast.Node) bool {
			if cc, ok := n.(*ast.CaseClause); ok && why == "" {
				why = j.stmts(cc.Body, locals)
			}
			return why == ""
		})
		return why
	case *ast.ExprStmt:
		return j.expr(x.X)
	case *ast.AssignStmt:
		for _, rhs := range x.Rhs {
			if why := j.expr(rhs); why != "" {
				return why
			}
		}
		if x.Tok == token.DEFINE {
			for _, l := range x.Lhs {
				if id, ok := l.(*ast.Ident); ok {
					if o := j.p.TypesInfo.Defs[id]; o != nil {
						locals[o] = true
					}
				}
			}
			return ""
		}
		if x.Tok != token.ASSIGN {
			// op-assignment: + | & ^ * are commutative accumulations; - / << etc. on a shared accumulator too for +/-
			switch x.Tok {
			case token.ADD_ASSIGN, token.OR_ASSIGN, token.AND_ASSIGN, token.XOR_ASSIGN, token.MUL_ASSIGN, token.SUB_ASSIGN:
				if t := j.p.TypesInfo.TypeOf(x.Lhs[0]); t != nil {
					if b, ok := t.Underlying().(*types.Basic); ok && b.Info()&types.IsString != 0 {
						return "string concatenation in iteration order at " + j.pos(x)
					}
				}
				return ""
			}
			return "non-commutative accumulation at " + j.pos(x)
		}
		for i, l := range x.Lhs {
			l = ast.Unparen(l)
			switch lv := l.(type) {
			case *ast.IndexExpr:
				if _, isMap := j.p.TypesInfo.TypeOf(lv.X).Underlying().(*types.Map); isMap {
					continue // map write keyed by the element
				}
				if sid, ok := ast.Unparen(lv.X).(*ast.Ident); ok {
					if so := j.p.TypesInfo.Uses[sid]; so != nil && j.sortedAfter(so) {
						continue // filled in iteration order, sorted before any other use
					}
				}
				return "slice/array element written in iteration order at " + j.pos(x) + " and not sorted before use"
			case *ast.Ident:
				if lv.Name == "_" {
					continue
				}
				o := j.p.TypesInfo.Uses[lv]
				if locals[o] {
					continue
				}
				// outer variable
				if i < len(x.Rhs) {
					rhs := ast.Unparen(x.Rhs[i])
					if tv := j.p.TypesInfo.Types[rhs]; tv.Value != nil || isNilIdent(rhs) {
						continue // constant: whichever element assigns, same result
					}
					if call, ok := rhs.(*ast.CallExpr); ok {
						if id, ok := call.Fun.(*ast.Ident); ok && id.Name == "append" && len(call.Args) > 0 {
							if a0, ok := ast.Unparen(call.Args[0]).(*ast.Ident); ok && j.p.TypesInfo.Uses[a0] == o {
								if j.sortedAfter(o) {
									continue
								}
								return "elements appended to " + lv.Name + " in iteration order at " + j.pos(x) + " and not sorted before use"
							}
						}
					}
				}
				return "outer variable " + lv.Name + " assigned per element at " + j.pos(x) + " (last writer wins)"
			default:
				return "assignment through " + types.ExprString(l) + " at " + j.pos(x)
			}
		}
		return ""
	case *ast.DeferStmt, *ast.GoStmt, *ast.SendStmt, *ast.SelectStmt:
		return "defer/go/channel operation at " + j.pos(x)
	}
	return fmt.Sprintf("statement form %T at %s not recognised", s, j.pos(s))
}

func isNilIdent(e ast.Expr) bool {
	id, ok := ast.Unparen(e).(*ast.Ident)
	return ok && (id.Name == "nil" || id.Name == "true" || id.Name == "false")
}

// expr: every call inside the expression must be effect-free (no store write, event or log reachable) — pure builtins are fine.
func (j *rangeJudge) expr(x ast.Expr) string {
	why := ""
	ast.Inspect(x, func(n ast.Node) bool {
		if why != "" {
			return false
		}
		if _, isLit := n.(*ast.FuncLit); isLit {
			return false
		}
		call, ok := n.(*ast.CallExpr)
		if !ok {
			return true
		}
		if tv, ok := j.p.TypesInfo.Types[call.Fun]; ok && tv.IsType() {
			return true // conversion
		}
		var id *ast.Ident
		switch f := ast.Unparen(call.Fun).(type) {
		case *ast.Ident:
			id = f
		case *ast.SelectorExpr:
			id = f.Sel
		case *ast.IndexExpr:
			if s, ok := f.X.(*ast.SelectorExpr); ok {
				id = s.Sel
			} else if i2, ok := f.X.(*ast.Ident); ok {
				id = i2
			}
		}
		if id == nil {
			why = "call of a computed function at " + j.pos(call)
			return false
		}
		switch o := j.p.TypesInfo.Uses[id].(type) {
		case *types.Builtin:
			switch o.Name() {
			case "panic":
				why = "panic inside the loop at " + j.pos(call) + " (which element panics first decides the error)"
			}
			return true
		case *types.Func:
			fn := j.e.Prog.FuncValue(o)
			if fn == nil {
				// interface method: resolve through the call graph of the enclosing function is not attempted here; be conservative
				if sig, ok := o.Type().(*types.Signature); ok && sig.Recv() != nil {
					if _, isIface := sig.Recv().Type().Underlying().(*types.Interface); isIface {
						why = "call of interface method " + o.Name() + " at " + j.pos(call) + " (effects unknown)"
						return false
					}
				}
				return true
			}
			if j.ee.isTrusted(fn) {
				return true
			}
			if k := j.ee.sinkKind(fn); k != "" {
				why = "call of " + fnKey(fn) + " at " + j.pos(call) + " is a " + k
				return false
			}
			hits := j.ee.Reach(fn, EffectOpts{MaxHits: 1, NoIsolated: true})
			if len(hits) > 0 {
				why = "call of " + fnKey(fn) + " at " + j.pos(call) + " reaches " + hits[0].Kind + " " + fnKey(hits[0].Sink) + " (effects happen in map iteration order)"
				return false
			}
			if reachesPanicInRepo(j.ee, fn) {
				why = "call of " + fnKey(fn) + " at " + j.pos(call) + " can panic (which element panics first decides the error)"
				return false
			}
		case *types.Var:
			why = "call through variable " + o.Name() + " at " + j.pos(call) + " (effects unknown)"
			return false
		}
		return true
	})
	return why
}

// reachesPanicInRepo: fn (repo-owned) contains an explicit panic directly (depth 0) — used for loop bodies.
func reachesPanicInRepo(ee *EffectEngine, fn *ssa.Function) bool {
	found := false
	allInstrs(fn, false, func(_ *ssa.Function, _ *ssa.BasicBlock, in ssa.Instruction) {
		if _, ok := in.(*ssa.Panic); ok {
			found = true
		}
	})
	return found && ee.e.RepoOwned(pkgPathOf(fn))
}

func pkgPathOf(fn *ssa.Function) string {
	if fn.Pkg != nil {
		return fn.Pkg.Pkg.Path()
	}
	if o := fn.Origin(); o != nil && o.Pkg != nil {
		return o.Pkg.Pkg.Path()
	}
	return ""
}

// sortedAfter: the slice variable o is passed to a sort function after the range statement and is not mentioned in between.
func (j *rangeJudge) sortedAfter(o types.Object) bool {
	// find the statement list containing the range statement
	var list []ast.Stmt
	idx := -1
	ast.Inspect(j.fd.Body, func(n ast.Node) bool {
		var l []ast.Stmt
		switch b := n.(type) {
		case *ast.BlockStmt:
			l = b.List
		case *ast.CaseClause:
			l = b.Body
		}
		for i, s := range l {
			if s == ast.Stmt(j.rs) {
				list, idx = l, i
			}
		}
		return idx < 0
	})
	if idx < 0 {
		return false
	}
	mentions := func(n ast.Node) bool {
		m := false
		ast.Inspect(n, func(x ast.Node) bool {
			if id, ok := x.(*ast.Ident); ok && j.p.TypesInfo.Uses[id] == o {
				m = true
			}
			return !m
		})
		return m
	}
	for _, s := range list[idx+1:] {
		if !mentions(s) {
			continue
		}
		// first mention after the loop must be a sort call on it
		es, ok := s.(*ast.ExprStmt)
		if !ok {
			return false
		}
		call, ok := es.X.(*ast.CallExpr)
		if !ok || len(call.Args) == 0 {
			return false
		}
		sel, ok := call.Fun.(*ast.SelectorExpr)
		if !ok {
			return false
		}
		fo, _ := j.p.TypesInfo.Uses[sel.Sel].(*types.Func)
		if fo == nil || fo.Pkg() == nil {
			return false
		}
		if !((fo.Pkg().Path() == "sort" && (fo.Name() == "Slice" || fo.Name() == "SliceStable" || fo.Name() == "Strings" || fo.Name() == "Ints" || fo.Name() == "Sort" || fo.Name() == "Stable")) ||
			(fo.Pkg().Path() == "slices" && strings.HasPrefix(fo.Name(), "Sort"))) {
			return false
		}
		a0, ok := ast.Unparen(call.Args[0]).(*ast.Ident)
		return ok && j.p.TypesInfo.Uses[a0] == o
	}
	return false
}

// ---------------------------------------------------------------- test switches

func checkTestSwitches(e *Engine, r *Report, reach map[*ssa.Function]bool) {
	n := 0
	for _, f := range e.SrcFuncs(e.RepoOwned) {
		if IsGenerated(e.File(f.Pos())) {
			continue
		}
		top := f
		for top.Parent() != nil {
			top = top.Parent()
		}
		if strings.HasPrefix(top.Name(), "ForTest_") {
			continue
		}
		allInstrs(f, false, func(_ *ssa.Function, _ *ssa.BasicBlock, in ssa.Instruction) {
			c, ok := in.(ssa.CallInstruction)
			if !ok {
				return
			}
			fo := calleeObj(c)
			if fo != nil && strings.HasPrefix(fo.Name(), "ForTest_") && fo.Pkg() != nil && e.RepoOwned(fo.Pkg().Path()) {
				n++
				r.Bad("production caller of "+funcObjKey(fo)+" › "+fnKey(f), e.Pos(c.Pos()), "a test-only switch is called from non-test code")
			}
		})
	}
	if n == 0 {
		r.OK("ForTest_* have no non-test caller", "", "census over all repo-owned non-test functions")
	}
	// package-level variables read on reachable repo paths: writers
	type gv struct {
		g       *ssa.Global
		readers []string
	}
	reads := map[*ssa.Global]*gv{}
	for f := range reach {
		if !ownedForReports(e, f) {
			continue
		}
		allInstrs(f, true, func(ff *ssa.Function, _ *ssa.BasicBlock, in ssa.Instruction) {
			if u, ok := in.(*ssa.UnOp); ok && u.Op == token.MUL {
				if g, ok := u.X.(*ssa.Global); ok && g.Pkg != nil && e.RepoOwned(g.Pkg.Pkg.Path()) {
					if reads[g] == nil {
						reads[g] = &gv{g: g}
					}
					reads[g].readers = append(reads[g].readers, fnKey(ff))
				}
			}
		})
	}
	var gs []*gv
	for _, x := range reads {
		gs = append(gs, x)
	}
	sort.Slice(gs, func(i, j int) bool { return gs[i].g.String() < gs[j].g.String() })
	for _, x := range gs {
		g := x.g
		// scalar/bool/pointer variables only; error sentinels, codecs and tables initialised once are covered by the writer census too
		bad := ""
		for _, f := range e.SrcFuncs(func(p string) bool { return p == g.Pkg.Pkg.Path() }) {
			top := f
			for top.Parent() != nil {
				top = top.Parent()
			}
			if top.Name() == "init" || strings.HasPrefix(top.Name(), "init#") || strings.HasPrefix(top.Name(), "ForTest_") || top.Synthetic != "" {
				continue
			}
			allInstrs(f, false, func(_ *ssa.Function, _ *ssa.BasicBlock, in ssa.Instruction) {
				if st, ok := in.(*ssa.Store); ok && st.Addr == ssa.Value(g) && (reach[f] || reach[top]) {
					bad = fnKey(f) + " at " + e.Pos(st.Pos())
				}
			})
		}
		key := "global " + shortPkg(g.Pkg.Pkg.Path()) + "." + g.Name()
		if bad != "" {
			// writers outside init: allowed only if the writer is not reachable from block execution AND is a constructor-time setter; report conservatively
			r.Bad(key+" › writers", e.Pos(g.Pos()), "package-level variable read during block execution is also assigned by code reachable from block execution: "+bad+" (process-lifetime dependent state)")
		} else {
			r.OK(key+" › writers", e.Pos(g.Pos()), "written only by package initialisation, ForTest_* or set-up code not reachable from block execution")
		}
	}
	r.Count("globals_read_on_reachable_paths", len(gs))
}

var inPlaceMutators = []CallSpec{
	{"sort", "", "Slice"}, {"sort", "", "SliceStable"}, {"sort", "", "Sort"}, {"sort", "", "Stable"}, {"sort", "", "Strings"}, {"sort", "", "Ints"},
	{"slices", "", "Sort"}, {"slices", "", "SortFunc"}, {"slices", "", "SortStableFunc"}, {"slices", "", "Compact"}, {"slices", "", "CompactFunc"}, {"slices", "", "Reverse"},
}

// sliceOwner classifies where a slice value comes from: "fresh" (make, literal, append to nil/fresh, Clone, a call into
// repository code that itself returns a fresh slice is NOT followed), "param", "foreign-call", "global" or "unknown".
func sliceOwner(e *Engine, v ssa.Value, depth int) string {
	return sliceOwner0(e, v, depth, map[ssa.Value]bool{})
}

func sliceOwner0(e *Engine, v ssa.Value, depth int, seen map[ssa.Value]bool) string {
	if depth > 12 {
		return "unknown"
	}
	if seen[v] {
		return "fresh" // cycle (x = append(x, …)): neutral
	}
	seen[v] = true
	v = resolveLocal(v)
	switch x := v.(type) {
	case *ssa.MakeSlice:
		return "fresh"
	case *ssa.Slice:
		if a, ok := x.X.(*ssa.Alloc); ok {
			_ = a
			return "fresh" // slice literal
		}
		return sliceOwner0(e, x.X, depth+1, seen)
	case *ssa.Const:
		return "fresh" // nil
	case *ssa.Parameter:
		return "param " + x.Name()
	case *ssa.Phi:
		worst := "fresh"
		for _, ev := range x.Edges {
			if ev == ssa.Value(x) {
				continue
			}
			if o := sliceOwner0(e, ev, depth+1, seen); o != "fresh" {
				worst = o
			}
		}
		return worst
	case *ssa.UnOp:
		if x.Op == token.MUL {
			if _, ok := x.X.(*ssa.Global); ok {
				return "global " + x.X.Name()
			}
			if fa, ok := x.X.(*ssa.FieldAddr); ok {
				return "field " + fieldName(fa)
			}
			if a, ok := x.X.(*ssa.Alloc); ok {
				// a local variable spilled to memory (captured by a closure): merge over everything stored into it
				worst := "fresh"
				for _, st := range storesTo(a) {
					if o := sliceOwner0(e, st.Val, depth+1, seen); o != "fresh" {
						worst = o
					}
				}
				return worst
			}
			if fv, ok := x.X.(*ssa.FreeVar); ok {
				return "captured " + fv.Name()
			}
		}
	case *ssa.Call:
		if b, ok := x.Call.Value.(*ssa.Builtin); ok && b.Name() == "append" {
			// append(base, …): result may alias base's backing array
			return sliceOwner0(e, x.Call.Args[0], depth+1, seen)
		}
		fo := calleeObj(x)
		if fo != nil && fo.Pkg() != nil {
			if (fo.Pkg().Path() == "slices" && fo.Name() == "Clone") || (fo.Pkg().Path() == "maps" && (fo.Name() == "Keys" || fo.Name() == "Values")) {
				return "fresh"
			}
			if e.RepoOwned(fo.Pkg().Path()) {
				return "repo-call " + fo.Name()
			}
			return "foreign-call " + funcObjKey(fo)
		}
	}
	return "unknown"
}

// paramOwner refines "param" ownership through the call graph: a parameter is fresh if every caller passes a fresh slice.
func paramOwner(e *Engine, ee *EffectEngine, reach map[*ssa.Function]bool, f *ssa.Function, p *ssa.Parameter, depth int) string {
	if ee == nil || depth > 2 {
		return "param " + p.Name()
	}
	n := ee.g.Nodes[f]
	idx := paramIndex(p)
	if n == nil || idx < 0 || len(n.In) == 0 {
		return "param " + p.Name()
	}
	nIn := 0
	for _, in := range n.In {
		if reach != nil && !reach[in.Caller.Func] {
			continue // callers outside block execution (e.g. the fork's own, unused state transition)
		}
		nIn++
		if in.Site == nil {
			return "param " + p.Name()
		}
		cc := in.Site.Common()
		var arg ssa.Value
		if cc.IsInvoke() {
			if idx == 0 {
				return "param " + p.Name()
			}
			if idx-1 >= len(cc.Args) {
				return "param " + p.Name()
			}
			arg = cc.Args[idx-1]
		} else {
			if idx >= len(cc.Args) {
				return "param " + p.Name()
			}
			arg = cc.Args[idx]
		}
		o := sliceOwner(e, arg, 0)
		if pp, isP := resolveLocal(arg).(*ssa.Parameter); isP && strings.HasPrefix(o, "param") {
			o = paramOwner(e, ee, reach, pp.Parent(), pp, depth+1)
		}
		if o != "fresh" {
			return "param " + p.Name() + " (caller " + fnKey(in.Caller.Func) + " passes " + o + ")"
		}
	}
	if nIn == 0 {
		return "param " + p.Name()
	}
	return "fresh"
}

func checkSliceOwnership(e *Engine, r *Report, owned []*ssa.Function, ee *EffectEngine, reach map[*ssa.Function]bool) {
	n := 0
	for _, f := range owned {
		if IsGenerated(e.File(f.Pos())) || f.Blocks == nil {
			continue
		}
		cnt := 0
		for _, c := range callsTo(f, false, inPlaceMutators...) {
			arg := c.Common().Args[0]
			if mi, ok := arg.(*ssa.MakeInterface); ok {
				arg = mi.X
			}
			if _, isSlice := arg.Type().Underlying().(*types.Slice); !isSlice {
				continue
			}
			n++
			cnt++
			key := "in-place " + calleeObj(c).Name() + " › " + fnKey(f)
			if cnt > 1 {
				key += " #" + itoa(cnt)
			}
			o := sliceOwner(e, arg, 0)
			if pp, isP := resolveLocal(arg).(*ssa.Parameter); isP && strings.HasPrefix(o, "param") {
				o = paramOwner(e, ee, reach, f, pp, 0)
			}
			ok := o == "fresh" || strings.HasPrefix(o, "repo-call") || strings.HasPrefix(o, "field ")
			r.Check(ok, key, e.Pos(c.Pos()), "operates on "+o, "a slice that this function does not own ("+o+") is re-ordered/compacted in place: if it aliases a table that lives for the whole process (e.g. go-ethereum's precompile address list via append on spare capacity) every later execution sees the mutated table — results depend on the process history")
		}
	}
	if n == 0 {
		r.OK("in-place mutators", "", "none in reachable repository code")
	}
	// append onto a slice returned by a dependency / read from a dependency's package-level variable: if that slice has
	// spare capacity the elements are written into memory shared by every execution in the process (and by concurrent
	// CheckTx / FinalizeBlock goroutines)
	for _, f := range owned {
		if IsGenerated(e.File(f.Pos())) || f.Blocks == nil {
			continue
		}
		cnt := 0
		for _, c := range callsIn(f, false, func(c ssa.CallInstruction) bool {
			b, ok := c.Common().Value.(*ssa.Builtin)
			return ok && b.Name() == "append" && len(c.Common().Args) == 2
		}) {
			base := c.Common().Args[0]
			o := sliceOwner(e, base, 0)
			if !(strings.HasPrefix(o, "foreign-call") || strings.HasPrefix(o, "global")) {
				continue
			}
			if strings.HasPrefix(o, "global") {
				// the repository's own key-prefix variables are one-element literals (cap == len): append always copies
				if u, ok := resolveLocal(base).(*ssa.UnOp); ok {
					if g, isG := u.X.(*ssa.Global); isG && g.Pkg != nil && e.RepoOwned(g.Pkg.Pkg.Path()) {
						if globalSliceIsTight(g) {
							continue
						}
						cnt++
						key := "append onto package-level slice › " + fnKey(f) + " › " + g.Name()
						r.Check(false, key, e.Pos(c.Pos()), "", "elements are appended onto the package-level slice "+g.Name()+", which is not initialised by a plain composite literal (cap == len): with spare capacity every append writes into the one backing array shared by all goroutines — block execution and concurrently served queries overwrite each other's keys, so results depend on scheduling")
						continue
					}
				}
			}
			// appending nothing is harmless; a variadic spread of an empty literal cannot be told apart: report all
			cnt++
			key := "append onto foreign slice › " + fnKey(f)
			if cnt > 1 {
				key += " #" + itoa(cnt)
			}
			// dependencies that document a fresh result are exempt
			fresh := false
			for _, okFn := range []string{"types.Coins", "types.NewCoins", "types.Events", ".GetMsgs", "strings.", "bytes."} {
				if strings.Contains(o, okFn) {
					fresh = true
				}
			}
			if fresh {
				continue
			}
			r.Check(false, key, e.Pos(c.Pos()), "", "elements are appended onto a slice owned by a dependency ("+o+"): when that slice has spare capacity (e.g. go-ethereum's PrecompiledAddressesBerlin: len 9, cap 16) the write lands in memory shared by all executions of the process, including the concurrent CheckTx and FinalizeBlock goroutines — the values read back can be another execution's")
		}
	}
}

// globalSliceIsTight: the package-level slice variable is initialised (in its package's init) by a composite literal
// `[]T{…}` — SSA: a full slice `arr[:]` of a freshly allocated array — and never assigned elsewhere, so cap == len and append
// always copies.
func globalSliceIsTight(g *ssa.Global) bool {
	n := 0
	ok := true
	for _, mem := range g.Pkg.Members {
		fn, isFn := mem.(*ssa.Function)
		if !isFn {
			continue
		}
		fs := append([]*ssa.Function{fn}, fn.AnonFuncs...)
		for _, f := range fs {
			allInstrs(f, false, func(_ *ssa.Function, _ *ssa.BasicBlock, in ssa.Instruction) {
				st, isSt := in.(*ssa.Store)
				if !isSt || st.Addr != ssa.Value(g) {
					return
				}
				n++
				if f.Name() != "init" {
					ok = false
					return
				}
				sl, isSl := st.Val.(*ssa.Slice)
				if !isSl || sl.Low != nil || sl.High != nil || sl.Max != nil {
					ok = false
					return
				}
				a, isA := sl.X.(*ssa.Alloc)
				if !isA {
					ok = false
					return
				}
				if _, isArr := a.Type().(*types.Pointer).Elem().Underlying().(*types.Array); !isArr {
					ok = false
				}
			})
		}
	}
	return ok && n == 1
}

package main

import (
	"go/token"
	"sort"
	"strings"

	"golang.org/x/tools/go/ssa"
)

func init() { registry["C14"] = checkC14 }

const (
	pkgRpcBackend = EV + "/rpc/backend"
	pkgRpcTypes   = EV + "/rpc/types"
	pkgEverTypes  = EV + "/types"
)

// constKeysIn collects the constant strings passed as argument `argIdx` to calls matching spec in fn (and its literals),
// split into those on every path to a success return ("mandatory") and the rest.
func attrKeysWritten(e *Engine, fn *ssa.Function) (all, mandatory map[string]bool) {
	all, mandatory = map[string]bool{}, map[string]bool{}
	for _, c := range callsTo(fn, true, CallSpec{pkgSdkTypes, "", "NewAttribute"}) {
		k, ok := constString(c.Common().Args[0])
		if !ok {
			continue
		}
		all[k] = true
		if c.Parent() != fn {
			continue
		}
		okAll := true
		for _, ret := range successReturns(fn) {
			if !passesThrough(fn, ret, c) {
				okAll = false
			}
		}
		if okAll {
			mandatory[k] = true
		}
	}
	return
}

// rangeIndexBase: if idx is the index variable of a `for i := range S` loop, return S.
func rangeIndexBase(fn *ssa.Function, idx ssa.Value) ssa.Value {
	idx = resolveLocal(idx)
	// the rangeindex idiom: phi [-1, phi+1]; compared with len(S)
	var phi *ssa.Phi
	switch x := idx.(type) {
	case *ssa.Phi:
		phi = x
	case *ssa.BinOp:
		if p, ok := x.X.(*ssa.Phi); ok && x.Op == token.ADD {
			phi = p
		}
	}
	if phi == nil {
		return nil
	}
	var inc ssa.Value
	for _, ev := range phi.Edges {
		if b, ok := ev.(*ssa.BinOp); ok && b.Op == token.ADD && b.X == ssa.Value(phi) {
			inc = b
		}
	}
	if inc == nil {
		return nil
	}
	for _, i := range ifs(fn) {
		b, ok := i.Cond.(*ssa.BinOp)
		if !ok || b.Op != token.LSS || (b.X != inc && b.X != ssa.Value(phi)) {
			continue
		}
		if c, _ := callOf(b.Y); c != nil {
			if bi, isBi := c.Call.Value.(*ssa.Builtin); isBi && bi.Name() == "len" {
				return c.Call.Args[0]
			}
		}
	}
	return nil
}

func checkC14(e *Engine, r *Report) {
	e.BuildSSA()
	r.NotDecided("field-by-field equality of JSON-RPC views with consensus results over all histories (value property); convergence after a crash beyond the atomic-batch carrier")
	r.NotDecided("CometBFT's own tx index / block store (trusted)")

	r.Rule("R1", "TABLE-AGREE", "event attribute keys: every key the readers (rpc/backend.ParseTxReceiptFromEvent, rpc/types.fillTxAttribute) look up is emitted by the consensus-side writers (x/evm/types.GetSdkEventForReceipt for tx_receipt, ELEmitEventDecorator for ethereum_tx); every key a reader treats as mandatory ('missing event attribute' error) is emitted on every path of the writer; reader and writer agree on the event type constants", 11, func() {
		wr := e.Fn(pkgEvmTypes, "GetSdkEventForReceipt")
		wAll, wMand := attrKeysWritten(e, wr)
		em := e.Fn(pkgEvmLane, "ELEmitEventDecorator.AnteHandle")
		eAll, _ := attrKeysWritten(e, em)
		rd := e.Fn(pkgRpcBackend, "ParseTxReceiptFromEvent")
		n := 0
		for _, c := range callsTo(rd, false, CallSpec{pkgRpcBackend, "", "findAttribute"}) {
			k, ok := constString(c.Common().Args[1])
			if !ok {
				r.Undec("receipt reader key", e.Pos(c.Pos()), "findAttribute called with a non-constant key")
				continue
			}
			n++
			// mandatory: the !found edge returns an error
			mand := false
			cc := c.(*ssa.Call)
			for _, i := range ifs(rd) {
				ex, isEx := i.Cond.(*ssa.Extract)
				if isEx && ex.Tuple == ssa.Value(cc) && ex.Index == 1 {
					if failEdgeReturnsError(rd, Guard{If: i, Survive: 0}, nil) {
						mand = true
					}
				}
			}
			if mand {
				r.Check(wMand[k], "tx_receipt › mandatory key \""+k+"\"", e.Pos(c.Pos()), "emitted on every path of GetSdkEventForReceipt", "ParseTxReceiptFromEvent fails with 'missing event attribute' unless \""+k+"\" is present, but the writer does not emit it on every path: receipts of some transactions cannot be served")
			} else {
				r.Check(wAll[k], "tx_receipt › optional key \""+k+"\"", e.Pos(c.Pos()), "emitted by GetSdkEventForReceipt", "the reader looks up \""+k+"\" which the writer never emits")
			}
		}
		if n < 7 {
			r.Bad("receipt reader keys", e.Pos(rd.Pos()), "fewer than seven attribute look-ups found in ParseTxReceiptFromEvent")
		}
		fa := e.Fn(pkgRpcTypes, "fillTxAttribute")
		typeP, keyP := ssa.Value(fa.Params[1]), ssa.Value(fa.Params[2])
		evEth := constStringVal2(e, pkgEvmTypes, "EventTypeEthereumTx")
		evRc := constStringVal2(e, pkgEvmTypes, "EventTypeTxReceipt")
		// map each key comparison to the event-type branch that dominates it
		typeGuards := map[string][]Guard{}
		for _, i := range ifs(fa) {
			b, ok := i.Cond.(*ssa.BinOp)
			if !ok || b.Op != token.EQL || resolveLocal(b.X) != typeP {
				continue
			}
			if s, isK := constString(b.Y); isK {
				typeGuards[s] = append(typeGuards[s], Guard{If: i, Survive: 0})
			}
		}
		for _, i := range ifs(fa) {
			b, ok := i.Cond.(*ssa.BinOp)
			if !ok || b.Op != token.EQL || resolveLocal(b.X) != keyP {
				continue
			}
			k, isK := constString(b.Y)
			if !isK {
				continue
			}
			switch {
			case mustPass(fa, i, typeGuards[evEth]):
				r.Check(eAll[k], "ethereum_tx › key \""+k+"\"", e.Pos(i.Pos()), "emitted by ELEmitEventDecorator", "fillTxAttribute reads \""+k+"\" from the ethereum_tx event but the ante decorator does not emit it")
			case mustPass(fa, i, typeGuards[evRc]):
				r.Check(wAll[k], "tx_receipt › key \""+k+"\" (indexer)", e.Pos(i.Pos()), "emitted by GetSdkEventForReceipt", "fillTxAttribute reads \""+k+"\" from the tx_receipt event but the writer does not emit it")
			default:
				r.Undec("fillTxAttribute › key \""+k+"\"", e.Pos(i.Pos()), "key comparison outside an event-type branch")
			}
		}
		// event types emitted
		okT := false
		for _, c := range callsTo(wr, false, CallSpec{pkgSdkTypes, "", "NewEvent"}) {
			if s, ok := constString(c.Common().Args[0]); ok && s == evRc {
				okT = true
			}
		}
		okE := false
		for _, c := range callsTo(em, false, CallSpec{pkgSdkTypes, "", "NewEvent"}) {
			if s, ok := constString(c.Common().Args[0]); ok && s == evEth {
				okE = true
			}
		}
		r.Check(okT && okE && len(typeGuards[evEth]) > 0 && len(typeGuards[evRc]) > 0, "event types › tx_receipt / ethereum_tx", e.Pos(wr.Pos()), "writers emit and readers select the same two event types", "the event type a reader selects is not the one the writer emits")
	})

	ib := e.Fn(pkgIndexer, "KVIndexer.IndexBlock")
	r.Rule("R2", "PAIR+WHO-MAY-CALL", "indexer batch discipline: every database mutation of package indexer goes through the batch created in IndexBlock; the batch is written exactly once, after the loop, and its error is returned; saveTxResult stores both index entries or returns an error", 4, func() {
		nb := callsIn(ib, false, func(c ssa.CallInstruction) bool { return isMethodNamed(c, "NewBatch") })
		wr := callsIn(ib, true, func(c ssa.CallInstruction) bool {
			return isMethodNamed(c, "Write") && strings.Contains(c.Common().Value.Type().String(), "Batch")
		})
		ok := len(nb) == 1 && len(wr) == 1
		if ok {
			w := wr[0]
			ok = w.Parent() == ib && sameLocal(w.Common().Value, nb[0].(ssa.Value))
			for _, l := range loopsOf(ib) {
				if l.Body[w.Block()] {
					ok = false
				}
			}
			ok = ok && errorPropagated(ib, w, nil)
			for _, ret := range successReturns(ib) {
				if !passesThrough(ib, ret, w) {
					ok = false
				}
			}
		}
		r.Check(ok, "IndexBlock › one batch, written once after the loop, error returned", e.Pos(ib.Pos()), "batch := db.NewBatch(); …; batch.Write()", "the block's index entries are not committed as one atomic batch (a crash or error leaves a partially indexed block), or a failed write is reported as success")
		// no direct DB mutation in the package
		n := 0
		for _, f := range e.SrcFuncs(func(p string) bool { return p == pkgIndexer }) {
			if IsGenerated(e.File(f.Pos())) {
				continue
			}
			for _, c := range callsIn(f, false, func(c ssa.CallInstruction) bool {
				return c.Common().IsInvoke() && (isMethodNamed(c, "Set") || isMethodNamed(c, "Delete") || isMethodNamed(c, "SetSync") || isMethodNamed(c, "DeleteSync"))
			}) {
				n++
				tn := c.Common().Value.Type().String()
				r.Check(strings.Contains(tn, "Batch"), "db mutation › "+fnKey(f)+" › "+calleeObj(c).Name(), e.Pos(c.Pos()), "on the batch", "the indexer writes to the database directly ("+tn+") instead of through the block's batch: a crash leaves a half-indexed block")
			}
		}
		if n == 0 {
			r.Bad("db mutations", e.Pos(ib.Pos()), "no index write found in package indexer")
		}
		st := e.Fn(pkgIndexer, "saveTxResult")
		sets := callsIn(st, false, func(c ssa.CallInstruction) bool { return isMethodNamed(c, "Set") })
		okS := len(sets) == 2
		if okS {
			for _, ret := range successReturns(st) {
				for _, s := range sets {
					if !passesThrough(st, ret, s) {
						okS = false
					}
				}
			}
			for _, s := range sets {
				if !errorPropagated(st, s, nil) {
					okS = false
				}
			}
		}
		r.Check(okS, "saveTxResult › both index entries or an error", e.Pos(st.Pos()), "hash→result and (height,index)→hash stored together", "a transaction can be indexed by hash but not by block/index (or vice versa) without an error")
	})

	r.Rule("R3", "EFFECT", "IndexBlock is a function of its arguments: it reads no database key and no clock, so re-indexing a block (after a crash, or when replaying) produces the same entries", 2, func() {
		var reads []string
		for _, f := range append([]*ssa.Function{ib}, ib.AnonFuncs...) {
			for _, c := range callsIn(f, true, func(c ssa.CallInstruction) bool {
				if !c.Common().IsInvoke() {
					return false
				}
				n := calleeObj(c).Name()
				return (n == "Get" || n == "Has" || n == "Iterator" || n == "ReverseIterator") && strings.Contains(c.Common().Value.Type().String(), "DB")
			}) {
				reads = append(reads, e.Pos(c.Pos()))
			}
		}
		r.Check(len(reads) == 0, "IndexBlock › reads no database state", e.Pos(ib.Pos()), "no db.Get/Has/Iterator", "IndexBlock's output depends on what is already in the index ("+strings.Join(reads, ",")+"): re-indexing is not idempotent")
		clk := callsIn(ib, true, func(c ssa.CallInstruction) bool { _, ok := isNondetCall(c); return ok })
		r.Check(len(clk) == 0, "IndexBlock › no clock / randomness", e.Pos(ib.Pos()), "none", "IndexBlock consults the wall clock or randomness")
	})

	r.Rule("R4", "MUST-PASS", "dropped-transaction agreement: the indexer and eth_getTransactionReceipt both consult TxWasDroppedPreAnteHandleDueToBlockGasExcess before touching the embedded Ethereum payload, so they agree on which transactions exist", 2, func() {
		for _, q := range []struct{ pkg, fn string }{{pkgIndexer, "KVIndexer.IndexBlock"}, {pkgRpcBackend, "Backend.GetTransactionReceipt"}} {
			fn := e.Fn(q.pkg, q.fn)
			gDrop := boolCallGuards(fn, false, func(c *ssa.Call) bool {
				return isCallTo(c, CallSpec{pkgEvmTypes, "", "TxWasDroppedPreAnteHandleDueToBlockGasExcess"})
			})
			ok := len(gDrop) > 0
			n := 0
			for _, c := range callsIn(fn, false, func(c ssa.CallInstruction) bool {
				fo := calleeObj(c)
				rn := (*ssa.Function)(nil)
				_ = rn
				if fo == nil || recvNamed(fo) == nil {
					return false
				}
				return recvNamed(fo).Obj().Name() == "MsgEthereumTx" && fo.Name() == "AsTransaction"
			}) {
				n++
				if !mustPass(fn, c, gDrop) {
					ok = false
				}
			}
			// type assertion to *MsgEthereumTx of the transaction being served also after the test
			r.Check(ok, q.fn+" › dropped test before decoding the payload", e.Pos(fn.Pos()), itoa(n)+" payload decodings after the dropped test", "the payload of a transaction that was dropped before the ante handler is decoded / served: indexer and RPC disagree with consensus on which transactions exist")
		}
	})

	r.Rule("R5", "PROVENANCE", "positions: results are paired with transactions by the transaction's position in the block — every index into ResultBlockResults.TxsResults is the TxIndex of an index entry or the loop index over Block.Txs / TxsResults itself (never the position among Ethereum messages)", 6, func() {
		n := 0
		for _, f := range e.SrcFuncs(func(p string) bool { return strings.HasPrefix(p, EV+"/rpc") || p == pkgIndexer }) {
			if IsGenerated(e.File(f.Pos())) {
				continue
			}
			cnt := 0
			allInstrs(f, false, func(_ *ssa.Function, _ *ssa.BasicBlock, i ssa.Instruction) {
				ia, ok := i.(*ssa.IndexAddr)
				if !ok {
					return
				}
				xs := backSlice(ia.X, SliceOpts{})
				if !hasFieldLoad(xs, "ResultBlockResults", "TxsResults") {
					return
				}
				n++
				cnt++
				key := "TxsResults index › " + fnKey(f)
				if cnt > 1 {
					key += " #" + itoa(cnt)
				}
				idx := ia.Index
				is := sliceFrom(idx)
				okIdx := hasFieldLoad(is, "TxResult", "TxIndex") || hasFieldLoad(is, "ParsedTx", "TxIndex")
				why := "derives from an index entry's TxIndex"
				if !okIdx {
					if base := rangeIndexBase(f, idx); base != nil {
						bs := backSlice(base, SliceOpts{})
						if hasFieldLoad(bs, "", "Txs") || hasFieldLoad(bs, "ResultBlockResults", "TxsResults") {
							okIdx, why = true, "loop index over Block.Txs / TxsResults"
						} else {
							why = "loop index over " + describeValue(base) + ", which is not the block's transaction list"
						}
					} else if k, isK := constInt(idx); isK {
						okIdx, why = true, "constant "+itoa(int(k))
					} else {
						// parameter / other: accept when the function documents it as a block position (e.g. helper taking txIndex)
						if p, isP := resolveLocal(idx).(*ssa.Parameter); isP {
							okIdx, why = true, "parameter "+p.Name()+" (callers decided)"
						} else {
							why = "index of unknown origin (" + is.Describe() + ")"
						}
					}
				}
				r.Check(okIdx, key, e.Pos(ia.Pos()), why, "a transaction is paired with the result at a different block position ("+why+"): receipts / cumulative gas of other transactions are reported")
			})
		}
		_ = n
	})

	r.Rule("R6", "FIELD-WRITERS", "index entry wiring: TxResult.Height ← block.Header.Height, TxIndex ← the loop index over block.Txs, EthTxIndex ← the Ethereum counter, which is incremented exactly once per indexed Ethereum transaction; the hash key is the hash of the embedded transaction", 4, func() {
		var lit map[string]ssa.Value
		allInstrs(ib, false, func(_ *ssa.Function, _ *ssa.BasicBlock, i ssa.Instruction) {
			if a, ok := i.(*ssa.Alloc); ok && namedTypePath(a.Type()) == pkgEverTypes+".TxResult" {
				if m := literalFields(a); len(m) > 0 {
					lit = m
				}
			}
		})
		if lit == nil {
			r.Bad("IndexBlock › TxResult literal", e.Pos(ib.Pos()), "no TxResult literal found")
			return
		}
		blockP := ssa.Value(ib.Params[1])
		hs := sliceFrom(lit["Height"])
		r.Check(lit["Height"] != nil && hs.HasValue(blockP) && hasFieldLoad(hs, "", "Height"), "IndexBlock › Height", e.Pos(ib.Pos()), "block.Header.Height", "the index entry's height is not the block's height")
		base := rangeIndexBase(ib, lit["TxIndex"])
		okTI := base != nil && hasFieldLoad(backSlice(base, SliceOpts{}), "", "Txs")
		if !okTI && lit["TxIndex"] != nil {
			// through a conversion
			if cv, ok := resolveLocal(lit["TxIndex"]).(*ssa.Convert); ok {
				base = rangeIndexBase(ib, cv.X)
				okTI = base != nil && hasFieldLoad(backSlice(base, SliceOpts{}), "", "Txs")
			}
		}
		r.Check(okTI, "IndexBlock › TxIndex", e.Pos(ib.Pos()), "loop index over block.Txs", "the index entry's TxIndex is not the transaction's position in the block")
		// EthTxIndex: a counter phi at the loop header, +1 once per iteration that reaches the save
		ev := resolveLocal(lit["EthTxIndex"])
		phi, isPhi := ev.(*ssa.Phi)
		okE := isPhi
		if okE {
			incs := 0
			for _, edge := range phi.Edges {
				if b, ok := edge.(*ssa.BinOp); ok && b.Op == token.ADD {
					if k, isK := constInt(b.Y); isK && k == 1 && (b.X == ssa.Value(phi)) {
						incs++
					}
				}
			}
			okE = incs >= 1 && rangeIndexBase(ib, ev) == nil
		}
		r.Check(okE, "IndexBlock › EthTxIndex", e.Pos(ib.Pos()), "separate counter, +1 per indexed Ethereum transaction", "the Ethereum transaction index of the entry is not the running count of indexed Ethereum transactions (e.g. the block position is used)")
		okH := false
		for _, f := range ib.AnonFuncs {
			for _, c := range callsTo(f, true, CallSpec{pkgIndexer, "", "saveTxResult"}) {
				hsl := sliceFrom(c.Common().Args[2])
				okH = hsl.Has(func(v ssa.Value) bool {
					cc, ok := v.(*ssa.Call)
					return ok && isCallTo(cc, CallSpec{pkgGethTypes, "Transaction", "Hash"})
				}) && hsl.Has(func(v ssa.Value) bool {
					cc, ok := v.(*ssa.Call)
					return ok && isMethodNamed(cc, "AsTransaction")
				})
			}
			for _, ff := range f.AnonFuncs {
				for _, c := range callsTo(ff, true, CallSpec{pkgIndexer, "", "saveTxResult"}) {
					hsl := sliceFrom(c.Common().Args[2])
					if hsl.Has(func(v ssa.Value) bool { cc, ok := v.(*ssa.Call); return ok && isMethodNamed(cc, "AsTransaction") }) {
						okH = true
					}
				}
			}
		}
		r.Check(okH, "IndexBlock › hash key", e.Pos(ib.Pos()), "ethMsg.AsTransaction().Hash()", "the index key is not the hash of the embedded Ethereum transaction")
	})
	_ = sort.Strings
}

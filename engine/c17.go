package main

import (
	"encoding/hex"
	"encoding/json"
	"go/ast"
	"go/constant"
	"go/token"
	"go/types"
	"os"
	"path/filepath"
	"sort"
	"strings"

	"golang.org/x/tools/go/ssa"
)

func init() { registry["C17"] = checkC17 }

type abiArg struct {
	Type       string   `json:"type"`
	Name       string   `json:"name"`
	Components []abiArg `json:"components"`
}

type abiEntry struct {
	Type   string   `json:"type"`
	Name   string   `json:"name"`
	Inputs []abiArg `json:"inputs"`
}

func abiCanon(a abiArg) string {
	if strings.HasPrefix(a.Type, "tuple") {
		var parts []string
		for _, c := range a.Components {
			parts = append(parts, abiCanon(c))
		}
		return "(" + strings.Join(parts, ",") + ")" + strings.TrimPrefix(a.Type, "tuple")
	}
	return a.Type
}

func (f abiEntry) Sig() string {
	var parts []string
	for _, a := range f.Inputs {
		parts = append(parts, abiCanon(a))
	}
	return f.Name + "(" + strings.Join(parts, ",") + ")"
}

// embeddedABIs maps each exported CustomPrecompiledContractInfo global of x/cpc/abi to its parsed ABI: the global is
// filled in init by json.Unmarshal(<embedded bytes var>, &<Info>), and the bytes var carries a //go:embed directive.
func embeddedABIs(e *Engine) map[string]map[string]abiEntry {
	p := e.Pkg(pkgCpcAbi)
	embedFile := map[string]string{} // var name → file
	for _, f := range p.Syntax {
		for _, d := range f.Decls {
			gd, ok := d.(*ast.GenDecl)
			if !ok || gd.Tok != token.VAR {
				continue
			}
			for _, sp := range gd.Specs {
				vs := sp.(*ast.ValueSpec)
				doc := vs.Doc
				if doc == nil {
					doc = gd.Doc
				}
				if doc == nil {
					continue
				}
				for _, c := range doc.List {
					if strings.HasPrefix(c.Text, "//go:embed ") && len(vs.Names) == 1 {
						embedFile[vs.Names[0].Name] = strings.TrimSpace(strings.TrimPrefix(c.Text, "//go:embed "))
					}
				}
			}
		}
	}
	out := map[string]map[string]abiEntry{}
	dir := ""
	if len(p.GoFiles) > 0 {
		dir = filepath.Dir(p.GoFiles[0])
	}
	for _, sp := range e.Prog.AllPackages() {
		if sp.Pkg.Path() != pkgCpcAbi {
			continue
		}
		for name, m := range sp.Members {
			fn, ok := m.(*ssa.Function)
			if !ok || !strings.HasPrefix(name, "init") {
				continue
			}
			for _, c := range callsTo(fn, false, CallSpec{"encoding/json", "", "Unmarshal"}) {
				a := c.Common().Args
				var src, dst *ssa.Global
				if u, ok := a[0].(*ssa.UnOp); ok {
					src, _ = u.X.(*ssa.Global)
				}
				if mi, ok := a[1].(*ssa.MakeInterface); ok {
					dst, _ = mi.X.(*ssa.Global)
				}
				if src == nil || dst == nil || embedFile[src.Name()] == "" {
					continue
				}
				bz, err := os.ReadFile(filepath.Join(dir, embedFile[src.Name()]))
				if err != nil {
					undecidedf("cannot read embedded ABI %s: %v", embedFile[src.Name()], err)
				}
				var entries []abiEntry
				if err := json.Unmarshal(bz, &entries); err != nil {
					undecidedf("cannot parse embedded ABI %s: %v", embedFile[src.Name()], err)
				}
				fm := map[string]abiEntry{}
				for _, en := range entries {
					if en.Type == "function" {
						fm[en.Name] = en
					}
				}
				out[dst.Name()] = fm
			}
		}
	}
	return out
}

// constByteSlice: fn returns one []byte literal of constants.
func constByteSlice(fn *ssa.Function) ([]byte, bool) {
	rets := returnsOf(fn)
	if len(rets) != 1 || len(rets[0].Results) != 1 {
		return nil, false
	}
	sl, ok := rets[0].Results[0].(*ssa.Slice)
	if !ok {
		return nil, false
	}
	al, ok := sl.X.(*ssa.Alloc)
	if !ok || al.Referrers() == nil {
		return nil, false
	}
	at, ok := al.Type().Underlying().(*types.Pointer).Elem().Underlying().(*types.Array)
	if !ok {
		return nil, false
	}
	out := make([]byte, at.Len())
	seen := 0
	for _, rr := range *al.Referrers() {
		ia, ok := rr.(*ssa.IndexAddr)
		if !ok {
			continue
		}
		k, ok := constInt(ia.Index)
		if !ok {
			return nil, false
		}
		for _, st := range storesTo(ia) {
			v, ok := constInt(st.Val)
			if !ok {
				return nil, false
			}
			out[k] = byte(v)
			seen++
		}
	}
	return out, seen == int(at.Len())
}

var abiGoTypes = map[string]string{
	"address": GETH + "/common.Address", "uint256": "*math/big.Int", "uint8": "uint8", "bytes32": "[32]byte", "string": "string", "bool": "bool",
	"uint64": "uint64", "uint32": "uint32", "int64": "int64", "bytes": "[]byte", "uint16": "uint16",
}

func checkC17(e *Engine, r *Report) {
	e.BuildSSA()
	r.NotDecided("behaviour of the fork's dispatcher beyond what C12-R4 decides; gas amounts")
	r.NotDecided("that accounts/abi decodes according to the JSON ABI (trusted)")
	if !keccakSelfTest() {
		undecidedf("CHECKER-BROKEN: Keccak-256 self test failed")
	}
	ms := func(n string) *ssa.Function { return e.Fn(pkgCpcKeeper, "msgServer."+n) }
	specValidateDeployer := CallSpec{pkgCpcKeeper, "", "validateDeployer"}
	isDeploy := func(c ssa.CallInstruction) bool {
		fo := calleeObj(c)
		return fo != nil && fo.Pkg() != nil && fo.Pkg().Path() == pkgCpcKeeper && strings.HasPrefix(fo.Name(), "Deploy") && strings.HasSuffix(fo.Name(), "CustomPrecompiledContract")
	}

	r.Rule("R1", "MUST-PASS+WHO-MAY-CALL", "deploy handlers reach Deploy*CustomPrecompiledContract only after validateDeployer(req.Authority, GetParams(ctx)) returned nil; validateDeployer returns nil only for an authority equal to a whitelisted deployer; Deploy* is called only by the message server and genesis; UpdateParams writes only after the authority comparison", 7, func() {
		for _, h := range []string{"DeployErc20Contract", "DeployStakingContract"} {
			fn := ms(h)
			reqP := ssa.Value(fn.Params[2])
			ds := callsIn(fn, false, isDeploy)
			if len(ds) != 1 {
				r.Bad("deploy handler › "+h, e.Pos(fn.Pos()), "the handler does not contain exactly one Deploy* call")
				continue
			}
			var gs []Guard
			for _, g := range errNilGuards(fn, func(c *ssa.Call) bool {
				if !isCallTo(c, specValidateDeployer) {
					return false
				}
				a0 := sliceFrom(c.Call.Args[0])
				a1 := sliceFrom(c.Call.Args[1])
				return hasFieldLoad(a0, "", "Authority") && a0.HasValue(reqP) && a1.HasCall(CallSpec{pkgCpcKeeper, "Keeper", "GetParams"})
			}) {
				if failEdgeReturnsError(fn, g, func(i ssa.Instruction) bool { return i == ds[0].(ssa.Instruction) }) {
					gs = append(gs, g)
				}
			}
			r.Check(mustPass(fn, ds[0], gs), "x/cpc/keeper.msgServer."+h+" › whitelist check before deployment", e.Pos(ds[0].Pos()), "validateDeployer(req.Authority, params) == nil dominates the deployment", "a precompile can be deployed by an account that is not a whitelisted deployer")
		}
		vd := e.Fn(pkgCpcKeeper, "validateDeployer")
		authP := ssa.Value(vd.Params[0])
		gEq := eqGuards(vd, true, func(v ssa.Value) bool { return resolveLocal(v) == authP }, func(v ssa.Value) bool {
			return hasFieldLoad(sliceFrom(v), "Params", "WhitelistedDeployers")
		})
		// the equality may be spelled slices.Contains(whitelist, authority)
		gEq = append(gEq, boolCallGuards(vd, true, func(c *ssa.Call) bool {
			fo := calleeObj(c)
			if fo == nil || fo.Pkg() == nil || fo.Pkg().Path() != "slices" || fo.Name() != "Contains" || len(c.Call.Args) != 2 {
				return false
			}
			return hasFieldLoad(sliceFrom(c.Call.Args[0]), "Params", "WhitelistedDeployers") && resolveLocal(c.Call.Args[1]) == authP
		})...)
		ok := len(gEq) > 0
		n := 0
		for _, ret := range returnsOf(vd) {
			if isNilConst(ret.Results[0]) {
				n++
				if !mustPass(vd, ret, gEq) {
					ok = false
				}
			} else if !provablyNonNilErr(ret.Results[0], ret.Block(), map[ssa.Value]bool{}) {
				ok = false
			}
		}
		r.Check(ok && n > 0, "validateDeployer › nil only for a whitelisted authority", e.Pos(vd.Pos()), "return nil only under whitelisted == authority", "validateDeployer can accept an authority that is not in the whitelist")
		for _, cs := range e.repoCallSites(isDeploy) {
			top := topFn(cs.Fn)
			okC := top == ms("DeployErc20Contract") || top == ms("DeployStakingContract") || strings.HasSuffix(top.Name(), "InitGenesis")
			r.Check(okC, "who deploys › "+fnKey(cs.Fn)+" → "+calleeObj(cs.Call).Name(), e.Pos(cs.Call.Pos()), "message server / InitGenesis", "a precompile is deployed from code that does not run the whitelist check")
		}
		up := ms("UpdateParams")
		sp := callsTo(up, false, CallSpec{pkgCpcKeeper, "Keeper", "SetParams"})
		okU := len(sp) == 1
		if okU {
			var gs []Guard
			for _, i := range ifs(up) {
				b, isB := i.Cond.(*ssa.BinOp)
				if !isB || (b.Op != token.EQL && b.Op != token.NEQ) {
					continue
				}
				x, y := sliceFrom(b.X), sliceFrom(b.Y)
				isAuth := func(s *Slice) bool { return hasFieldLoad(s, "", "authority") }
				isReq := func(s *Slice) bool { return hasFieldLoad(s, "MsgUpdateParams", "Authority") }
				if (isAuth(x) && isReq(y)) || (isAuth(y) && isReq(x)) {
					s := 0
					if b.Op == token.NEQ {
						s = 1
					}
					gs = append(gs, Guard{If: i, Survive: s})
				}
			}
			okU = mustPass(up, sp[0], gs)
		}
		r.Check(okU, "msgServer.UpdateParams › authority", e.Pos(up.Pos()), "SetParams only when req.Authority == module authority", "module parameters (whitelist, protocol version) can be changed by a non-authority")
	})

	r.Rule("R2", "MUST-PASS+PAIR", "SetCustomPrecompiledContractMeta writes only after Validate; a new deployment errors if the address is in use; an update requires an existing record of the same type; ERC-20 deployment rejects an already-indexed denomination and non-positive supply before allocating an address, and pairs the metadata write with the denom→address index write", 7, func() {
		set := e.Fn(pkgCpcKeeper, "Keeper.SetCustomPrecompiledContractMeta")
		metaP, newP := ssa.Value(set.Params[2]), ssa.Value(set.Params[3])
		_ = metaP
		writes := callsIn(set, false, func(c ssa.CallInstruction) bool { return isMethodNamed(c, "Set") && c.Common().IsInvoke() })
		if len(writes) != 1 {
			r.Bad("SetCustomPrecompiledContractMeta › one store write", e.Pos(set.Pos()), "not exactly one store.Set")
			return
		}
		w := writes[0]
		var gVal []Guard
		for _, g := range errNilGuards(set, func(c *ssa.Call) bool { return isMethodNamed(c, "Validate") }) {
			if failEdgeReturnsError(set, g, func(i ssa.Instruction) bool { return i == w.(ssa.Instruction) }) {
				gVal = append(gVal, g)
			}
		}
		r.Check(mustPass(set, w, gVal), "SetCustomPrecompiledContractMeta › validated before write", e.Pos(w.Pos()), "Validate(protocolVersion) == nil dominates the write", "unvalidated contract metadata is stored")
		// new deployment: Has(address) → error
		var gNew []Guard
		for _, i := range ifs(set) {
			if resolveLocal(i.Cond) == newP {
				gNew = append(gNew, Guard{If: i, Survive: 1}) // survive = not a new deployment
			}
		}
		gHas := boolCallGuards(set, false, func(c *ssa.Call) bool {
			return isCallTo(c, CallSpec{pkgCpcKeeper, "Keeper", "HasCustomPrecompiledContract"})
		})
		var gHasC []Guard
		for _, g := range gHas {
			if failEdgeReturnsError(set, g, func(i ssa.Instruction) bool { return i == w.(ssa.Instruction) }) {
				gHasC = append(gHasC, g)
			}
		}
		r.Check(len(gNew) > 0 && len(gHasC) > 0 && mustPass(set, w, append(append([]Guard{}, gNew...), gHasC...)), "SetCustomPrecompiledContractMeta › address unique on deployment", e.Pos(w.Pos()), "newDeployment ⇒ !Has(address) else error", "a new deployment can overwrite an existing contract at the same address")
		// update path: previous record non-nil and same type
		okUpd := false
		for _, i := range ifs(set) {
			b, isB := i.Cond.(*ssa.BinOp)
			if !isB || b.Op != token.NEQ && b.Op != token.EQL {
				continue
			}
			x, y := sliceFrom(b.X), sliceFrom(b.Y)
			if hasFieldLoad(x, "CustomPrecompiledContractMeta", "CustomPrecompiledType") && hasFieldLoad(y, "CustomPrecompiledContractMeta", "CustomPrecompiledType") {
				fail := 0
				if b.Op == token.EQL {
					fail = 1
				}
				if endsInPanicRegion(i.Block().Succs[fail]) {
					okUpd = true
				}
			}
		}
		r.Check(okUpd, "SetCustomPrecompiledContractMeta › type cannot change", e.Pos(set.Pos()), "type change panics", "an update can change the type of an existing precompile")
		// ERC-20 deploy
		de := e.Fn(pkgCpcKeeper, "Keeper.DeployErc20CustomPrecompiledContract")
		next := callsTo(de, false, CallSpec{pkgCpcKeeper, "Keeper", "GetNextDynamicCustomPrecompiledContractAddress"})
		setm := callsTo(de, false, CallSpec{pkgCpcKeeper, "Keeper", "SetCustomPrecompiledContractMeta"})
		idx := callsIn(de, false, func(c ssa.CallInstruction) bool { return isMethodNamed(c, "Set") && c.Common().IsInvoke() })
		if len(next) != 1 || len(setm) != 1 || len(idx) != 1 {
			r.Bad("DeployErc20 › shape", e.Pos(de.Pos()), "expected one address allocation, one metadata write and one index write")
			return
		}
		// denom index check
		var gIdx, gSup []Guard
		for _, i := range ifs(de) {
			b, isB := i.Cond.(*ssa.BinOp)
			if !isB {
				continue
			}
			if c, _ := callOf(b.X); c != nil {
				if bi, isBi := c.Call.Value.(*ssa.Builtin); isBi && bi.Name() == "len" {
					if g, _ := callOf(c.Call.Args[0]); g != nil && isMethodNamed(g, "Get") && sliceFrom(g.Call.Args[0]).HasCall(CallSpec{pkgCpcTypes, "", "Erc20CustomPrecompiledContractMinDenomToAddressKey"}) {
						gd := Guard{If: i, Survive: 1}
						if b.Op == token.EQL {
							gd.Survive = 0
						}
						if failEdgeReturnsError(de, gd, nil) {
							gIdx = append(gIdx, gd)
						}
					}
				}
			}
		}
		for _, g := range boolCallGuards(de, true, func(c *ssa.Call) bool {
			return isMethodNamed(c, "IsPositive") && sliceFrom(c.Call.Args[0]).Has(func(v ssa.Value) bool { cc, ok := v.(*ssa.Call); return ok && isMethodNamed(cc, "GetSupply") })
		}) {
			if failEdgeReturnsError(de, g, nil) {
				gSup = append(gSup, g)
			}
		}
		r.Check(mustPass(de, next[0], gIdx), "DeployErc20 › one contract per denomination", e.Pos(next[0].Pos()), "existing denom index ⇒ error before address allocation", "a second ERC-20 precompile can be deployed for a denomination that already has one")
		r.Check(mustPass(de, next[0], gSup), "DeployErc20 › positive supply required", e.Pos(next[0].Pos()), "supply > 0 else error", "an ERC-20 precompile can be deployed for a denomination without supply")
		// key of check == key of index write; value = new address; write after successful meta write
		var gMeta []Guard
		for _, g := range errNilGuards(de, func(c *ssa.Call) bool { return ssa.CallInstruction(c) == setm[0] }) {
			if failEdgeReturnsError(de, g, func(i ssa.Instruction) bool { return i == idx[0].(ssa.Instruction) }) {
				gMeta = append(gMeta, g)
			}
		}
		okPair := mustPass(de, idx[0], gMeta) && sliceFrom(idx[0].Common().Args[1]).HasValue(next[0].(ssa.Value)) &&
			sliceFrom(idx[0].Common().Args[0]).HasCall(CallSpec{pkgCpcTypes, "", "Erc20CustomPrecompiledContractMinDenomToAddressKey"})
		for _, ret := range successReturns(de) {
			if !passesThrough(de, ret, idx[0]) || !passesThrough(de, ret, setm[0]) {
				okPair = false
			}
		}
		r.Check(okPair, "DeployErc20 › metadata and denom index written together", e.Pos(idx[0].Pos()), "meta write ok → index[denom] = new address on every success path", "a deployment can succeed without (or with a wrong) denom→address index entry: the uniqueness check of the next deployment misses it")
		ms2 := sliceFrom(argOf(setm[0], 1))
		b, isK := constBool(argOf(setm[0], 2))
		r.Check(ms2.HasValue(next[0].(ssa.Value)) && isK && b, "DeployErc20 › metadata carries the allocated address, as new deployment", e.Pos(setm[0].Pos()), "Address = next dynamic address; newDeployment = true", "the metadata is not written for the freshly allocated address as a new deployment")
	})

	r.Rule("R3", "MUST-PASS", "SetParams stores only if the stored protocol version is not greater than the new one (no downgrade)", 1, func() {
		sp := e.Fn(pkgCpcKeeper, "Keeper.SetParams")
		ws := callsIn(sp, false, func(c ssa.CallInstruction) bool { return isMethodNamed(c, "Set") && c.Common().IsInvoke() })
		if len(ws) != 1 {
			r.Bad("SetParams › one write", e.Pos(sp.Pos()), "not exactly one store.Set")
			return
		}
		var gs []Guard
		for _, i := range ifs(sp) {
			b, isB := i.Cond.(*ssa.BinOp)
			if !isB {
				continue
			}
			if fx, fy := fieldVarOfLoad(resolveLocal(b.X)), fieldVarOfLoad(resolveLocal(b.Y)); fx == nil || fy == nil || fx.Name() != "ProtocolVersion" || fy.Name() != "ProtocolVersion" {
				continue // operands must be the two version fields themselves, not expressions over them
			}
			x, y := sliceFrom(b.X), sliceFrom(b.Y)
			isOld := func(s *Slice) bool {
				return hasFieldLoad(s, "Params", "ProtocolVersion") && s.HasCall(CallSpec{pkgCpcKeeper, "Keeper", "GetParams"})
			}
			isNew := func(s *Slice) bool {
				return hasFieldLoad(s, "Params", "ProtocolVersion") && s.HasValue(sp.Params[2]) && !s.HasCall(CallSpec{pkgCpcKeeper, "Keeper", "GetParams"})
			}
			var g Guard
			switch {
			case isOld(x) && isNew(y) && b.Op == token.GTR, isNew(x) && isOld(y) && b.Op == token.LSS:
				g = Guard{If: i, Survive: 1}
			case isOld(x) && isNew(y) && b.Op == token.LEQ, isNew(x) && isOld(y) && b.Op == token.GEQ:
				g = Guard{If: i, Survive: 0}
			default:
				continue
			}
			if failEdgeReturnsError(sp, g, func(in ssa.Instruction) bool { return in == ws[0].(ssa.Instruction) }) {
				gs = append(gs, g)
			}
		}
		r.Check(mustPass(sp, ws[0], gs), "x/cpc/keeper.Keeper.SetParams › no protocol downgrade", e.Pos(ws[0].Pos()), "existing > new ⇒ error before the write", "the protocol version of the precompiles can be downgraded")
	})

	r.Rule("R4", "WHO-MAY-CALL+SHAPE", "corevm.NewEVM is constructed only in Keeper.NewEVM, which wires every contract returned by cpcKeeper.GetAllCustomPrecompiledContracts(ctx) (no filtering) and returns the EVM that carries them; the enumeration iterates the whole metadata prefix (no page limit) and wraps every record; Disabled is never stored true (else NewEVM would have to honour it)", 6, func() {
		ne := e.Fn(pkgEvmKeeper, "Keeper.NewEVM")
		n := 0
		for _, cs := range e.repoCallSites(func(c ssa.CallInstruction) bool { return isCallTo(c, CallSpec{pkgGethVM, "", "NewEVM"}) }) {
			n++
			r.Check(topFn(cs.Fn) == ne, "who builds EVMs › "+fnKey(cs.Fn), e.Pos(cs.Call.Pos()), "only Keeper.NewEVM", "an EVM is constructed outside Keeper.NewEVM: it runs without the registered custom precompiles")
		}
		if n == 0 {
			r.Bad("who builds EVMs", e.Pos(ne.Pos()), "no corevm.NewEVM call found")
		}
		neReg := e.privateRegion(ne)
		inReg := func(f *ssa.Function) bool { return neReg.in[f] }
		with := neReg.Calls(func(c ssa.CallInstruction) bool { return isMethodNamed(c, "WithCustomPrecompiledContracts") })
		all := neReg.Calls(func(c ssa.CallInstruction) bool { return isMethodNamed(c, "GetAllCustomPrecompiledContracts") })
		if len(with) != 1 || len(all) != 1 {
			r.Bad("NewEVM › wiring", e.Pos(ne.Pos()), "NewEVM does not call GetAllCustomPrecompiledContracts and WithCustomPrecompiledContracts exactly once")
			return
		}
		okRet := true
		for _, ret := range returnsOf(ne) {
			if !backSlice(ret.Results[0], SliceOpts{ThroughCallArgs: alwaysThrough, IntoCallees: inReg, Depth: 3}).HasValue(with[0].(ssa.Value)) {
				okRet = false
			}
		}
		r.Check(okRet, "NewEVM › returns the EVM with the contracts", e.Pos(with[0].Pos()), "return evm.WithCustomPrecompiledContracts(contracts...)", "the EVM returned is not the one the custom precompiles were attached to")
		// no filtering in the range loop over the contracts
		okLoop := noFilterLoop(all[0].Parent(), all[0].(ssa.Value), func(c ssa.CallInstruction) bool {
			return isCallTo(c, CallSpec{pkgGethVM, "", "NewCustomPrecompiledContract"})
		}) && backSlice(with[0].Common().Args[len(with[0].Common().Args)-1], SliceOpts{ThroughCallArgs: alwaysThrough, IntoCallees: inReg, Depth: 3}).HasCall(CallSpec{pkgGethVM, "", "NewCustomPrecompiledContract"})
		// the helper that builds the list (if any) runs on every path to the wiring call
		if okLoop && all[0].Parent() != with[0].Parent() {
			okLoop = neReg.Supergraph().PassesOr(with[0], all[0], nil)
		}
		r.Check(okLoop, "x/evm/keeper.Keeper.NewEVM › every registered contract is wired", e.Pos(ne.Pos()), "each element of GetAllCustomPrecompiledContracts → NewCustomPrecompiledContract → appended", "the wiring loop can skip a registered contract (filter/continue/break): it stays registered but is not callable")
		ga := e.Fn(pkgCpcKeeper, "Keeper.GetAllCustomPrecompiledContracts")
		gm := callsTo(ga, false, CallSpec{pkgCpcKeeper, "Keeper", "GetAllCustomPrecompiledContractsMeta"})
		okGA := len(gm) == 1 && noFilterLoop(ga, gm[0].(ssa.Value), func(c ssa.CallInstruction) bool {
			return isCallTo(c, CallSpec{pkgCpcKeeper, "", "NewCustomPrecompiledContract"})
		})
		if okGA {
			for _, ret := range returnsOf(ga) {
				if !sliceFrom(ret.Results[0]).HasCall(CallSpec{pkgCpcKeeper, "", "NewCustomPrecompiledContract"}) {
					okGA = false
				}
			}
		}
		r.Check(okGA, "x/cpc/keeper.Keeper.GetAllCustomPrecompiledContracts › wraps every metadata record", e.Pos(ga.Pos()), "each meta → NewCustomPrecompiledContract → appended", "a stored contract record can be dropped between the store and the EVM")
		// whole-prefix iteration
		gmf := e.Fn(pkgCpcKeeper, "Keeper.GetAllCustomPrecompiledContractsMeta")
		reach := map[*ssa.Function]bool{gmf: true}
		work := []*ssa.Function{gmf}
		var paged []string
		hasIter := false
		for len(work) > 0 {
			f := work[len(work)-1]
			work = work[:len(work)-1]
			for _, a := range f.AnonFuncs {
				if !reach[a] {
					reach[a] = true
					work = append(work, a)
				}
			}
			for _, c := range callsIn(f, false, func(ssa.CallInstruction) bool { return true }) {
				fo := calleeObj(c)
				if fo != nil && fo.Pkg() != nil && strings.HasPrefix(fo.Pkg().Path(), SDK+"/types/query") {
					paged = append(paged, funcObjKey(fo))
				}
				if fo != nil && (fo.Name() == "KVStorePrefixIterator" || fo.Name() == "Iterator") {
					ks := sliceFrom(c.Common().Args[len(c.Common().Args)-1])
					if fo.Name() == "Iterator" {
						ks = sliceFrom(c.Common().Args[0])
					}
					if ks.Has(func(v ssa.Value) bool {
						g, ok := v.(*ssa.Global)
						return ok && g.Name() == "KeyPrefixCustomPrecompiledContractMeta"
					}) {
						hasIter = true
					}
				}
				if sc := c.Common().StaticCallee(); sc != nil && sc.Blocks != nil && pkgPathOf(sc) == pkgCpcKeeper && !reach[sc] {
					reach[sc] = true
					work = append(work, sc)
				}
			}
		}
		okAll := hasIter && len(paged) == 0
		if okAll {
			// the iteration loop leaves only through Valid() == false
			for _, l := range loopsOf(gmf) {
				for b := range l.Body {
					for _, s := range b.Succs {
						if l.Body[s] {
							continue
						}
						i, isIf := lastIf(b)
						c, _ := callOf(condOf(i, isIf))
						if !isIf || c == nil || !isMethodNamed(c, "Valid") {
							okAll = false
						}
					}
				}
			}
			if len(loopsOf(gmf)) != 1 {
				okAll = false
			}
		}
		r.Check(okAll, "x/cpc/keeper.Keeper.GetAllCustomPrecompiledContractsMeta › iterates the whole metadata prefix", e.Pos(gmf.Pos()), "prefix iterator until !Valid(), no pagination", "the enumeration that feeds the EVM is bounded (pagination default/limit) or does not iterate the metadata prefix: contracts beyond the bound are registered but not callable ("+strings.Join(paged, ", ")+")")
		// Disabled writers
		okDis := true
		nDis := 0
		for _, f := range e.SrcFuncs(e.RepoOwned) {
			if IsGenerated(e.File(f.Pos())) {
				continue
			}
			allInstrs(f, false, func(_ *ssa.Function, _ *ssa.BasicBlock, i ssa.Instruction) {
				if st, ok := i.(*ssa.Store); ok {
					if fa, ok := st.Addr.(*ssa.FieldAddr); ok && fieldName(fa) == "Disabled" && namedTypeName(fa.X.Type()) == "CustomPrecompiledContractMeta" {
						nDis++
						if b, isK := constBool(st.Val); !isK || b {
							okDis = false
						}
					}
				}
			})
		}
		r.Check(okDis, "Disabled flag › never stored true", e.Pos(ne.Pos()), itoa(nDis)+" writers, all constant false (NewEVM need not filter)", "some code can store Disabled=true although NewEVM wires every record: a disabled contract stays callable")
	})

	abis := embeddedABIs(e)
	r.Rule("R5", "TABLE-AGREE", "for every executor: its 4-byte selector literal = first 4 bytes of Keccak-256 of the canonical signature of the ABI method it unpacks/packs (by name, in the embedded ABI of its contract); every type assertion on ips[i] matches ABI input i; selectors are unique per contract; every ABI function has an executor; every executor type is registered in its contract's executor list", 38, func() {
		execs := executorCensus(e)
		byContract := map[string]map[string]string{}
		usedMethod := map[string]map[string]bool{}
		for _, x := range execs {
			if strings.HasPrefix(x.Name(), "notSupported") {
				continue
			}
			key := "selector › " + x.Name()
			sel, ok := constByteSlice(x.Sig)
			if !ok || len(sel) != 4 {
				r.Undec(key, e.Pos(x.Sig.Pos()), "Method4BytesSignatures does not return a 4-byte constant literal")
				continue
			}
			var info, method string
			okNames := true
			for _, c := range callsIn(x.Execute, false, func(c ssa.CallInstruction) bool {
				return isMethodNamed(c, "UnpackMethodInput") || isMethodNamed(c, "PackMethodOutput")
			}) {
				a := c.Common().Args
				g := ""
				if u, isU := a[0].(*ssa.UnOp); isU {
					if gl, isG := u.X.(*ssa.Global); isG {
						g = gl.Name()
					}
				}
				m, isK := constString(a[1])
				if g == "" || !isK {
					okNames = false
					continue
				}
				if info != "" && (info != g || method != m) {
					okNames = false
				}
				info, method = g, m
			}
			if info == "" || !okNames {
				r.Bad(key, e.Pos(x.Execute.Pos()), "Execute does not unpack/pack exactly one ABI method of one embedded ABI by constant name")
				continue
			}
			fn, found := abis[info][method]
			if !found {
				r.Bad(key, e.Pos(x.Execute.Pos()), "method \""+method+"\" does not exist in the embedded ABI of "+info+": every call of this method panics at run time")
				continue
			}
			h := keccak256([]byte(fn.Sig()))
			if hex.EncodeToString(h[:4]) != hex.EncodeToString(sel) {
				r.Bad(key, e.Pos(x.Sig.Pos()), "selector literal 0x"+hex.EncodeToString(sel)+" ≠ keccak(\""+fn.Sig()+"\")[:4] = 0x"+hex.EncodeToString(h[:4])+": the method is unreachable (or a different signature is dispatched to it)")
			} else {
				r.OK(key, e.Pos(x.Sig.Pos()), "0x"+hex.EncodeToString(sel)+" = keccak("+fn.Sig()+")[:4]")
			}
			contract := x.Name()[:strings.Index(x.Name(), "CustomPrecompiledContract")]
			if byContract[contract] == nil {
				byContract[contract] = map[string]string{}
				usedMethod[info] = map[string]bool{}
			}
			if prev := byContract[contract][hex.EncodeToString(sel)]; prev != "" {
				r.Bad("selector unique › "+x.Name(), e.Pos(x.Sig.Pos()), "selector 0x"+hex.EncodeToString(sel)+" is also used by "+prev+" in the same contract")
			}
			byContract[contract][hex.EncodeToString(sel)] = x.Name()
			if usedMethod[info] == nil {
				usedMethod[info] = map[string]bool{}
			}
			usedMethod[info][method] = true
			// type assertions on ips[i]
			allInstrs(x.Execute, false, func(_ *ssa.Function, _ *ssa.BasicBlock, i ssa.Instruction) {
				ta, isTA := i.(*ssa.TypeAssert)
				if !isTA {
					return
				}
				k, isIps := isIpsElem(ta)
				if !isIps {
					return
				}
				akey := "ips type › " + x.Name() + " #" + itoa(k)
				if k >= len(fn.Inputs) {
					r.Bad(akey, e.Pos(ta.Pos()), "ips["+itoa(k)+"] is read but the ABI method has only "+itoa(len(fn.Inputs))+" inputs (index out of range at run time)")
					return
				}
				want := abiGoTypes[fn.Inputs[k].Type]
				got := ta.AssertedType.String()
				r.Check(want != "" && got == want, akey, e.Pos(ta.Pos()), got+" ↔ "+fn.Inputs[k].Type, "ips["+itoa(k)+"] is asserted as "+got+" but the ABI declares "+fn.Inputs[k].Type+" (type assertion panics for every caller)")
			})
		}
		var infos []string
		for g := range abis {
			infos = append(infos, g)
		}
		sort.Strings(infos)
		for _, g := range infos {
			var names []string
			for m := range abis[g] {
				names = append(names, m)
			}
			sort.Strings(names)
			for _, m := range names {
				r.Check(usedMethod[g][m], "abi coverage › "+g+"."+m, "x/cpc/abi", "has an executor", "the embedded ABI declares "+m+" but no executor implements it")
			}
		}
		// registration of executor types
		regd := map[string]bool{}
		for _, ctor := range []string{"NewErc20CustomPrecompiledContract", "NewStakingCustomPrecompiledContract", "NewBech32CustomPrecompiledContract"} {
			fn := e.Fn(pkgCpcKeeper, ctor)
			allInstrs(fn, false, func(_ *ssa.Function, _ *ssa.BasicBlock, i ssa.Instruction) {
				if mi, ok := i.(*ssa.MakeInterface); ok && namedTypeName(mi.Type()) == "ExtendedCustomPrecompiledContractMethodExecutorI" {
					regd[namedTypeName(mi.X.Type())] = true
				}
			})
		}
		for _, x := range execs {
			if strings.HasPrefix(x.Name(), "notSupported") {
				continue
			}
			r.Check(regd[x.Name()], "registered › "+x.Name(), e.Pos(x.Execute.Pos()), "listed in its contract's executors", "the executor type exists but is not in any contract's executor list: the method is not callable")
		}
	})

	r.Rule("R6", "CENSUS", "every CpcType* constant has an arm in each type switch of CustomPrecompiledContractMeta.Validate and in NewCustomPrecompiledContract's dispatch (a type without constructor arm panics in NewEVM, i.e. in every transaction)", 3, func() {
		var consts []*types.Const
		sc := e.Pkg(pkgCpcTypes).Types.Scope()
		for _, n := range sc.Names() {
			if c, ok := sc.Lookup(n).(*types.Const); ok && strings.HasPrefix(n, "CpcType") {
				consts = append(consts, c)
			}
		}
		count := func(fn *ssa.Function) map[int64]int {
			m := map[int64]int{}
			allInstrs(fn, true, func(_ *ssa.Function, _ *ssa.BasicBlock, i ssa.Instruction) {
				b, ok := i.(*ssa.BinOp)
				if !ok || b.Op != token.EQL {
					return
				}
				if k, isK := constInt(b.Y); isK && hasFieldLoad(sliceFrom(b.X), "CustomPrecompiledContractMeta", "CustomPrecompiledType") {
					m[k]++
				}
			})
			return m
		}
		for _, spec := range []struct{ pkg, fn string }{{pkgCpcTypes, "CustomPrecompiledContractMeta.Validate"}, {pkgCpcKeeper, "NewCustomPrecompiledContract"}} {
			fn := e.Fn(spec.pkg, spec.fn)
			m := count(fn)
			max := 0
			for _, v := range m {
				if v > max {
					max = v
				}
			}
			for _, c := range consts {
				v, _ := constant.Int64Val(c.Val())
				r.Check(max > 0 && m[v] == max, "type arm › "+spec.fn+" › "+c.Name(), e.Pos(fn.Pos()), itoa(m[v])+" arm(s)", "contract type "+c.Name()+" has fewer arms ("+itoa(m[v])+") than its siblings ("+itoa(max)+") in "+spec.fn+": a registered contract of that type fails validation or panics at EVM construction")
			}
		}
	})

	r.Rule("R8", "CONST", "a deployment is a NEW registration: every Deploy…CustomPrecompiledContract hands the constant newDeployment=true to SetCustomPrecompiledContractMeta, whose uniqueness guard (address already in use ⇒ error) then applies — a computed flag turns a repeated deployment into a silent overwrite (metadata replaced, Disabled reset, address no longer unique)", 3, func() {
		set := e.Fn(pkgCpcKeeper, "Keeper.SetCustomPrecompiledContractMeta")
		n := 0
		for _, cs := range e.repoCallSites(func(c ssa.CallInstruction) bool { return c.Common().StaticCallee() == set }) {
			top := topFn(cs.Fn)
			if !strings.HasPrefix(top.Name(), "Deploy") {
				continue
			}
			n++
			a := cs.Call.Common().Args
			b, isK := constBool(a[len(a)-1])
			r.Check(isK && b, "deploy is a new registration › "+fnKey(cs.Fn), e.Pos(cs.Call.Pos()), "SetCustomPrecompiledContractMeta(ctx, meta, true)", "the deployment does not force newDeployment=true: when the address is already registered the setter takes its update path, so a second deployment overwrites the registered contract's metadata instead of being refused")
		}
		if n == 0 {
			r.Bad("deploy is a new registration", "", "no Deploy… function calls SetCustomPrecompiledContractMeta (anchors moved?)")
		}
	})

	r.Rule("R7", "KEY-INJECTIVE", "registry records are keyed injectively: metadata by the contract address, the ERC-20 index by the denomination (unique address per contract, one precompile per denomination)", 2, func() {
		e.checkKeyBuilders(r, pkgCpcTypes, []string{"CustomPrecompiledContractMetaKey", "Erc20CustomPrecompiledContractMinDenomToAddressKey"}, "two contracts (or two denominations) share one registry record: the address is no longer unique / the denomination index no longer matches the metadata")
	})
}

func condOf(i *ssa.If, ok bool) ssa.Value {
	if !ok || i == nil {
		return nil
	}
	return i.Cond
}

// noFilterLoop: fn has a range loop over `coll` in which every iteration that completes (reaches the back edge) has
// executed a call accepted by mustCall — no `continue`/`break` that skips an element — and the loop is left only when
// the range is exhausted (or by panic).
func noFilterLoop(fn *ssa.Function, coll ssa.Value, mustCall func(ssa.CallInstruction) bool) bool {
	for _, l := range loopsOf(fn) {
		// the loop ranges over coll: header compares an index with len(coll)
		ranges := false
		for b := range l.Body {
			for _, in := range b.Instrs {
				if c, ok := in.(*ssa.Call); ok {
					if bi, isBi := c.Call.Value.(*ssa.Builtin); isBi && bi.Name() == "len" && resolveLocal(c.Call.Args[0]) == coll {
						ranges = true
					}
				}
			}
		}
		// rotated loops compute len() before the header
		if !ranges {
			for _, in := range l.Header.Instrs {
				if i, ok := in.(*ssa.If); ok {
					if b, isB := i.Cond.(*ssa.BinOp); isB {
						if c, _ := callOf(b.Y); c != nil {
							if bi, isBi := c.Call.Value.(*ssa.Builtin); isBi && bi.Name() == "len" && resolveLocal(c.Call.Args[0]) == coll {
								ranges = true
							}
						}
					}
				}
			}
		}
		if !ranges {
			continue
		}
		var calls []ssa.CallInstruction
		for b := range l.Body {
			for _, in := range b.Instrs {
				if c, ok := in.(ssa.CallInstruction); ok && mustCall(c) {
					calls = append(calls, c)
				}
			}
		}
		if len(calls) == 0 {
			return false
		}
		// delete the blocks with the calls: can the header reach itself again inside the body?
		del := map[edge]bool{}
		for _, c := range calls {
			for _, p := range c.Block().Preds {
				del[edge{p.Index, c.Block().Index}] = true
			}
		}
		body := l.Body
		seen := map[*ssa.BasicBlock]bool{}
		work := []*ssa.BasicBlock{}
		for _, s := range l.Header.Succs {
			if body[s] && !del[edge{l.Header.Index, s.Index}] {
				work = append(work, s)
			}
		}
		for len(work) > 0 {
			b := work[len(work)-1]
			work = work[:len(work)-1]
			if seen[b] {
				continue
			}
			seen[b] = true
			if b == l.Header {
				return false // an iteration completed without the call
			}
			for _, s := range b.Succs {
				if body[s] && !del[edge{b.Index, s.Index}] {
					work = append(work, s)
				}
			}
		}
		// exits other than from the header must be panics
		for b := range body {
			if b == l.Header {
				continue
			}
			for _, s := range b.Succs {
				if !body[s] && !endsInPanicRegion(s) {
					return false
				}
			}
		}
		return true
	}
	return false
}

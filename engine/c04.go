package main

import (
	"go/token"
	"go/types"
	"sort"
	"strings"

	"golang.org/x/tools/go/ssa"
)

func init() {
	registry["C04"] = checkC04
	needsL4["C04"] = true
}

func moduleNameArg(v ssa.Value) string {
	s, _ := constString(v)
	return s
}

func checkC04(e *Engine, r *Report) {
	e.BuildSSA()
	r.NotDecided("numeric equality of total supply before/after a transaction; fee-collector arithmetic; x/bank's own conservation (trusted)")
	r.Assumption("x/bank MintCoins/BurnCoins/SendCoins* move exactly the coins they are given")

	mint := e.Fn(pkgEvmVM, "cStateDb.mintCoins")
	burn := e.Fn(pkgEvmVM, "cStateDb.burnCoins")
	addBal := e.Fn(pkgEvmVM, "cStateDb.AddBalance")
	subBal := e.Fn(pkgEvmVM, "cStateDb.SubBalance")
	create := e.Fn(pkgEvmVM, "cStateDb.CreateAccount")
	suicide := e.Fn(pkgEvmVM, "cStateDb.Suicide")
	refund := e.Fn(pkgEvmKeeper, "StateTransition.refundGas")

	r.Rule("R1", "WHO-MAY-CALL+PAIR", "the EVM module mints/burns only inside cStateDb.mintCoins (MintCoins → SendCoinsFromModuleToAccount) and cStateDb.burnCoins (SendCoinsFromAccountToModule → BurnCoins), each pair with one coins value, one module name and a panic on either error, so the module account nets to zero; no other repository code calls bank MintCoins", 6, func() {
		names := map[string]bool{"MintCoins": true, "BurnCoins": true, "SendCoinsFromModuleToAccount": true, "SendCoinsFromAccountToModule": true}
		evmMod := constStringVal2(e, pkgEvmTypes, "ModuleName")
		n := 0
		for _, cs := range e.repoCallSites(func(c ssa.CallInstruction) bool { return isBankCall(c, names) }) {
			nm := calleeObj(cs.Call).Name()
			a := cs.Call.Common().Args
			mod := ""
			switch nm {
			case "MintCoins", "BurnCoins", "SendCoinsFromModuleToAccount":
				mod = moduleNameArg(a[1])
			case "SendCoinsFromAccountToModule":
				mod = moduleNameArg(a[2])
			}
			top := topFn(cs.Fn)
			if nm == "MintCoins" {
				n++
				r.Check(top == mint, "who mints › "+fnKey(cs.Fn), e.Pos(cs.Call.Pos()), "only cStateDb.mintCoins", "bank MintCoins is called outside the StateDB's paired mint helper: coins are created without a matching debit")
				continue
			}
			if mod != evmMod && !(pkgPathOf(top) == pkgEvmVM) {
				continue // other modules' own burn paths (cpc ERC-20 burn, vauth fee) are decided by C10 / C16
			}
			n++
			ok := (top == mint && nm == "SendCoinsFromModuleToAccount") || (top == burn && (nm == "SendCoinsFromAccountToModule" || nm == "BurnCoins"))
			r.Check(ok, "evm module account user › "+fnKey(cs.Fn)+" › "+nm, e.Pos(cs.Call.Pos()), "inside mintCoins/burnCoins", "the evm module account is debited/credited outside the paired helpers")
		}
		if n < 4 {
			r.Bad("evm module account users", e.Pos(mint.Pos()), "fewer than the four bank calls of mintCoins/burnCoins found")
		}
		pair := func(fn *ssa.Function, first, second string, modIdx1, coinsIdx1, modIdx2, coinsIdx2 int) {
			c1 := callsIn(fn, false, func(c ssa.CallInstruction) bool { return isBankCall(c, map[string]bool{first: true}) })
			c2 := callsIn(fn, false, func(c ssa.CallInstruction) bool { return isBankCall(c, map[string]bool{second: true}) })
			key := fnKey(fn) + " › " + first + " + " + second
			if len(c1) != 1 || len(c2) != 1 {
				r.Bad(key, e.Pos(fn.Pos()), "the helper does not contain exactly one "+first+" and one "+second)
				return
			}
			a1, a2 := c1[0].Common().Args, c2[0].Common().Args
			ok := sameLocal(a1[coinsIdx1], a2[coinsIdx2]) && resolveLocal(a1[coinsIdx1]) == ssa.Value(fn.Params[2]) && moduleNameArg(a1[modIdx1]) == evmMod && moduleNameArg(a2[modIdx2]) == evmMod
			ok = ok && dominatesInstr(c1[0].(ssa.Instruction), c2[0].(ssa.Instruction))
			// both errors end in panic; no return between the two calls
			for _, c := range []ssa.CallInstruction{c1[0], c2[0]} {
				cc := c
				okE := false
				for _, g := range errNilGuards(fn, func(x *ssa.Call) bool { return ssa.CallInstruction(x) == cc }) {
					if endsInPanicRegion(g.failBlock()) {
						okE = true
					}
				}
				if !okE {
					ok = false
				}
			}
			for _, ret := range returnsOf(fn) {
				if reachesFrom(fn, c1[0].(ssa.Instruction), ret) && !passesOr(fn, ret, c2[0], nil) {
					// a return after the first half without the second half
					del := map[edge]bool{}
					for _, p := range c2[0].Block().Preds {
						del[edge{p.Index, c2[0].Block().Index}] = true
					}
					if c1[0].Block() != c2[0].Block() && reachable(fn, c1[0].Block(), del)[ret.Block()] {
						ok = false
					}
				}
			}
			// the account side is the helper's account parameter
			r.Check(ok, key, e.Pos(c1[0].Pos()), "same coins, same module, both errors panic, no exit in between", "the two halves of the mint/burn are not paired: coins stay in (or are taken from) the evm module account, or an error leaves a half-done transfer")
		}
		pair(mint, "MintCoins", "SendCoinsFromModuleToAccount", 1, 2, 1, 3)
		pair(burn, "SendCoinsFromAccountToModule", "BurnCoins", 2, 3, 1, 2)
		// AddBalance/SubBalance wrap the helpers with coins built from (evmDenom, b) for the given address
		for _, w := range []struct {
			fn     *ssa.Function
			helper *ssa.Function
		}{{addBal, mint}, {subBal, burn}} {
			cs := callsIn(w.fn, false, func(c ssa.CallInstruction) bool { return c.Common().StaticCallee() == w.helper })
			ok := len(cs) == 1
			if ok {
				a := cs[0].Common().Args
				cs2 := backSlice(a[2], SliceOpts{ThroughCallArgs: alwaysThrough, IntoCallees: func(f *ssa.Function) bool { return pkgPathOf(f) == pkgEvmVM }, Depth: 2})
				ok = sliceFrom(a[1]).HasValue(w.fn.Params[1]) && cs2.HasValue(w.fn.Params[2]) && hasFieldLoad(cs2, "cStateDb", "evmDenom")
			}
			if !ok && len(cs) == 0 {
				// the wrapper may delegate to a shared private helper that receives the mint/burn helper as a function value:
				// `d.changeBalance(address, b, d.mintCoins)` → inside: `applyCoins(address.Bytes(), NewCoins(NewCoin(d.evmDenom, amount)))`
				for _, hc := range callsIn(w.fn, false, func(c ssa.CallInstruction) bool { return privHelper(pkgEvmVM)(c.Common().StaticCallee()) }) {
					h := hc.Common().StaticCallee()
					fi := -1
					for i, a := range hc.Common().Args {
						if mc, isMC := a.(*ssa.MakeClosure); isMC {
							if bf, isF := mc.Fn.(*ssa.Function); isF && bf.Object() != nil && bf.Object() == w.helper.Object() {
								fi = i
							}
						}
					}
					if fi < 0 || fi >= len(h.Params) {
						continue
					}
					bound := func(sl *Slice, want ssa.Value) bool {
						for pi, p := range h.Params {
							if pi < len(hc.Common().Args) && sl.HasValue(p) && resolveLocal(hc.Common().Args[pi]) == want {
								return true
							}
						}
						return false
					}
					n := 0
					good := true
					for _, dc := range callsIn(h, false, func(c ssa.CallInstruction) bool { return c.Common().Value == ssa.Value(h.Params[fi]) }) {
						n++
						a := dc.Common().Args
						if len(a) != 2 {
							good = false
							continue
						}
						coins := backSlice(a[1], SliceOpts{ThroughCallArgs: alwaysThrough, IntoCallees: func(f *ssa.Function) bool { return pkgPathOf(f) == pkgEvmVM }, Depth: 2})
						if !bound(sliceFrom(a[0]), ssa.Value(w.fn.Params[1])) || !bound(coins, ssa.Value(w.fn.Params[2])) || !hasFieldLoad(coins, "cStateDb", "evmDenom") {
							good = false
						}
					}
					if n == 1 && good {
						ok = true
					}
				}
			}
			r.Check(ok, fnKey(w.fn)+" › helper(address, (evmDenom, amount))", e.Pos(w.fn.Pos()), "coins = NewCoin(d.evmDenom, b) for `address`", "the balance change is not exactly `b` of the EVM denomination for the given address")
		}
	})

	r.Rule("R2", "CENSUS+PROVENANCE", "every credit (StateDB.AddBalance / mintCoins call site in repository code and in the fork's core/evm.go and core/vm) is matched: P1 same-function debit of the same value (core.Transfer); P2 self-destruct: credit of GetBalance(a) followed by Suicide(a), and Suicide clears a's full balance on every path that reports success; P3 account re-creation: credit of the balances read before DestroyAccount; P0 a zero-value touch. The gas refund credit has no matching debit (F4, known) but must at least be priced at the price the gas was bought at", 6, func() {
		isCredit := func(c ssa.CallInstruction) bool {
			if c.Common().StaticCallee() == mint {
				return true
			}
			fo := calleeObj(c)
			return fo != nil && fo.Name() == "AddBalance" && fo.Type() != nil && (c.Common().IsInvoke() && namedTypeName(c.Common().Value.Type()) == "StateDB" || c.Common().StaticCallee() == addBal)
		}
		var sites []callSite
		for _, f := range e.SrcFuncs(func(p string) bool {
			return e.RepoOwned(p) || p == GETH+"/core" || p == GETH+"/core/vm"
		}) {
			file := e.File(f.Pos())
			if IsGenerated(file) {
				continue
			}
			if strings.HasSuffix(file, "/core/state_transition.go") && !e.RepoOwned(pkgPathOf(f)) {
				continue // the fork's own transition is not linked into block execution (the repository carries a copy)
			}
			for _, c := range callsIn(f, false, isCredit) {
				sites = append(sites, callSite{f, c})
			}
		}
		sort.Slice(sites, func(i, j int) bool { return sites[i].Call.Pos() < sites[j].Call.Pos() })
		for _, cs := range sites {
			fn := cs.Fn
			key := "credit › " + fnKey(fn)
			a := cs.Call.Common().Args
			amt := a[len(a)-1]
			pos := e.Pos(cs.Call.Pos())
			switch {
			case fn == addBal:
				r.OK(key, pos, "implementation of AddBalance itself (callers are the obligations)")
			case fn == refund:
				r.Bad("x/evm/keeper.StateTransition.refundGas › AddBalance without debit", pos, "the unused-gas refund is minted to the sender while the ante handler moved (not burnt) the whole prepaid fee to the fee collector: supply grows by (gasLimit − gasUsed) × price on every transaction with unused gas")
				// priced at the purchase price
				as := backSlice(amt, SliceOpts{ThroughCallArgs: alwaysThrough, NoMemory: true})
				r.Check(hasFieldLoad(as, "StateTransition", "gasPrice") && !hasFieldLoad(as, "StateTransition", "gasFeeCap") && !hasFieldLoad(as, "StateTransition", "gasTipCap") && hasFieldLoad(as, "StateTransition", "gas"),
					"refundGas › refund priced at st.gasPrice", pos, "st.gas × st.gasPrice", "the refund is priced differently from the price the ante handler charged (e.g. at the fee cap): the sender is paid back more than was deducted")
			case fn == create:
				// P3
				gb := callsIn(fn, false, func(c ssa.CallInstruction) bool { return isBankCall(c, map[string]bool{"GetAllBalances": true}) })
				da := callsTo(fn, false, CallSpec{pkgEvmVM, "cStateDb", "DestroyAccount"})
				ok := len(gb) == 1 && len(da) == 1 && sameLocal(amt, gb[0].(ssa.Value)) && dominatesInstr(gb[0].(ssa.Instruction), da[0].(ssa.Instruction)) && dominatesInstr(da[0].(ssa.Instruction), cs.Call.(ssa.Instruction))
				if ok {
					ok = sliceFrom(gb[0].Common().Args[1]).HasValue(fn.Params[1]) && sliceFrom(a[1]).HasValue(fn.Params[1]) && sliceFrom(da[0].Common().Args[len(da[0].Common().Args)-1]).HasValue(fn.Params[1])
				}
				r.Check(ok, key+" › carry-over", pos, "re-credit of the balances read before DestroyAccount(address)", "CreateAccount credits something other than exactly the balances that DestroyAccount burnt for the same address")
				okBurn, whyBurn := destroyBurnsAllBalances(e)
				r.Check(okBurn, key+" › carry-over is burnt first", pos, "DestroyAccount burns GetAllBalances(address) on every normal exit unless zero", "CreateAccount re-mints the carried-over balances although DestroyAccount does not burn them on every path — "+whyBurn+": the balance exists twice afterwards (supply inflation in every denomination)")
			default:
				// P0: constant zero
				if isZeroBig(amt) {
					r.OK(key+" › zero touch", pos, "AddBalance(addr, 0)")
					continue
				}
				// P1: same-function SubBalance of the same SSA value
				okP1 := false
				for _, d := range callsIn(fn, false, func(c ssa.CallInstruction) bool {
					fo := calleeObj(c)
					return fo != nil && fo.Name() == "SubBalance"
				}) {
					da := d.Common().Args
					if sameLocal(da[len(da)-1], amt) && dominatesInstr(d.(ssa.Instruction), cs.Call.(ssa.Instruction)) {
						okP1 = true
					}
				}
				if okP1 {
					r.OK(key+" › transfer", pos, "debit and credit of one value")
					continue
				}
				// P2: credit of GetBalance(a) followed by Suicide(a)
				gc, _ := callOf(resolveLocal(amt))
				okP2 := false
				if gc != nil && isMethodNamed(gc, "GetBalance") {
					for _, s := range callsIn(fn, false, func(c ssa.CallInstruction) bool { return isMethodNamed(c, "Suicide") }) {
						sa := s.Common().Args
						if samePathCalls(sa[len(sa)-1], gc.Call.Args[len(gc.Call.Args)-1]) && dominatesInstr(cs.Call.(ssa.Instruction), s.(ssa.Instruction)) {
							okP2 = true
						}
					}
				}
				if okP2 {
					r.OK(key+" › self-destruct", pos, "credit of GetBalance(a), then Suicide(a)")
					continue
				}
				r.Bad(key, pos, "a credit (AddBalance/mint) with no matching debit of the same value: coins are created")
			}
		}
		// Suicide clears the full balance on every successful path
		ok := suicideClearsBalance(e)
		r.Check(ok, "x/evm/vm.cStateDb.Suicide › success ⇒ balance cleared", e.Pos(suicide.Pos()), "every `true` return passed SubBalance(address, GetBalance(address)) or found the balance zero", "Suicide can report success without debiting the account's whole EVM-denom balance: opSelfdestruct has already credited that balance to the beneficiary, so coins are duplicated (e.g. a repeated SELFDESTRUCT of a re-funded contract)")
	})

	r.Rule("R3", "PAIR", "the paid-fee flag is raised only by DLDeductFeeDecorator, under the Ethereum-lane edge and before the SDK fee deduction; it is reset at the start of every Ethereum-lane ante run; it is read only by ApplyMessageWithConfig and the mempool trial execution", 4, func() {
		specSet := CallSpec{pkgEvmKeeper, "Keeper", "SetFlagSenderPaidTxFeeInAnteHandle"}
		specGet := CallSpec{pkgEvmKeeper, "Keeper", "IsSenderPaidTxFeeInAnteHandle"}
		ded := e.Fn(pkgDual, "DLDeductFeeDecorator.AnteHandle")
		setup := e.Fn(pkgDual, "DLSetupContextDecorator.AnteHandle")
		nT, nF := 0, 0
		for _, cs := range e.repoCallSites(func(c ssa.CallInstruction) bool { return isCallTo(c, specSet) }) {
			b, isK := constBool(argOf(cs.Call, 1))
			if !isK {
				r.Bad("paid-fee flag writer › "+fnKey(cs.Fn), e.Pos(cs.Call.Pos()), "the flag is written with a non-constant value")
				continue
			}
			eth, _ := laneGuards(cs.Fn)
			if b {
				nT++
				okT := cs.Fn == ded && mustPass(cs.Fn, cs.Call, eth)
				// before the SDK deduction
				for _, c := range callsIn(cs.Fn, false, func(c ssa.CallInstruction) bool {
					fo := calleeObj(c)
					return fo != nil && fo.Name() == "AnteHandle" && fo.Pkg() != nil && fo.Pkg().Path() == pkgSdkAnte
				}) {
					if !reachesFrom(cs.Fn, cs.Call.(ssa.Instruction), c.(ssa.Instruction)) {
						okT = false
					}
				}
				r.Check(okT, "paid-fee flag raised › "+fnKey(cs.Fn), e.Pos(cs.Call.Pos()), "DLDeductFeeDecorator, Ethereum lane, before the deduction", "the paid-fee flag is raised outside the fee decorator's Ethereum lane: a refund is paid for a fee that was not deducted")
			} else {
				nF++
				okF := cs.Fn == setup && mustPass(cs.Fn, cs.Call, eth)
				if okF {
					for _, c := range callsIn(cs.Fn, false, func(c ssa.CallInstruction) bool { return isNextCall(cs.Fn, c) }) {
						if mustPass(cs.Fn, c, eth) && !passesOr(cs.Fn, c, cs.Call, nil) {
							okF = false
						}
					}
				}
				r.Check(okF, "paid-fee flag reset › "+fnKey(cs.Fn), e.Pos(cs.Call.Pos()), "DLSetupContextDecorator resets before next() on the Ethereum lane", "the paid-fee flag is not reset at the start of every Ethereum-lane ante run: a stale flag from a previous transaction triggers a refund")
			}
		}
		if nT != 1 || nF < 1 {
			r.Bad("paid-fee flag writers", e.Pos(ded.Pos()), "expected exactly one raise and at least one reset of the paid-fee flag")
		}
		amwc := e.Fn(pkgEvmKeeper, "Keeper.ApplyMessageWithConfig")
		sim := e.Fn(pkgEvmLane, "ELExecWithoutErrorDecorator.AnteHandle")
		for _, cs := range e.repoCallSites(func(c ssa.CallInstruction) bool { return isCallTo(c, specGet) }) {
			t := topFn(cs.Fn)
			r.Check(t == amwc || t == sim, "paid-fee flag reader › "+fnKey(cs.Fn), e.Pos(cs.Call.Pos()), "state transition set-up only", "the paid-fee flag is consumed somewhere else")
		}
	})

	r.Rule("R4", "EFFECT", "no custom-precompile executor can reach bank MintCoins (precompiles move or burn existing coins only)", 38, func() {
		ee := e.Effects()
		isMintFn := func(f *ssa.Function) bool {
			return f.Name() == "MintCoins" && strings.Contains(pkgPathOf(f), "x/bank/keeper")
		}
		for _, x := range executorCensus(e) {
			reach := ee.ReachSet([]*ssa.Function{x.Execute}, EffectOpts{})
			var hit *ssa.Function
			for f := range reach {
				if isMintFn(f) {
					hit = f
				}
			}
			if hit == nil {
				r.OK("no mint › "+x.Name(), e.Pos(x.Execute.Pos()), "MintCoins unreachable")
			} else {
				r.Bad("no mint › "+x.Name(), e.Pos(x.Execute.Pos()), "a precompile method can mint coins", ee.WhyReach([]*ssa.Function{x.Execute}, hit, EffectOpts{})...)
			}
		}
	})

	r.Rule("R5", "MUST-PASS", "an Ethereum message is executed only after the Ethereum lane deducted its fee: the refund credit is keyed on a flag that is reset only by the Ethereum lane, so a MsgEthereumTx smuggled through the Cosmos lane (nested in MsgExec behind another MsgExec) would be refunded gas it never paid for — the authz screen inspects every message (shared with C07-R4 / C06-R7)", 1, func() {
		ok, why := authzScreenInspectsAll(e)
		fn := e.Fn(pkgCosmoLane, "CLRejectAuthzMsgsDecorator.checkDisabledMsgs")
		r.Check(ok, "992c › nested Ethereum messages screened", e.Pos(fn.Pos()), "checkDisabledMsgs inspects every message and recurses into MsgExec", why+" — a nested MsgEthereumTx executes without fee deduction while a stale paid-fee flag makes refundGas mint (gasLimit − gasUsed) × price")
	})
}

func constStringVal2(e *Engine, pkg, name string) string {
	c, ok := e.Obj(pkg, name).(*types.Const)
	if !ok {
		undecidedf("%s.%s is not a constant", pkg, name)
	}
	return constStringVal(c)
}

// isZeroBig: the value is a *big.Int known to be zero: big.NewInt(0), new(big.Int), or a package-level `big0`-style variable
// initialised by one of these.
func isZeroBig(v ssa.Value) bool {
	v = resolveLocal(v)
	if c, _ := callOf(v); c != nil {
		if isCallTo(c, CallSpec{pkgBig, "", "NewInt"}) {
			k, ok := constInt(c.Call.Args[0])
			return ok && k == 0
		}
	}
	if a, ok := v.(*ssa.Alloc); ok && namedTypePath(a.Type()) == pkgBig+".Int" {
		return len(storesTo(a)) == 0
	}
	if u, ok := v.(*ssa.UnOp); ok && u.Op == token.MUL {
		if g, isG := u.X.(*ssa.Global); isG && g.Pkg != nil {
			// find the initialiser in the package init
			if init := g.Pkg.Func("init"); init != nil {
				for _, st := range storesToGlobal(init, g) {
					if isZeroBig(st.Val) {
						return true
					}
				}
			}
		}
	}
	return false
}

func storesToGlobal(fn *ssa.Function, g *ssa.Global) []*ssa.Store {
	var out []*ssa.Store
	allInstrs(fn, false, func(_ *ssa.Function, _ *ssa.BasicBlock, i ssa.Instruction) {
		if st, ok := i.(*ssa.Store); ok && st.Addr == ssa.Value(g) {
			out = append(out, st)
		}
	})
	return out
}

// suicideClearsBalance: every `true` return of cStateDb.Suicide has passed SubBalance(address, GetBalance(address)) or found
// that balance zero — go-ethereum's StateDB.Suicide zeroes the balance on EVERY call, also a repeated one (shared: C04-R2, C02-R11).
func suicideClearsBalance(e *Engine) bool {
	suicide := e.Fn(pkgEvmVM, "cStateDb.Suicide")
	subBal := e.Fn(pkgEvmVM, "cStateDb.SubBalance")
	addrP := ssa.Value(suicide.Params[1])
	gbs := callsIn(suicide, false, func(c ssa.CallInstruction) bool { return isBankCall(c, map[string]bool{"GetBalance": true}) })
	subs := callsIn(suicide, false, func(c ssa.CallInstruction) bool { return c.Common().StaticCallee() == subBal })
	ok := len(gbs) == 1 && len(subs) == 1
	if ok {
		gb := gbs[0]
		ga := gb.Common().Args
		ok = sliceFrom(ga[1]).HasValue(addrP) && hasFieldLoad(sliceFrom(ga[2]), "cStateDb", "evmDenom") && isFieldRead(ga[0], "cStateDb", "currentCtx")
		sa := subs[0].Common().Args
		ok = ok && resolveLocal(sa[1]) == addrP && sliceFrom(sa[2]).HasValue(gb.(ssa.Value))
		gZero := boolCallGuards(suicide, true, func(c *ssa.Call) bool {
			return isMethodNamed(c, "IsZero") && sliceFrom(c.Call.Args[0]).HasValue(gb.(ssa.Value))
		})
		for _, ret := range returnsOf(suicide) {
			if b, isK := constBool(ret.Results[0]); isK && !b {
				continue
			}
			if !passesOr(suicide, ret, subs[0], gZero) {
				ok = false
			}
		}
	}
	return ok
}

package main

import (
	"encoding/json"
	"fmt"
	"os"
	"path/filepath"
	"runtime/debug"
	"sort"
	"strings"
	"time"
)

var processStart = time.Now()

type Status string

const (
	Discharged Status = "discharged"
	Violated   Status = "violated"
	Known      Status = "known"
	Undecided  Status = "undecided"
	Advisory   Status = "advisory"
)

// Obligation is one rule instance. Key = Rule + Construct (type-resolved, never a line number).
type Obligation struct {
	Rule      string   `json:"rule"`
	Construct string   `json:"construct"`
	Pos       string   `json:"pos,omitempty"`
	Status    Status   `json:"status"`
	Detail    string   `json:"detail,omitempty"`
	Path      []string `json:"path,omitempty"`
}

type RuleInfo struct {
	ID          string `json:"id"`
	Kind        string `json:"kind"`
	Text        string `json:"text"`
	Min         int    `json:"min_instances"`
	Instances   int    `json:"instances"`
	Discharged  int    `json:"discharged"`
	Violated    int    `json:"violated"`
	Known       int    `json:"known"`
	Undecided   int    `json:"undecided"`
	Advisory    int    `json:"advisory"`
	NotDecided  string `json:"not_decided,omitempty"`
	canaryFired *bool
}

type Report struct {
	Property string
	Tier     string
	e        *Engine
	Obs      []*Obligation
	Rules    []*RuleInfo
	cur      *RuleInfo
	Notes    []string
	Assume   []string
	Counters map[string]int
	NotDec   []string
	Canary   map[string]bool
	start    time.Time
}

func NewReport(prop, tier string, e *Engine) *Report {
	return &Report{Property: prop, Tier: tier, e: e, Counters: map[string]int{}, Canary: map[string]bool{}, start: processStart}
}

// Rule runs one rule; undecided panics and checker panics become failing (undecided) obligations.
func (r *Report) Rule(id, kind, text string, min int, body func()) {
	ri := &RuleInfo{ID: id, Kind: kind, Text: text, Min: min}
	r.Rules = append(r.Rules, ri)
	r.cur = ri
	func() {
		defer func() {
			if x := recover(); x != nil {
				if u, ok := x.(undecided); ok {
					r.add(&Obligation{Rule: id, Construct: "binding", Status: Undecided, Detail: u.msg})
					return
				}
				r.add(&Obligation{Rule: id, Construct: "checker-panic", Status: Undecided,
					Detail: fmt.Sprintf("%v\n%s", x, trimStack(debug.Stack()))})
			}
		}()
		body()
	}()
	if ri.Instances-ri.Advisory < min {
		r.add(&Obligation{Rule: id, Construct: "min-instances", Status: Undecided,
			Detail: fmt.Sprintf("rule matched %d instances, fewer than the %d confirmed by reading: anchors moved or the rule no longer recognises the idiom", ri.Instances-ri.Advisory, min)})
	}
	r.cur = nil
}

func trimStack(b []byte) string {
	lines := strings.Split(string(b), "\n")
	if len(lines) > 24 {
		lines = lines[:24]
	}
	return strings.Join(lines, "\n")
}

func (r *Report) add(o *Obligation) {
	if r.cur != nil && o.Construct != "min-instances" {
		r.cur.Instances++
	}
	r.Obs = append(r.Obs, o)
}

func (r *Report) OK(construct, pos, detail string, path ...string) {
	r.add(&Obligation{Rule: r.cur.ID, Construct: construct, Pos: pos, Status: Discharged, Detail: detail, Path: path})
}
func (r *Report) Bad(construct, pos, detail string, path ...string) {
	r.add(&Obligation{Rule: r.cur.ID, Construct: construct, Pos: pos, Status: Violated, Detail: detail, Path: path})
}
func (r *Report) Undec(construct, pos, detail string) {
	r.add(&Obligation{Rule: r.cur.ID, Construct: construct, Pos: pos, Status: Undecided, Detail: detail})
}
func (r *Report) Adv(construct, pos, detail string) {
	r.add(&Obligation{Rule: r.cur.ID, Construct: construct, Pos: pos, Status: Advisory, Detail: detail})
}

// Check records a discharged or violated obligation.
func (r *Report) Check(ok bool, construct, pos, okDetail, badDetail string) bool {
	if ok {
		r.OK(construct, pos, okDetail)
	} else {
		r.Bad(construct, pos, badDetail)
	}
	return ok
}

func (r *Report) Note(format string, a ...interface{}) {
	r.Notes = append(r.Notes, fmt.Sprintf(format, a...))
}
func (r *Report) Assumption(s string)   { r.Assume = append(r.Assume, s) }
func (r *Report) NotDecided(s string)   { r.NotDec = append(r.NotDec, s) }
func (r *Report) Count(k string, n int) { r.Counters[k] += n }

// ---------------------------------------------------------------- known findings

type KnownFinding struct {
	Property  string `json:"property"`
	Rule      string `json:"rule"`
	Construct string `json:"construct"`
	Status    string `json:"status"` // known | fixed
	WhatFails string `json:"what_fails"`
	Witness   string `json:"witness,omitempty"`
	Commit    string `json:"commit,omitempty"`
	ID        string `json:"id,omitempty"`
}

func loadKnown(path string) ([]KnownFinding, error) {
	b, err := os.ReadFile(path)
	if err != nil {
		if os.IsNotExist(err) {
			return nil, nil
		}
		return nil, err
	}
	var f struct {
		Findings []KnownFinding `json:"findings"`
	}
	if err := json.Unmarshal(b, &f); err != nil {
		return nil, err
	}
	return f.Findings, nil
}

// ---------------------------------------------------------------- finish

// Finish applies the known-findings file, writes the evidence file, prints the verdict lines and returns the exit code.
func (r *Report) Finish(verifDir, evDir string, seed int) int {
	known, kerr := loadKnown(filepath.Join(verifDir, "known_findings.json"))
	if kerr != nil {
		r.Obs = append(r.Obs, &Obligation{Rule: "engine", Construct: "known_findings.json", Status: Undecided, Detail: kerr.Error()})
	}
	for _, o := range r.Obs {
		if o.Status != Violated {
			continue
		}
		for _, k := range known {
			if k.Status == "known" && k.Property == r.Property && k.Rule == o.Rule && k.Construct == o.Construct {
				o.Status = Known
				o.Detail = k.WhatFails + " | " + o.Detail
				break
			}
		}
	}
	sort.SliceStable(r.Obs, func(i, j int) bool {
		a, b := r.Obs[i], r.Obs[j]
		if a.Rule != b.Rule {
			return a.Rule < b.Rule
		}
		if a.Construct != b.Construct {
			return a.Construct < b.Construct
		}
		return a.Pos < b.Pos
	})
	byRule := map[string]*RuleInfo{}
	for _, ri := range r.Rules {
		byRule[ri.ID] = ri
	}
	tot := map[Status]int{}
	for _, o := range r.Obs {
		tot[o.Status]++
		if ri := byRule[o.Rule]; ri != nil {
			switch o.Status {
			case Discharged:
				ri.Discharged++
			case Violated:
				ri.Violated++
			case Known:
				ri.Known++
			case Undecided:
				ri.Undecided++
			case Advisory:
				ri.Advisory++
			}
		}
	}
	nviol := tot[Violated] + tot[Undecided]

	// samples: every non-discharged obligation, plus up to 6 discharged per rule
	var samples []*Obligation
	perRule := map[string]int{}
	for _, o := range r.Obs {
		if o.Status != Discharged {
			samples = append(samples, o)
			continue
		}
		if perRule[o.Rule] < 6 {
			perRule[o.Rule]++
			samples = append(samples, o)
		}
	}
	var ruleTexts []string
	for _, ri := range r.Rules {
		ruleTexts = append(ruleTexts, fmt.Sprintf("%s[%s]: %s", ri.ID, ri.Kind, ri.Text))
	}
	expl := fmt.Sprintf("Static decision over the type-checked source of %s (go/packages LoadAllSyntax, go/types, go/ssa%s). "+
		"Each rule instance is an obligation keyed by rule+construct; an obligation is discharged by a path/dominance/provenance/effect argument over the SSA form, "+
		"violated obligations are VIOLATIONs unless listed in known_findings.json; undecided obligations (unresolved anchors, unknown idioms, instance count below the confirmed minimum) fail the check. Nothing is executed.",
		r.e.Repo, map[bool]string{true: ", CHA+VTA call graph", false: ""}[r.e.vtaG != nil || r.e.chaG != nil])
	cov := map[string]interface{}{
		"explanation":         expl,
		"obligations":         len(r.Obs) - tot[Advisory],
		"discharged":          tot[Discharged],
		"violated":            tot[Violated],
		"known_findings":      tot[Known],
		"undecided":           tot[Undecided],
		"advisory":            tot[Advisory],
		"evaluations":         len(r.Obs),
		"distinct_nontrivial": distinctConstructs(r.Obs),
		"rule":                "one obligation per (rule, type-resolved construct); distinct = distinct keys; all are non-trivial (each names a concrete construct of /repo that was inspected). Rules: " + strings.Join(ruleTexts, " || "),
		"rules":               r.Rules,
		"samples":             samples,
		"all_obligation_keys": obligationKeys(r.Obs),
		"counters":            r.Counters,
		"not_decided":         nonNil(r.NotDec),
		"notes":               nonNil(r.Notes),
		"packages_loaded":     len(r.e.All),
		"repo_packages":       len(r.e.RepoPackages()),
		"timings_s":           r.e.timings,
		"checker_cmd":         fmt.Sprintf("/verif/bin/evcheck -property %s -tier %s", r.Property, r.Tier),
		"trusted_base": []string{
			"Go type checker, golang.org/x/tools v0.29.0 (go/packages, go/ssa, callgraph/cha, callgraph/vta)",
			"cosmos-sdk, cometbft, ibc-go and upstream go-ethereum code are assumed correct and deterministic, except the fork's evermint-specific files, which are analysed",
			"call graph soundness assumes no unsafe/reflection-driven dispatch inside the analysed paths; reflective routers (msg service router, gRPC) are replaced by taking all implementers as roots",
		},
		"exhaustive": true,
	}
	if r.e.Prog != nil {
		cov["ssa_built"] = true
	}
	if r.e.vtaG != nil {
		cov["callgraph_nodes"] = len(r.e.vtaG.Nodes)
	} else if r.e.chaG != nil {
		cov["callgraph_nodes"] = len(r.e.chaG.Nodes)
	}
	ev := map[string]interface{}{
		"property_id": r.Property,
		"tier":        r.Tier,
		"seed":        seed,
		"level":       "other",
		"coverage":    cov,
		"assumptions": nonNil(r.Assume),
		"wall_s":      time.Since(r.start).Seconds(),
		"violations":  nviol,
	}
	if evDir == "" {
		evDir = filepath.Join(verifDir, "evidence")
	}
	os.MkdirAll(evDir, 0o755)
	b, _ := json.MarshalIndent(ev, "", " ")
	evPath := filepath.Join(evDir, r.Property+".json")
	if err := os.WriteFile(evPath, b, 0o644); err != nil {
		fmt.Printf("ERROR cannot write evidence: %v\n", err)
		return 2
	}

	// verdict lines
	for _, ri := range r.Rules {
		fmt.Printf("rule %-4s %-14s instances=%-3d discharged=%-3d violated=%d known=%d undecided=%d advisory=%d\n",
			ri.ID, ri.Kind, ri.Instances, ri.Discharged, ri.Violated, ri.Known, ri.Undecided, ri.Advisory)
	}
	for _, o := range r.Obs {
		switch o.Status {
		case Known:
			fmt.Printf("KNOWN-FINDING: property=%s %s [%s %s at %s]\n", r.Property, oneLine(o.Detail), o.Rule, o.Construct, o.Pos)
		case Violated:
			fmt.Printf("violated: %s %s at %s: %s\n", o.Rule, o.Construct, o.Pos, oneLine(o.Detail))
			for _, p := range o.Path {
				fmt.Printf("    %s\n", p)
			}
		case Undecided:
			fmt.Printf("undecided: %s %s at %s: %s\n", o.Rule, o.Construct, o.Pos, o.Detail)
		}
	}
	if nviol > 0 {
		vpath := filepath.Join(evDir, r.Property+".violation.json")
		var bad []*Obligation
		for _, o := range r.Obs {
			if o.Status == Violated || o.Status == Undecided {
				bad = append(bad, o)
			}
		}
		vb, _ := json.MarshalIndent(map[string]interface{}{"property": r.Property, "tier": r.Tier, "repo": r.e.Repo, "violations": bad}, "", " ")
		os.WriteFile(vpath, vb, 0o644)
		fmt.Printf("VIOLATION property=%s replay=%s\n", r.Property, vpath)
		return 1
	}
	os.Remove(filepath.Join(evDir, r.Property+".violation.json"))
	fmt.Printf("OK property=%s tier=%s obligations=%d discharged=%d known=%d wall=%.1fs\n", r.Property, r.Tier,
		len(r.Obs)-tot[Advisory], tot[Discharged], tot[Known], time.Since(r.start).Seconds())
	return 0
}

func oneLine(s string) string {
	s = strings.ReplaceAll(s, "\n", " ")
	if len(s) > 400 {
		s = s[:400] + "…"
	}
	return s
}

func distinctConstructs(obs []*Obligation) int {
	m := map[string]bool{}
	for _, o := range obs {
		if o.Status == Advisory {
			continue
		}
		m[o.Rule+"\x00"+o.Construct] = true
	}
	return len(m)
}

func obligationKeys(obs []*Obligation) []string {
	var out []string
	for _, o := range obs {
		out = append(out, fmt.Sprintf("%s %s %s", o.Status, o.Rule, o.Construct))
	}
	return out
}

func nonNil(s []string) []string {
	if s == nil {
		return []string{}
	}
	return s
}

package main

import (
	"go/ast"
	"go/types"
	"sort"
	"strconv"

	"golang.org/x/tools/go/ssa"
)

const (
	pkgAnte      = EV + "/app/antedl"
	pkgDual      = EV + "/app/antedl/duallane"
	pkgEvmLane   = EV + "/app/antedl/evmlane"
	pkgCosmoLane = EV + "/app/antedl/cosmoslane"
	pkgAnteUtils = EV + "/app/antedl/utils"
	pkgSdkTypes  = SDK + "/types"
)

var (
	specHasSingleEth = CallSpec{pkgAnteUtils, "", "HasSingleEthereumMessage"}
	specIsEthereumTx = CallSpec{pkgAnteUtils, "", "IsEthereumTx"}
)

// Decorator is one type with an AnteHandle method in one of the three lane packages.
type Decorator struct {
	Lane  string // dual | evm | cosmos
	Type  *types.Named
	Fn    *ssa.Function
	Ctor  *types.Func // constructor returning this type (resolved from the package scope)
	Index int         // position in the chain literal, -1 if absent
}

func (d *Decorator) Name() string { return d.Type.Obj().Name() }

// decoratorCensus enumerates every named type with a method AnteHandle(ctx, tx, simulate, next) in the lane packages.
func decoratorCensus(e *Engine) []*Decorator {
	e.BuildSSA()
	anteDec := e.Iface(pkgSdkTypes, "AnteDecorator")
	var out []*Decorator
	for lane, path := range map[string]string{"dual": pkgDual, "evm": pkgEvmLane, "cosmos": pkgCosmoLane} {
		p := e.Pkg(path)
		sc := p.Types.Scope()
		for _, n := range sc.Names() {
			tn, ok := sc.Lookup(n).(*types.TypeName)
			if !ok {
				continue
			}
			named, ok := types.Unalias(tn.Type()).(*types.Named)
			if !ok {
				continue
			}
			if _, isIface := named.Underlying().(*types.Interface); isIface {
				continue
			}
			if !types.Implements(named, anteDec) && !types.Implements(types.NewPointer(named), anteDec) {
				continue
			}
			d := &Decorator{Lane: lane, Type: named, Index: -1}
			fo := e.MethodObj(path, n, "AnteHandle")
			d.Fn = e.Prog.FuncValue(fo)
			if d.Fn == nil || d.Fn.Blocks == nil {
				undecidedf("no SSA for %s.%s.AnteHandle", path, n)
			}
			// constructor: package function whose single result is this type
			for _, m := range sc.Names() {
				if f, ok := sc.Lookup(m).(*types.Func); ok {
					sig := f.Type().(*types.Signature)
					if sig.Recv() == nil && sig.Results().Len() == 1 && types.Identical(sig.Results().At(0).Type(), named) {
						d.Ctor = f
					}
				}
			}
			out = append(out, d)
		}
	}
	sort.Slice(out, func(i, j int) bool {
		if out[i].Lane != out[j].Lane {
			return out[i].Lane < out[j].Lane
		}
		return out[i].Name() < out[j].Name()
	})
	return out
}

// chainLiteral returns, in order, the constructor functions called for the elements of the
// []sdk.AnteDecorator composite literal inside antedl.NewAnteHandler (AST + types).
func chainLiteral(e *Engine) []*types.Func {
	fd, p := e.Decl(pkgAnte, "NewAnteHandler")
	anteDec := e.Named(pkgSdkTypes, "AnteDecorator")
	var elems []*types.Func
	found := 0
	ast.Inspect(fd, func(n ast.Node) bool {
		cl, ok := n.(*ast.CompositeLit)
		if !ok {
			return true
		}
		t := p.TypesInfo.TypeOf(cl)
		sl, ok := t.Underlying().(*types.Slice)
		if !ok || !types.Identical(sl.Elem(), anteDec) {
			return true
		}
		found++
		for _, el := range cl.Elts {
			call, ok := ast.Unparen(el).(*ast.CallExpr)
			if !ok {
				elems = append(elems, nil)
				continue
			}
			var id *ast.Ident
			switch f := ast.Unparen(call.Fun).(type) {
			case *ast.SelectorExpr:
				id = f.Sel
			case *ast.Ident:
				id = f
			}
			if id == nil {
				elems = append(elems, nil)
				continue
			}
			fo, _ := p.TypesInfo.Uses[id].(*types.Func)
			elems = append(elems, fo)
		}
		return false
	})
	if found != 1 {
		undecidedf("expected exactly one []sdk.AnteDecorator literal in NewAnteHandler, found %d", found)
	}
	return elems
}

// indexChain fills Decorator.Index and returns: constructors in the literal that build no census type, duplicates.
func indexChain(ds []*Decorator, chain []*types.Func) (unknown []string, dups []string) {
	byCtor := map[*types.Func]*Decorator{}
	for _, d := range ds {
		if d.Ctor != nil {
			byCtor[d.Ctor] = d
		}
	}
	for i, c := range chain {
		if c == nil {
			unknown = append(unknown, "element#"+itoa(i))
			continue
		}
		d := byCtor[c]
		if d == nil {
			unknown = append(unknown, c.FullName())
			continue
		}
		if d.Index >= 0 {
			dups = append(dups, d.Name())
			continue
		}
		d.Index = i
	}
	return
}

func itoa(i int) string { return strconv.Itoa(i) }

// laneGuards finds the lane predicate guards in fn.
// ethEdges: edges taken only by Ethereum-lane transactions (true edge of HasSingleEthereumMessage / IsEthereumTx on the tx parameter).
// cosmosEdges: edges taken only by Cosmos-lane transactions (false edge of HasSingleEthereumMessage).
func laneGuards(fn *ssa.Function) (eth []Guard, cosmos []Guard) {
	txParam := anteParam(fn, 1)
	for _, g := range boolCallGuards(fn, true, func(c *ssa.Call) bool {
		return isCallTo(c, specHasSingleEth) && len(c.Call.Args) == 1 && strip(c.Call.Args[0]) == ssa.Value(txParam)
	}) {
		eth = append(eth, g)
		cosmos = append(cosmos, Guard{If: g.If, Survive: 1 - g.Survive, Desc: "cosmos lane"})
	}
	for _, g := range boolCallGuards(fn, true, func(c *ssa.Call) bool {
		return isCallTo(c, specIsEthereumTx) && len(c.Call.Args) == 1 && strip(c.Call.Args[0]) == ssa.Value(txParam)
	}) {
		eth = append(eth, g)
	}
	return
}

// anteParam returns the i-th declared parameter of AnteHandle (0 ctx, 1 tx, 2 simulate, 3 next), skipping the receiver.
func anteParam(fn *ssa.Function, i int) *ssa.Parameter {
	off := 0
	if fn.Signature.Recv() != nil {
		off = 1
	}
	if off+i < len(fn.Params) {
		return fn.Params[off+i]
	}
	return nil
}

// isNextCall: dynamic call of the `next` parameter.
func isNextCall(fn *ssa.Function, c ssa.CallInstruction) bool {
	next := anteParam(fn, 3)
	if next == nil {
		return false
	}
	return !c.Common().IsInvoke() && c.Common().Value == ssa.Value(next)
}

func isSdkContext(t types.Type) bool {
	return namedTypePath(t) == pkgSdkTypes+".Context" && !isPointer(t)
}

// ctxArg: the sdk.Context carried by a call operand (directly, or boxed into a context.Context parameter as the SDK 0.50 keepers take it).
func ctxArg(a ssa.Value) (ssa.Value, bool) {
	if isSdkContext(a.Type()) {
		return a, true
	}
	if namedTypePath(a.Type()) == "context.Context" {
		s := strip(a)
		if isSdkContext(s.Type()) {
			return s, true
		}
	}
	return nil, false
}

func isPointer(t types.Type) bool {
	_, ok := types.Unalias(t).(*types.Pointer)
	return ok
}

package main

import (
	"go/token"
	"go/types"
	"sort"
	"strings"

	"golang.org/x/tools/go/ssa"
)

func init() { registry["C13"] = checkC13 }

// dimension labels of a value, computed from the calls / field reads in its backward slice
type dims struct {
	perTxGas, cumGas, perTxLogs, cumLogs, txIndex bool
}

func (d dims) String() string {
	var s []string
	for _, p := range []struct {
		b bool
		n string
	}{{d.perTxGas, "per-tx gas"}, {d.cumGas, "cumulative gas"}, {d.perTxLogs, "per-tx log count"}, {d.cumLogs, "cumulative log count"}, {d.txIndex, "tx index"}} {
		if p.b {
			s = append(s, p.n)
		}
	}
	if len(s) == 0 {
		return "none"
	}
	return strings.Join(s, "+")
}

func dimsOf(v ssa.Value) dims {
	var d dims
	sl := backSlice(v, SliceOpts{ThroughCallArgs: alwaysThrough, FieldSensitive: true})
	for x := range sl.Vals {
		switch y := x.(type) {
		case *ssa.Call:
			fo := calleeObj(y)
			if fo == nil {
				if b, ok := y.Call.Value.(*ssa.Builtin); ok && b.Name() == "len" {
					if strings.Contains(y.Call.Args[0].Type().String(), "types.Log") {
						d.perTxLogs = true
					}
				}
				continue
			}
			switch fo.Name() {
			case "GetGasUsedForTdxIndexTransient", "getCumulativeGasUsedTransient":
				d.cumGas = true
			case "GetCumulativeLogCountTransient":
				d.cumLogs = true
			case "GetTxCountTransient", "GetRawTxCountTransient":
				d.txIndex = true
			case "Gas":
				if rn := recvNamed(fo); rn != nil && rn.Obj().Name() == "Transaction" {
					d.perTxGas = true
				}
			case "GetTransactionLogs":
				d.perTxLogs = true
			}
		case *ssa.FieldAddr, *ssa.Field:
			fv := fieldVar(y)
			if fv == nil {
				continue
			}
			switch fv.Name() {
			case "UsedGas", "GasUsed":
				d.perTxGas = true
			case "Logs":
				// only as operand of len(): handled above
			}
		}
	}
	return d
}

func checkC13(e *Engine, r *Report) {
	e.BuildSSA()
	r.NotDecided("the running-sum law over multi-transaction blocks as numbers; equality of the block bloom with the OR of receipt blooms as values (CreateBloom trusted)")
	r.NotDecided("JSON-RPC rendering of receipts (C14)")
	amwc := e.Fn(pkgEvmKeeper, "Keeper.ApplyMessageWithConfig")
	sec := e.Fn(pkgEvmKeeper, "Keeper.SetupExecutionContext")
	etx := e.Fn(pkgEvmKeeper, "Keeper.EthereumTx")
	ntc := e.Fn(pkgEvmKeeper, "Keeper.NewTxConfig")

	keeperFuncs := e.SrcFuncs(func(p string) bool { return p == pkgEvmKeeper || strings.HasPrefix(p, pkgAnte) })

	r.Rule("R1", "UNIT", "dimension discipline: Receipt.CumulativeGasUsed is fed by gas sources only (never a log count); the per-transaction gas slot by the transaction's own gas only; the per-transaction log-count slot by len(logs) of that transaction only (never a cumulative count); Log.Index and TxConfig.LogIndex by the cumulative log count of the preceding transactions", 6, func() {
		type sink struct {
			key, pos string
			val      ssa.Value
			kind     string
		}
		var sinks []sink
		qs := e.Iface(pkgEvmTypes, "QueryServer")
		isQuery := func(f *ssa.Function) bool {
			t := topFn(f)
			if recvNamedOfSig(t.Signature) == nil {
				return false
			}
			for i := 0; i < qs.NumMethods(); i++ {
				if qs.Method(i).Name() == t.Name() {
					return true
				}
			}
			return false
		}
		for _, f := range keeperFuncs {
			if IsGenerated(e.File(f.Pos())) {
				continue
			}
			if isQuery(f) {
				// gRPC query handlers (TraceTx/TraceBlock replay on a discarded context) keep their own running log index; C08 covers them
				continue
			}
			allInstrs(f, false, func(fn *ssa.Function, _ *ssa.BasicBlock, i ssa.Instruction) {
				switch x := i.(type) {
				case *ssa.Store:
					fa, ok := x.Addr.(*ssa.FieldAddr)
					if !ok {
						return
					}
					tp := namedTypePath(fa.X.Type())
					switch {
					case fieldName(fa) == "CumulativeGasUsed" && tp == pkgGethTypes+".Receipt":
						sinks = append(sinks, sink{fnKey(fn) + " › Receipt.CumulativeGasUsed", e.Pos(x.Pos()), x.Val, "cumGas"})
					case fieldName(fa) == "Index" && tp == pkgGethTypes+".Log":
						sinks = append(sinks, sink{fnKey(fn) + " › Log.Index", e.Pos(x.Pos()), x.Val, "logIndex"})
					case fieldName(fa) == "LogIndex" && tp == pkgEvmVM+".TxConfig":
						sinks = append(sinks, sink{fnKey(fn) + " › TxConfig.LogIndex", e.Pos(x.Pos()), x.Val, "logIndex"})
					}
				case ssa.CallInstruction:
					switch {
					case isCallTo(x, CallSpec{pkgEvmKeeper, "Keeper", "SetGasUsedForCurrentTxTransient"}):
						sinks = append(sinks, sink{fnKey(fn) + " › SetGasUsedForCurrentTxTransient", e.Pos(x.Pos()), argOf(x, 1), "perTxGas"})
					case isCallTo(x, CallSpec{pkgEvmKeeper, "Keeper", "SetLogCountForCurrentTxTransient"}):
						sinks = append(sinks, sink{fnKey(fn) + " › SetLogCountForCurrentTxTransient", e.Pos(x.Pos()), argOf(x, 1), "perTxLogs"})
					}
				}
			})
		}
		for _, s := range sinks {
			d := dimsOf(s.val)
			var ok bool
			switch s.kind {
			case "cumGas":
				ok = (d.cumGas || d.perTxGas) && !d.cumLogs && !d.perTxLogs
			case "perTxGas":
				ok = d.perTxGas && !d.cumGas && !d.cumLogs && !d.perTxLogs
			case "perTxLogs":
				ok = d.perTxLogs && !d.cumLogs && !d.cumGas && !d.perTxGas
			case "logIndex":
				ok = (d.cumLogs || d.perTxLogs) && !d.cumGas && !d.perTxGas
			}
			r.Check(ok, s.key, s.pos, "fed by "+d.String(), "the value stored has the wrong dimension ("+d.String()+"): gas and log counters, or per-transaction and cumulative quantities, are mixed — receipts/indices of a multi-transaction block become inconsistent")
		}
	})

	r.Rule("R2", "WRITER-EXISTS", "the logIdx attribute reads receipt.Logs[0].Index, so before the receipt event is built EthereumTx numbers every log of that receipt: Index = GetCumulativeLogCountTransient(ctx, exceptCurrent=true) + position in the receipt", 2, func() {
		ev := callsTo(etx, false, CallSpec{pkgEvmTypes, "", "GetSdkEventForReceipt"})
		if len(ev) != 1 {
			r.Bad("EthereumTx › receipt event", e.Pos(etx.Pos()), "EthereumTx does not build exactly one receipt event")
			return
		}
		rc := resolveLocal(ev[0].Common().Args[0])
		var stores []*ssa.Store
		allInstrs(etx, false, func(_ *ssa.Function, _ *ssa.BasicBlock, i ssa.Instruction) {
			if st, ok := i.(*ssa.Store); ok {
				if fa, ok := st.Addr.(*ssa.FieldAddr); ok && fieldName(fa) == "Index" && namedTypePath(fa.X.Type()) == pkgGethTypes+".Log" {
					stores = append(stores, st)
				}
			}
		})
		if len(stores) == 0 {
			r.Bad("x/evm/keeper.Keeper.EthereumTx › Log.Index writer", e.Pos(etx.Pos()), "no store to Log.Index before the receipt event: every transaction's logs start at index 0 (duplicate log indices within a block)")
			return
		}
		for _, st := range stores {
			fa := st.Addr.(*ssa.FieldAddr)
			// the log comes from ranging the Logs of the receipt handed to the event
			lsl := sliceFrom(fa.X)
			fromReceipt := lsl.HasValue(rc) && hasFieldLoad(lsl, "Receipt", "Logs")
			inLoop := false
			var idxPhi ssa.Value
			for _, l := range loopsOf(etx) {
				if l.Body[st.Block()] {
					inLoop = true
					for _, in := range l.Header.Instrs {
						if p, ok := in.(*ssa.Phi); ok && types.Identical(p.Type().Underlying(), types.Typ[types.Int]) {
							idxPhi = p
						}
					}
				}
			}
			vs := sliceFrom(st.Val)
			var cum *ssa.Call
			for _, c := range vs.Calls() {
				if isCallTo(c, CallSpec{pkgEvmKeeper, "Keeper", "GetCumulativeLogCountTransient"}) {
					cum = c
				}
			}
			okCum := false
			if cum != nil {
				b, isK := constBool(argOf(cum, 1))
				okCum = isK && b
			}
			_, isAdd := resolveLocal(st.Val).(*ssa.BinOp)
			okIdx := idxPhi != nil && (vs.HasValue(idxPhi) || vs.Has(func(v ssa.Value) bool {
				// range-over-slice index: phi + 1 form
				b, ok := v.(*ssa.BinOp)
				return ok && b.Op == token.ADD && (b.X == idxPhi || b.Y == idxPhi)
			}))
			before := dominatesInstr(st, ev[0].(ssa.Instruction)) || reachesFrom(etx, st, ev[0].(ssa.Instruction))
			r.Check(fromReceipt && inLoop && okCum && isAdd && okIdx && before && !reachesFrom(etx, ev[0].(ssa.Instruction), st),
				"x/evm/keeper.Keeper.EthereumTx › Log.Index writer", e.Pos(st.Pos()), "for i, log := range receipt.Logs { log.Index = cumulativeLogCount(exceptCurrent) + i } before the event",
				"the logs of the receipt that feeds the tx_receipt event are not numbered from the block-level log counter (excluding the current transaction) plus their position, before the event is built")
		}
		// reader side
		gs := e.Fn(pkgEvmTypes, "GetSdkEventForReceipt")
		okR := false
		for _, c := range callsTo(gs, false, CallSpec{pkgSdkTypes, "", "NewAttribute"}) {
			if hasFieldLoad(sliceFrom(c.Common().Args[1]), "Log", "Index") {
				okR = true
			}
		}
		r.Check(okR, "GetSdkEventForReceipt › logIdx ← receipt.Logs[0].Index", e.Pos(gs.Pos()), "attribute derives from Log.Index", "the start-log-index attribute is not taken from the first log's index")
	})

	r.Rule("R3", "PAIR+SHAPE", "SetupExecutionContext: once the transaction is counted (IncreaseTxCountTransient) every path records a gas entry and a non-empty assume-failed receipt for it; IncreaseTxCountTransient has no other caller; the per-transaction slots are keyed by txCount−1; the cumulative readers sum the per-index slots over all counted transactions", 7, func() {
		inc := callsTo(sec, false, CallSpec{pkgEvmKeeper, "Keeper", "IncreaseTxCountTransient"})
		sg := callsTo(sec, false, CallSpec{pkgEvmKeeper, "Keeper", "SetGasUsedForCurrentTxTransient"})
		sr := callsTo(sec, false, CallSpec{pkgEvmKeeper, "Keeper", "SetTxReceiptForCurrentTxTransient"})
		ok := len(inc) == 1 && len(sg) == 1 && len(sr) == 1
		if ok {
			for _, ret := range returnsOf(sec) {
				if !passesThrough(sec, ret, inc[0]) || !passesThrough(sec, ret, sg[0]) || !passesThrough(sec, ret, sr[0]) {
					ok = false
				}
			}
			ok = ok && dominatesInstr(inc[0].(ssa.Instruction), sg[0].(ssa.Instruction)) && dominatesInstr(inc[0].(ssa.Instruction), sr[0].(ssa.Instruction))
			// same context for the three
			ok = ok && samePath(argOf(inc[0], 0), argOf(sg[0], 0)) && samePath(argOf(inc[0], 0), argOf(sr[0], 0))
		}
		if ok {
			// the assume-failed receipt's cumulative gas sums the slots INCLUDING the current one: the gas slot must be written before
			// the receipt bytes are computed, not merely before they are stored
			if rc, _ := callOf(resolveLocal(argOf(sr[0], 1))); rc != nil && rc.Parent() == sec {
				if !dominatesInstr(sg[0].(ssa.Instruction), rc) {
					ok = false
				}
			}
			for _, cc := range callsTo(sec, false, CallSpec{pkgEvmKeeper, "Keeper", "getCumulativeGasUsedTransient"}) {
				if !dominatesInstr(sg[0].(ssa.Instruction), cc.(ssa.Instruction)) {
					ok = false
				}
			}
		}
		r.Check(ok, "x/evm/keeper.Keeper.SetupExecutionContext › counted tx gets gas + receipt", e.Pos(sec.Pos()), "Increase → SetGasUsed → (receipt built) → SetTxReceipt on every path, same ctx", "a transaction can be counted without a gas entry or receipt, or its assume-failed receipt is built before its gas slot is written (cumulative gas of a transaction that fails outside execution misses its own gas limit) (EndBlock's GetTxReceiptsTransient panics: chain halt; cumulative gas of later txs wrong)")
		// receipt bytes non-empty: derive from MarshalBinary of a Receipt literal with Status failed
		if len(sr) == 1 {
			secReg := e.privateRegion(sec)
			sl := backSlice(argOf(sr[0], 1), SliceOpts{ThroughCallArgs: alwaysThrough, IntoCallees: func(f *ssa.Function) bool { return f.Parent() == sec || secReg.in[f] }, Depth: 2})
			r.Check(sl.Has(func(v ssa.Value) bool { c, ok := v.(*ssa.Call); return ok && isMethodNamed(c, "MarshalBinary") }), "SetupExecutionContext › receipt bytes = marshalled receipt", e.Pos(sr[0].Pos()), "MarshalBinary of the assume-failed receipt", "the assume-failed receipt stored is not a marshalled receipt")
		}
		n := 0
		for _, cs := range e.repoCallSites(func(c ssa.CallInstruction) bool {
			return isCallTo(c, CallSpec{pkgEvmKeeper, "Keeper", "IncreaseTxCountTransient"})
		}) {
			n++
			r.Check(topFn(cs.Fn) == sec, "who counts transactions › "+fnKey(cs.Fn), e.Pos(cs.Call.Pos()), "only SetupExecutionContext", "IncreaseTxCountTransient is called outside SetupExecutionContext: a counted transaction without receipt/gas slot")
		}
		if n == 0 {
			r.Bad("who counts transactions", e.Pos(sec.Pos()), "no caller of IncreaseTxCountTransient")
		}
		// writer and reader of a slot build their key with the same key function; the three slots use three different ones
		{
			keyFns := func(fn *ssa.Function) []string {
				set := map[string]bool{}
				allInstrs(fn, false, func(_ *ssa.Function, _ *ssa.BasicBlock, in ssa.Instruction) {
					var rands [16]*ssa.Value
					for _, op := range in.Operands(rands[:0]) {
						g, ok := (*op).(*ssa.Function)
						if !ok || g == nil || pkgPathOf(g) != pkgEvmTypes || g.Signature.Params().Len() != 1 || g.Signature.Results().Len() != 1 {
							continue
						}
						if sl, isS := g.Signature.Results().At(0).Type().Underlying().(*types.Slice); isS && types.Identical(sl.Elem(), types.Typ[types.Byte]) {
							set[g.Name()] = true
						}
					}
				})
				var out []string
				for k := range set {
					out = append(out, k)
				}
				sort.Strings(out)
				return out
			}
			used := map[string]string{}
			for _, pr := range [][2]string{
				{"SetGasUsedForCurrentTxTransient", "GetGasUsedForTdxIndexTransient"},
				{"SetLogCountForCurrentTxTransient", "GetCumulativeLogCountTransient"},
				{"SetTxReceiptForCurrentTxTransient", "GetTxReceiptsTransient"},
			} {
				w, rd := keyFns(e.Fn(pkgEvmKeeper, "Keeper."+pr[0])), keyFns(e.Fn(pkgEvmKeeper, "Keeper."+pr[1]))
				okK := len(w) == 1 && len(rd) == 1 && w[0] == rd[0]
				if okK {
					if other, dup := used[w[0]]; dup {
						okK = false
						_ = other
					}
					used[w[0]] = pr[0]
				}
				r.Check(okK, "slot key › "+pr[0]+" ↔ "+pr[1], e.Pos(e.Fn(pkgEvmKeeper, "Keeper."+pr[0]).Pos()), "same key function "+strings.Join(w, ",")+", not shared with another slot", "the writer and the reader of this per-transaction slot do not build their keys with one and the same key function ("+strings.Join(w, ",")+" vs "+strings.Join(rd, ",")+"), or the function is shared with another slot: receipts/gas/log counts are read from a slot that was never written")
			}
		}
		// slot writers keyed by txCount-1
		for _, nm := range []string{"SetGasUsedForCurrentTxTransient", "SetLogCountForCurrentTxTransient", "SetTxReceiptForCurrentTxTransient"} {
			fn := e.Fn(pkgEvmKeeper, "Keeper."+nm)
			ok := false
			isIdx := func(v ssa.Value) bool {
				b, isB := v.(*ssa.BinOp)
				if !isB || b.Op != token.SUB {
					return false
				}
				k, isK := constInt(b.Y)
				cc, _ := callOf(b.X)
				return isK && k == 1 && cc != nil && isCallTo(cc, CallSpec{pkgEvmKeeper, "Keeper", "GetTxCountTransient"})
			}
			for _, c := range callsIn(fn, false, func(c ssa.CallInstruction) bool { return isMethodNamed(c, "Set") }) {
				vs := sliceFrom(c.Common().Args[1])
				d := dimsOf(c.Common().Args[1])
				if sliceFrom(c.Common().Args[0]).Has(isIdx) && vs.HasValue(fn.Params[2]) && !d.cumLogs && !d.cumGas {
					ok = true
				}
			}
			// the store write may sit in a shared unexported helper of the keeper: h(ctx, keyBuilder, value) doing
			// store.Set(keyBuilder(txCount−1), value); the value parameter is bound at this writer's call site
			for _, hc := range callsIn(fn, false, func(c ssa.CallInstruction) bool {
				h := c.Common().StaticCallee()
				return h != nil && h.Blocks != nil && pkgPathOf(h) == pkgEvmKeeper && h.Object() != nil && !h.Object().Exported()
			}) {
				h := hc.Common().StaticCallee()
				for _, c := range callsIn(h, false, func(c ssa.CallInstruction) bool { return isMethodNamed(c, "Set") }) {
					if !sliceFrom(c.Common().Args[0]).Has(isIdx) {
						continue
					}
					vs := sliceFrom(c.Common().Args[1])
					for pi, p := range h.Params {
						if pi >= len(hc.Common().Args) || !vs.HasValue(p) {
							continue
						}
						arg := hc.Common().Args[pi]
						d := dimsOf(arg)
						if sliceFrom(arg).HasValue(fn.Params[2]) && !d.cumLogs && !d.cumGas {
							ok = true
						}
					}
				}
			}
			r.Check(ok, "slot writer › "+nm, e.Pos(fn.Pos()), "store.Set(key(txCount−1), value)", "the per-transaction slot is not keyed by the current transaction's index (txCount−1) or does not store the given value")
		}
		// ApplyMessageWithConfig replaces the assumed (gas limit / failed receipt) slots on EVERY path that produces a result:
		// a transaction that ends with a VM error still has used gas, logs (none) and a receipt of its own
		{
			am := e.Fn(pkgEvmKeeper, "Keeper.ApplyMessageWithConfig")
			okAll := len(successReturns(am)) > 0
			for _, nm := range []string{"SetLogCountForCurrentTxTransient", "SetGasUsedForCurrentTxTransient", "SetTxReceiptForCurrentTxTransient"} {
				cs := callsTo(am, false, CallSpec{pkgEvmKeeper, "Keeper", nm})
				if len(cs) != 1 {
					okAll = false
					continue
				}
				for _, ret := range successReturns(am) {
					if !passesThrough(am, ret, cs[0]) {
						okAll = false
					}
				}
			}
			r.Check(okAll, "x/evm/keeper.Keeper.ApplyMessageWithConfig › every result stores its gas, log count and receipt", e.Pos(am.Pos()), "the three per-transaction slots are written on every success return", "a transaction that produced a result (e.g. one that ended with a VM error) keeps the assumed slots (gas = gas limit, assume-failed receipt): the cumulative gas of every later transaction in the block is inflated")
		}
		// cumulative readers
		for _, sp := range []struct{ fn, elem string }{{"Keeper.GetCumulativeLogCountTransient", "TxLogCountTransientKey"}, {"Keeper.getCumulativeGasUsedTransient", "GetGasUsedForTdxIndexTransient"}} {
			fn := e.Fn(pkgEvmKeeper, sp.fn)
			ok := false
			loops := loopsOf(fn)
			if len(loops) == 1 {
				l := loops[0]
				var ind *ssa.Phi
				// induction variable compared with GetTxCountTransient
				for _, i := range ifs(fn) {
					b, isB := i.Cond.(*ssa.BinOp)
					if !isB || b.Op != token.LSS || !l.Body[i.Block()] {
						continue
					}
					p, isP := b.X.(*ssa.Phi)
					c, _ := callOf(b.Y)
					if isP && c != nil && isCallTo(c, CallSpec{pkgEvmKeeper, "Keeper", "GetTxCountTransient"}) {
						ind = p
					}
				}
				if ind != nil {
					// starts at 0, steps by 1
					okInd := false
					for _, ev := range ind.Edges {
						if k, isK := constInt(ev); isK && k == 0 {
							okInd = true
						}
					}
					// element read keyed by the induction variable and accumulated with +
					for _, ret := range returnsOf(fn) {
						rs := sliceFrom(ret.Results[0])
						acc := rs.Has(func(v ssa.Value) bool {
							b, isB := v.(*ssa.BinOp)
							if !isB || b.Op != token.ADD || !l.Body[b.Block()] {
								return false
							}
							es := sliceFrom(b.Y)
							return es.Has(func(x ssa.Value) bool {
								c, isC := x.(*ssa.Call)
								if !isC {
									return false
								}
								fo := calleeObj(c)
								if fo == nil || fo.Name() != sp.elem {
									return false
								}
								return sliceFrom(c.Call.Args[len(c.Call.Args)-1]).HasValue(ind)
							})
						})
						ok = okInd && acc
					}
				}
			}
			r.Check(ok, "cumulative reader › "+sp.fn, e.Pos(fn.Pos()), "for i := 0; i < txCount; i++ { total += slot(i) }", "the cumulative value is not the sum of the per-transaction slots over all counted transactions")
		}
	})

	r.Rule("R4", "MUST-PASS", "receipt status is Successful exactly on the execResult.Err == nil edge; the contract address is set only for a creation that did not fail and equals CreateAddress(sender, tx nonce); cumulative gas of the receipt = own gas + the gas slots of the preceding transactions (index < TxIndex)", 3, func() {
		var okS, okF bool
		succ := constUint(e, pkgGethTypes, "ReceiptStatusSuccessful")
		fail := constUint(e, pkgGethTypes, "ReceiptStatusFailed")
		var gErrNil []Guard
		for _, i := range ifs(amwc) {
			b, ok := i.Cond.(*ssa.BinOp)
			if !ok || (b.Op != token.EQL && b.Op != token.NEQ) {
				continue
			}
			var o ssa.Value
			if isNilConst(b.Y) {
				o = b.X
			} else if isNilConst(b.X) {
				o = b.Y
			} else {
				continue
			}
			if fv := fieldVarOfLoad(o); fv != nil && fv.Name() == "Err" {
				s := 0
				if b.Op == token.NEQ {
					s = 1
				}
				gErrNil = append(gErrNil, Guard{If: i, Survive: s})
			}
		}
		allInstrs(amwc, false, func(_ *ssa.Function, _ *ssa.BasicBlock, i ssa.Instruction) {
			st, ok := i.(*ssa.Store)
			if !ok {
				return
			}
			fa, ok := st.Addr.(*ssa.FieldAddr)
			if !ok || fieldName(fa) != "Status" || namedTypePath(fa.X.Type()) != pkgGethTypes+".Receipt" {
				return
			}
			k, isK := constInt(st.Val)
			if !isK {
				okS, okF = false, false
				return
			}
			if k == succ {
				okS = mustPass(amwc, st, gErrNil)
			} else if k == fail && st.Block() != amwc.Blocks[0] {
				var neg []Guard
				for _, g := range gErrNil {
					neg = append(neg, Guard{If: g.If, Survive: 1 - g.Survive})
				}
				okF = mustPass(amwc, st, neg)
			}
		})
		r.Check(okS && okF, "ApplyMessageWithConfig › status ⇔ execResult.Err == nil", e.Pos(amwc.Pos()), "Successful only when Err == nil, Failed only when Err != nil", "the receipt status does not follow the EVM execution error")
		okC, okOwn := cumulativeGasShape(e)
		r.Check(okC && okOwn, "ApplyMessageWithConfig › cumulative gas = own + Σ previous slots", e.Pos(amwc.Pos()), "gasUsed + Σ_{i<TxIndex} slot(i)", "the receipt's cumulative gas is not this transaction's gas plus the gas slots of the transactions before it")
		// contract address in EthereumTx
		var caStores []*ssa.Store
		allInstrs(etx, false, func(_ *ssa.Function, _ *ssa.BasicBlock, i ssa.Instruction) {
			if st, ok := i.(*ssa.Store); ok {
				if fa, ok := st.Addr.(*ssa.FieldAddr); ok && fieldName(fa) == "ContractAddress" {
					caStores = append(caStores, st)
				}
			}
		})
		okCA := len(caStores) == 1
		if okCA {
			st := caStores[0]
			c, _ := callOf(st.Val)
			okCA = c != nil && isCallTo(c, CallSpec{GETH + "/crypto", "", "CreateAddress"})
			if okCA {
				a0, a1 := sliceFrom(c.Call.Args[0]), sliceFrom(c.Call.Args[1])
				okCA = hasFieldLoad(a0, "MsgEthereumTx", "From") && a1.Has(func(v ssa.Value) bool {
					cc, ok := v.(*ssa.Call)
					return ok && isCallTo(cc, CallSpec{pkgGethTypes, "Transaction", "Nonce"})
				})
			}
			gTo := eqGuards(etx, true, func(v ssa.Value) bool {
				c, _ := callOf(v)
				return c != nil && isCallTo(c, CallSpec{pkgGethTypes, "Transaction", "To"})
			}, isNilConst)
			gOk := boolCallGuards(etx, false, func(c *ssa.Call) bool { return isMethodNamed(c, "Failed") })
			okCA = okCA && mustPass(etx, st, gTo) && mustPass(etx, st, gOk)
		}
		r.Check(okCA, "EthereumTx › contract address", e.Pos(etx.Pos()), "To()==nil ∧ !Failed() → CreateAddress(sender, nonce)", "the receipt's contract address is set for a non-creation or failed transaction, or is not CreateAddress(sender, tx nonce)")
	})

	r.Rule("R5", "PROVENANCE", "receipt bloom = CreateBloom(Receipts{&receipt}) computed after the receipt's logs are set; the block bloom emitted at EndBlock = CreateBloom(all receipts of the block's transient store)", 2, func() {
		ok := false
		for _, c := range callsTo(amwc, false, CallSpec{pkgGethTypes, "", "CreateBloom"}) {
			// result stored into receipt.Bloom; argument contains the same receipt
			var target *ssa.FieldAddr
			if c.(*ssa.Call).Referrers() != nil {
				for _, rr := range *c.(*ssa.Call).Referrers() {
					if st, isSt := rr.(*ssa.Store); isSt {
						if fa, isFa := st.Addr.(*ssa.FieldAddr); isFa && fieldName(fa) == "Bloom" {
							target = fa
						}
					}
				}
			}
			if target == nil {
				continue
			}
			if !sliceFrom(c.Common().Args[0]).HasValue(target.X) {
				continue
			}
			// the Logs store precedes
			okLogs := false
			allInstrs(amwc, false, func(_ *ssa.Function, _ *ssa.BasicBlock, i ssa.Instruction) {
				if st, isSt := i.(*ssa.Store); isSt {
					if fa, isFa := st.Addr.(*ssa.FieldAddr); isFa && fieldName(fa) == "Logs" && fa.X == target.X {
						if dominatesInstr(st, c.(ssa.Instruction)) && hasMethodCall(sliceFrom(st.Val), "GetTransactionLogs") {
							okLogs = true
						}
					}
				}
			})
			ok = okLogs
		}
		r.Check(ok, "ApplyMessageWithConfig › bloom of the receipt's own logs", e.Pos(amwc.Pos()), "Logs ← stateDB.GetTransactionLogs(); Bloom ← CreateBloom({&receipt})", "the receipt bloom is not computed from the receipt's logs after they are set")
		eb := e.Fn(pkgEvmKeeper, "Keeper.EndBlock")
		okE := false
		for _, c := range callsTo(eb, false, CallSpec{pkgEvmKeeper, "Keeper", "EmitBlockBloomEvent"}) {
			sl := sliceFrom(argOf(c, 1))
			okE = sl.HasCall(CallSpec{pkgGethTypes, "", "CreateBloom"}) && sl.HasCall(CallSpec{pkgEvmKeeper, "Keeper", "GetTxReceiptsTransient"})
		}
		r.Check(okE, "evm EndBlock › block bloom", e.Pos(eb.Pos()), "EmitBlockBloomEvent(CreateBloom(GetTxReceiptsTransient(ctx)))", "the block bloom is not the bloom of the block's receipts")
	})

	r.Rule("R6", "PROVENANCE", "the transaction index used by the receipt (EthereumTx), by the ethereum_tx ante event and by NewTxConfig all derive from GetTxCountTransient(ctx) − 1", 3, func() {
		isIdx := func(v ssa.Value) bool {
			return sliceFrom(v).Has(func(x ssa.Value) bool {
				b, ok := x.(*ssa.BinOp)
				if !ok || b.Op != token.SUB {
					return false
				}
				k, isK := constInt(b.Y)
				c, _ := callOf(b.X)
				return isK && k == 1 && c != nil && isMethodNamed(c, "GetTxCountTransient")
			})
		}
		okE := false
		allInstrs(etx, false, func(_ *ssa.Function, _ *ssa.BasicBlock, i ssa.Instruction) {
			if st, ok := i.(*ssa.Store); ok {
				if fa, ok := st.Addr.(*ssa.FieldAddr); ok && fieldName(fa) == "TransactionIndex" {
					okE = isIdx(st.Val)
				}
			}
		})
		r.Check(okE, "EthereumTx › receipt.TransactionIndex", e.Pos(etx.Pos()), "GetTxCountTransient(ctx) − 1", "the receipt's transaction index is not the Ethereum transaction counter − 1")
		okN := false
		allInstrs(ntc, false, func(_ *ssa.Function, _ *ssa.BasicBlock, i ssa.Instruction) {
			if st, ok := i.(*ssa.Store); ok {
				if fa, ok := st.Addr.(*ssa.FieldAddr); ok && fieldName(fa) == "TxIndex" {
					okN = isIdx(st.Val)
				}
			}
		})
		r.Check(okN, "NewTxConfig › TxIndex", e.Pos(ntc.Pos()), "GetTxCountTransient(ctx) − 1", "TxConfig.TxIndex is not the Ethereum transaction counter − 1")
		em := e.Fn(pkgEvmLane, "ELEmitEventDecorator.AnteHandle")
		okA := false
		txIdxKey := e.Obj(pkgEvmTypes, "AttributeKeyTxIndex")
		for _, c := range callsTo(em, false, CallSpec{pkgSdkTypes, "", "NewAttribute"}) {
			if k, ok := constString(c.Common().Args[0]); ok {
				if kc, isC := txIdxKey.(*types.Const); isC && k == constStringVal(kc) && isIdx(c.Common().Args[1]) {
					okA = true
				}
			}
		}
		r.Check(okA, "ELEmitEventDecorator › txIndex attribute", e.Pos(em.Pos()), "GetTxCountTransient(ctx) − 1", "the ethereum_tx event's index is not the Ethereum transaction counter − 1")
	})

	r.Rule("R8", "CENSUS-ORDER", "the current transaction index (GetTxCountTransient − 1) is used only after the transaction was counted: every ante decorator that reads the transaction counter — directly or through an EVM-keeper accessor keyed by it — is placed after the decorator that calls SetupExecutionContext", 1, func() {
		n, probs := txIndexUsedOnlyAfterCounting(e)
		r.Check(len(probs) == 0 && n > 0, "ante chain › tx index used only after counting", e.Pos(sec.Pos()), itoa(n)+" counter-dependent decorator(s), all after SetupExecutionContext", "a per-transaction value is keyed by the transaction index before the transaction is counted (it lands under the previous transaction's index and is looked up under the next one): "+strings.Join(probs, "; "))
	})

	r.Rule("R7", "KEY-INJECTIVE", "the per-transaction transient slots (gas, log count, receipt) are keyed injectively by the transaction index: prefix ‖ big-endian index, nothing truncated, nothing dropped", 3, func() {
		e.checkKeyBuilders(r, pkgEvmTypes, []string{"TxGasTransientKey", "TxLogCountTransientKey", "TxReceiptTransientKey"}, "two transactions of a block share one slot: a receipt, gas or log count of one overwrites the other's")
	})
}

func hasMethodCall(s *Slice, name string) bool {
	return s.Has(func(v ssa.Value) bool { c, ok := v.(*ssa.Call); return ok && isMethodNamed(c, name) })
}

// cumulativeGasShape: in ApplyMessageWithConfig the receipt's cumulative gas is this transaction's own gas plus the gas
// slots of the transactions before it (loop over index < TxConfig.TxIndex). Shared by C13-R4 and C05-R7.
func cumulativeGasShape(e *Engine) (loopOK, ownOK bool) {
	amwc := e.Fn(pkgEvmKeeper, "Keeper.ApplyMessageWithConfig")
	reg := e.privateRegion(amwc) // the summation may live in a single-site private helper
	for _, f := range reg.Fns {
		for _, l := range loopsOf(f) {
			for _, i := range ifs(f) {
				b, isB := i.Cond.(*ssa.BinOp)
				if !isB || b.Op != token.LSS || !l.Body[i.Block()] {
					continue
				}
				if hasFieldLoad(reg.Slice(b.Y), "TxConfig", "TxIndex") {
					loopOK = true
				}
			}
		}
	}
	allInstrs(amwc, false, func(_ *ssa.Function, _ *ssa.BasicBlock, i ssa.Instruction) {
		if st, ok := i.(*ssa.Store); ok {
			if fa, ok := st.Addr.(*ssa.FieldAddr); ok && fieldName(fa) == "CumulativeGasUsed" {
				sl := backSlice(st.Val, SliceOpts{ThroughCallArgs: alwaysThrough, IntoCallees: func(f *ssa.Function) bool { return reg.in[f] }, Depth: 3})
				ownOK = hasFieldLoad(sl, "ExecutionResult", "UsedGas") && sl.HasCall(CallSpec{pkgEvmKeeper, "Keeper", "GetGasUsedForTdxIndexTransient"})
			}
		}
	})
	return
}

// txIndexUsedOnlyAfterCounting (shared by C13-R8 and C05-R8): the "current transaction index" is GetTxCountTransient(ctx) − 1 and is
// meaningful only once the transaction has been counted by SetupExecutionContext (IncreaseTxCountTransient). Every ante
// decorator that (transitively, inside the EVM keeper) reads the transaction counter must therefore sit AFTER the decorator
// that calls SetupExecutionContext in the chain; a per-transaction value keyed by that index from an earlier decorator is
// written under the previous transaction's index and read under the next one.
func txIndexUsedOnlyAfterCounting(e *Engine) (checked int, problems []string) {
	ds := decoratorCensus(e)
	indexChain(ds, chainLiteral(e))
	setupExec := decoratorCalling(ds, "evm", CallSpec{pkgEvmKeeper, "Keeper", "SetupExecutionContext"})
	if setupExec == nil || setupExec.Index < 0 {
		return 0, []string{"the decorator calling SetupExecutionContext is not in the chain"}
	}
	// keeper functions that reach the counter through static calls inside the keeper package
	reads := map[*ssa.Function]bool{}
	for _, nm := range []string{"Keeper.GetTxCountTransient", "Keeper.GetRawTxCountTransient"} {
		if f := e.TryFn(pkgEvmKeeper, nm); f != nil {
			reads[f] = true
		}
	}
	kfs := e.SrcFuncs(func(p string) bool { return p == pkgEvmKeeper })
	for changed := true; changed; {
		changed = false
		for _, f := range kfs {
			if reads[f] || f.Parent() != nil {
				continue
			}
			if f.Name() == "SetupExecutionContext" || f.Name() == "IncreaseTxCountTransient" {
				continue // the counting step itself
			}
			for _, c := range callsIn(f, true, func(ssa.CallInstruction) bool { return true }) {
				if sc := c.Common().StaticCallee(); sc != nil && reads[sc] {
					reads[f] = true
					changed = true
					break
				}
			}
		}
	}
	for _, d := range ds {
		if d.Index < 0 || d == setupExec {
			continue
		}
		var used []string
		for _, c := range callsIn(d.Fn, true, func(ssa.CallInstruction) bool { return true }) {
			if sc := c.Common().StaticCallee(); sc != nil && reads[sc] {
				used = append(used, sc.Name())
			}
		}
		if len(used) == 0 {
			continue
		}
		checked++
		if d.Index < setupExec.Index {
			sort.Strings(used)
			problems = append(problems, d.Name()+" (position "+itoa(d.Index)+", before "+setupExec.Name()+" at "+itoa(setupExec.Index)+") depends on the transaction counter through "+strings.Join(dedup(used), ", "))
		}
	}
	sort.Strings(problems)
	return
}

// setupExecGasBeforeReceipt (shared by C13-R3 and C05-R7): in SetupExecutionContext the current transaction's gas slot is written
// before the assume-failed receipt (whose cumulative gas sums the slots including the current one) is computed.
func setupExecGasBeforeReceipt(e *Engine) bool {
	sec := e.Fn(pkgEvmKeeper, "Keeper.SetupExecutionContext")
	sg := callsTo(sec, false, CallSpec{pkgEvmKeeper, "Keeper", "SetGasUsedForCurrentTxTransient"})
	sr := callsTo(sec, false, CallSpec{pkgEvmKeeper, "Keeper", "SetTxReceiptForCurrentTxTransient"})
	if len(sg) != 1 || len(sr) != 1 {
		return false
	}
	if rc, _ := callOf(resolveLocal(argOf(sr[0], 1))); rc != nil && rc.Parent() == sec {
		if !dominatesInstr(sg[0].(ssa.Instruction), rc) {
			return false
		}
	}
	for _, cc := range callsTo(sec, false, CallSpec{pkgEvmKeeper, "Keeper", "getCumulativeGasUsedTransient"}) {
		if !dominatesInstr(sg[0].(ssa.Instruction), cc.(ssa.Instruction)) {
			return false
		}
	}
	return true
}

package main

import (
	"fmt"
	"go/token"
	"go/types"
	"sort"
	"strings"

	"golang.org/x/tools/go/callgraph"
	"golang.org/x/tools/go/ssa"
)

// Effect kinds
const (
	EffStore  = "store-write"
	EffEvent  = "event"
	EffLog    = "evm-log"
	EffGlobal = "global-write"
)

// EffectEngine answers "may function f reach an effect sink" over the VTA call graph.
type EffectEngine struct {
	e        *Engine
	g        *callgraph.Graph
	kvIfaces []*types.Interface
	sinkMemo map[*ssa.Function]string
	trusted  []string
}

// trustedEffectFree: packages never entered by the search (std formatting/encoding, logging, telemetry, protobuf, abi/rlp/crypto).
var trustedEffectFree = []string{
	"fmt", "strings", "strconv", "sort", "slices", "maps", "bytes", "errors", "math", "math/big", "math/bits", "unicode", "unicode/utf8",
	"encoding/", "reflect", "sync", "sync/atomic", "time", "regexp", "io", "bufio", "os", "runtime", "log", "text/", "hash", "crypto/", "container/",
	"cosmossdk.io/log", "cosmossdk.io/errors", "cosmossdk.io/math",
	"github.com/cosmos/cosmos-sdk/telemetry", "github.com/hashicorp/go-metrics", "github.com/armon/go-metrics", "github.com/prometheus/",
	"github.com/cosmos/gogoproto", "google.golang.org/protobuf", "github.com/golang/protobuf", "github.com/cosmos/cosmos-proto",
	"github.com/rs/zerolog", "github.com/cometbft/cometbft/libs/log",
	GETH + "/accounts/abi", GETH + "/rlp", GETH + "/crypto", GETH + "/common", GETH + "/log",
	"github.com/holiman/uint256", "golang.org/x/crypto", "github.com/btcsuite/", "github.com/decred/",
	"github.com/cosmos/cosmos-sdk/codec", "github.com/cosmos/cosmos-sdk/types/bech32", "github.com/cosmos/btcutil",
	"github.com/tidwall/btree", "github.com/cosmos/iavl", "github.com/cosmos/cosmos-db", "github.com/syndtr/goleveldb", "github.com/linxGnu/grocksdb",
	"cosmossdk.io/store/cachekv/internal", "cosmossdk.io/store/internal",
}

func (e *Engine) Effects() *EffectEngine {
	ee := &EffectEngine{e: e, g: e.VTA(), sinkMemo: map[*ssa.Function]string{}, trusted: trustedEffectFree}
	for _, q := range [][2]string{{"cosmossdk.io/store/types", "KVStore"}, {"cosmossdk.io/core/store", "KVStore"}} {
		if e.HasPkg(q[0]) {
			ee.kvIfaces = append(ee.kvIfaces, e.Iface(q[0], q[1]))
		}
	}
	if len(ee.kvIfaces) == 0 {
		undecidedf("no KVStore interface found in the loaded program")
	}
	return ee
}

// isRouter: the SDK's reflective message/query routers. They are never traversed: func-typed handler slots make every
// gRPC handler of matching signature a callee. Instead every MsgServer / QueryServer implementer of the repository is a root.
func isRouter(fn *ssa.Function) bool {
	top := fn
	for top.Parent() != nil {
		top = top.Parent()
	}
	if top.Pkg == nil || top.Pkg.Pkg.Path() != SDK+"/baseapp" {
		return false
	}
	if rn := recvNamedOfSig(top.Signature); rn != nil {
		n := rn.Obj().Name()
		return n == "MsgServiceRouter" || n == "GRPCQueryRouter"
	}
	return false
}

func (ee *EffectEngine) isTrusted(fn *ssa.Function) bool {
	if isRouter(fn) {
		return true
	}
	if fn.Pkg == nil {
		// synthetic wrappers / instantiations: decide by the origin's package
		if o := fn.Origin(); o != nil && o.Pkg != nil {
			return ee.pathTrusted(o.Pkg.Pkg.Path())
		}
		if fn.Object() != nil && fn.Object().Pkg() != nil {
			return ee.pathTrusted(fn.Object().Pkg().Path())
		}
		return false
	}
	return ee.pathTrusted(fn.Pkg.Pkg.Path())
}

func (ee *EffectEngine) pathTrusted(p string) bool {
	for _, t := range ee.trusted {
		if p == t || strings.HasPrefix(p, t) && (strings.HasSuffix(t, "/") || strings.HasPrefix(p, t+"/")) {
			return true
		}
	}
	return false
}

// sinkKind: "" if fn is not an effect sink.
func (ee *EffectEngine) sinkKind(fn *ssa.Function) string {
	if k, ok := ee.sinkMemo[fn]; ok {
		return k
	}
	k := ee.sinkKind0(fn)
	ee.sinkMemo[fn] = k
	return k
}

func (ee *EffectEngine) sinkKind0(fn *ssa.Function) string {
	f := fn
	if o := fn.Origin(); o != nil {
		f = o
	}
	sig := f.Signature
	if sig.Recv() == nil {
		return ""
	}
	name := f.Name()
	rt := sig.Recv().Type()
	switch name {
	case "Set", "Delete":
		for _, ki := range ee.kvIfaces {
			if types.Implements(rt, ki) {
				return EffStore
			}
			if _, isPtr := rt.(*types.Pointer); !isPtr && types.Implements(types.NewPointer(rt), ki) {
				return EffStore
			}
		}
	case "EmitEvent", "EmitEvents", "EmitTypedEvent", "EmitTypedEvents":
		if strings.HasSuffix(namedTypePath(rt), "cosmos-sdk/types.EventManager") {
			return EffEvent
		}
	case "AddLog":
		// any implementation of corevm.StateDB.AddLog
		if f.Pkg != nil && (f.Pkg.Pkg.Path() == pkgEvmVM || strings.HasPrefix(f.Pkg.Pkg.Path(), GETH+"/core/state")) {
			return EffLog
		}
	}
	return ""
}

// EffectHit is one reachable sink with the call path that reaches it.
type EffectHit struct {
	Kind string
	Sink *ssa.Function
	Path []string
}

type EffectOpts struct {
	Kinds      map[string]bool            // nil = store, event, log
	SkipEdge   func(*callgraph.Edge) bool // extra edges not to follow
	StopAt     func(*ssa.Function) bool   // functions not to enter (treated as effect-free by another obligation)
	MaxHits    int
	NoIsolated bool // if true, do not apply the CacheContext isolation exemption
}

// Reach searches the call graph from root (BFS, shortest paths) for effect sinks.
func (ee *EffectEngine) Reach(root *ssa.Function, o EffectOpts) []EffectHit {
	if o.MaxHits == 0 {
		o.MaxHits = 3
	}
	want := func(k string) bool {
		if o.Kinds == nil {
			return k == EffStore || k == EffEvent || k == EffLog
		}
		return o.Kinds[k]
	}
	start := ee.g.Nodes[root]
	if start == nil {
		return nil
	}
	type item struct {
		n    *callgraph.Node
		prev *item
		via  *callgraph.Edge
	}
	seen := map[*callgraph.Node]bool{start: true}
	queue := []*item{{n: start}}
	var hits []EffectHit
	hitSinks := map[*ssa.Function]bool{}
	for len(queue) > 0 && len(hits) < o.MaxHits {
		it := queue[0]
		queue = queue[1:]
		// deterministic edge order
		edges := append([]*callgraph.Edge(nil), it.n.Out...)
		sort.SliceStable(edges, func(i, j int) bool {
			pi, pj := token.NoPos, token.NoPos
			if edges[i].Site != nil {
				pi = edges[i].Site.Pos()
			}
			if edges[j].Site != nil {
				pj = edges[j].Site.Pos()
			}
			if pi != pj {
				return pi < pj
			}
			return edges[i].Callee.Func.String() < edges[j].Callee.Func.String()
		})
		for _, ed := range edges {
			callee := ed.Callee
			if seen[callee] {
				continue
			}
			if o.SkipEdge != nil && o.SkipEdge(ed) {
				continue
			}
			if !o.NoIsolated && ed.Site != nil && isolatedCall(ed.Site) {
				continue
			}
			seen[callee] = true
			cf := callee.Func
			if k := ee.sinkKind(cf); k != "" {
				if want(k) && !hitSinks[cf] {
					hitSinks[cf] = true
					nit := &item{n: callee, prev: it, via: ed}
					var path []string
					for x := nit; x != nil && x.via != nil; x = x.prev {
						site := "?"
						if x.via.Site != nil {
							site = ee.e.Pos(x.via.Site.Pos())
						}
						path = append([]string{fmt.Sprintf("%s → %s  (call at %s)", fnKey(x.via.Caller.Func), fnKey(x.via.Callee.Func), site)}, path...)
					}
					hits = append(hits, EffectHit{Kind: k, Sink: cf, Path: path})
					if len(hits) >= o.MaxHits {
						break
					}
				}
				continue // never expand below a sink
			}
			if ee.isTrusted(cf) {
				continue
			}
			if o.StopAt != nil && o.StopAt(cf) {
				continue
			}
			queue = append(queue, &item{n: callee, prev: it, via: ed})
		}
	}
	return hits
}

// ReachSet returns every function reachable from the roots (same pruning as Reach, but sinks are included and not expanded).
func (ee *EffectEngine) ReachSet(roots []*ssa.Function, o EffectOpts) map[*ssa.Function]bool {
	seen := map[*callgraph.Node]bool{}
	out := map[*ssa.Function]bool{}
	var queue []*callgraph.Node
	for _, r := range roots {
		if n := ee.g.Nodes[r]; n != nil && !seen[n] {
			seen[n] = true
			out[r] = true
			queue = append(queue, n)
		}
	}
	for len(queue) > 0 {
		n := queue[0]
		queue = queue[1:]
		for _, ed := range n.Out {
			c := ed.Callee
			if seen[c] {
				continue
			}
			if o.SkipEdge != nil && o.SkipEdge(ed) {
				continue
			}
			if !o.NoIsolated && ed.Site != nil && isolatedCall(ed.Site) {
				continue
			}
			seen[c] = true
			out[c.Func] = true
			if ee.sinkKind(c.Func) != "" || ee.isTrusted(c.Func) {
				continue
			}
			if o.StopAt != nil && o.StopAt(c.Func) {
				continue
			}
			queue = append(queue, c)
		}
	}
	return out
}

// isolatedCall: the call passes an sdk.Context that is result #0 of ctx.CacheContext() whose write closure (#1) is discarded:
// store writes and events made under it can never reach the parent context.
func isolatedCall(site ssa.CallInstruction) bool {
	cc := site.Common()
	var ops []ssa.Value
	if cc.IsInvoke() {
		ops = append(ops, cc.Value)
	}
	ops = append(ops, cc.Args...)
	for _, a := range ops {
		if !isSdkContext(a.Type()) && namedTypePath(a.Type()) != "context.Context" {
			continue
		}
		if isDiscardedCacheCtx(a) {
			return true
		}
	}
	return false
}

// isDiscardedCacheCtx: v is Extract #0 of a CacheContext() call whose Extract #1 does not exist or has no referrers.
func isDiscardedCacheCtx(v ssa.Value) bool {
	v = strip(v)
	ex, ok := v.(*ssa.Extract)
	if !ok || ex.Index != 0 {
		return false
	}
	call, ok := ex.Tuple.(*ssa.Call)
	if !ok || !isCallTo(call, CallSpec{pkgSdkTypes, "Context", "CacheContext"}) {
		return false
	}
	refs := call.Referrers()
	if refs == nil {
		return true
	}
	for _, r := range *refs {
		if e2, ok := r.(*ssa.Extract); ok && e2.Index == 1 {
			if rr := e2.Referrers(); rr != nil && len(*rr) > 0 {
				return false
			}
		}
	}
	return true
}

func describeHits(hits []EffectHit) (string, []string) {
	if len(hits) == 0 {
		return "", nil
	}
	var kinds []string
	for _, h := range hits {
		kinds = append(kinds, h.Kind+" "+fnKey(h.Sink))
	}
	return strings.Join(kinds, "; "), hits[0].Path
}

// WhyReach returns one call path from any root to target (debugging / reports).
func (ee *EffectEngine) WhyReach(roots []*ssa.Function, target *ssa.Function, o EffectOpts) []string {
	type item struct {
		n    *callgraph.Node
		prev *item
		via  *callgraph.Edge
	}
	seen := map[*callgraph.Node]bool{}
	var queue []*item
	for _, r := range roots {
		if n := ee.g.Nodes[r]; n != nil && !seen[n] {
			seen[n] = true
			queue = append(queue, &item{n: n})
		}
	}
	for len(queue) > 0 {
		it := queue[0]
		queue = queue[1:]
		if it.n.Func == target {
			var path []string
			for x := it; x != nil && x.via != nil; x = x.prev {
				site := "?"
				if x.via.Site != nil {
					site = ee.e.Pos(x.via.Site.Pos())
				}
				path = append([]string{fmt.Sprintf("%s → %s  (call at %s)", fnKey(x.via.Caller.Func), fnKey(x.via.Callee.Func), site)}, path...)
			}
			if len(path) == 0 {
				path = []string{"root " + fnKey(target)}
			}
			return path
		}
		for _, ed := range it.n.Out {
			c := ed.Callee
			if seen[c] {
				continue
			}
			if !o.NoIsolated && ed.Site != nil && isolatedCall(ed.Site) {
				continue
			}
			seen[c] = true
			if ee.sinkKind(c.Func) != "" || ee.isTrusted(c.Func) {
				if c.Func != target {
					continue
				}
			}
			queue = append(queue, &item{n: c, prev: it, via: ed})
		}
	}
	return nil
}

package main

import (
	"fmt"
	"go/token"
	"go/types"
	"sort"
	"strings"

	"golang.org/x/tools/go/ssa"
)

func init() { registry["C19"] = checkC19 }

const (
	pkgEthSecp  = EV + "/crypto/ethsecp256k1"
	pkgCryptoHd = EV + "/crypto/hd"
	pkgEip712   = EV + "/ethereum/eip712"
	pkgGethCry  = GETH + "/crypto"
	pkgHdChain  = "github.com/btcsuite/btcd/btcutil/hdkeychain"
)

func checkC19(e *Engine, r *Report) {
	e.BuildSSA()
	r.NotDecided("binding / injectivity of addresses, signatures and derived keys as statements about the values of Keccak-256, secp256k1 and HMAC-SHA512 (cryptographic assumptions, not decidable from the shape of the code)")
	r.NotDecided("EIP-712 typed-data hashing itself (go-ethereum signer/core/apitypes, trusted)")
	r.Assumption("btcutil/hdkeychain.ExtendedKey.Derive is the BIP-32 child derivation; DeriveNonStandard is the known non-conforming variant (does not left-pad short parent keys)")

	r.Rule("R1", "MUST-PASS", "PubKey.VerifySignature accepts only through go-ethereum's crypto.VerifySignature(pubKey.Key, Keccak256(X), sig) with X the signed bytes themselves or their EIP-712 rendering GetEIP712BytesForMsg(msg); a failed EIP-712 rendering rejects; Address() is PubkeyToAddress(DecompressPubkey(Key))", 4, func() {
		vs := e.Fn(pkgEthSecp, "PubKey.VerifySignature")
		ec := e.Fn(pkgEthSecp, "PubKey.verifySignatureECDSA")
		ep := e.Fn(pkgEthSecp, "PubKey.verifySignatureAsEIP712")
		// verifySignatureECDSA: the only source of its result is crypto.VerifySignature(Key, Keccak256Hash(msg), sig)
		okE := false
		for _, ret := range returnsOf(ec) {
			c, _ := callOf(ret.Results[0])
			if c == nil || !isCallTo(c, CallSpec{pkgGethCry, "", "VerifySignature"}) {
				okE = false
				break
			}
			a := c.Call.Args
			k, h, s := sliceFrom(a[0]), sliceFrom(a[1]), sliceFrom(a[2])
			okE = hasFieldLoad(k, "PubKey", "Key") && (h.HasCall(CallSpec{pkgGethCry, "", "Keccak256Hash"}) || h.HasCall(CallSpec{pkgGethCry, "", "Keccak256"})) && h.HasValue(ec.Params[1]) && !h.HasValue(ec.Params[2]) && s.HasValue(ec.Params[2]) && !s.HasValue(ec.Params[1])
			// the message reaches the digest ONLY through the hash: no alternative (φ edge, branch) hands the caller's bytes to
			// the verifier as a ready-made digest
			if okE && reachesWithout(a[1], ec.Params[1], func(v ssa.Value) bool {
				c, ok := v.(*ssa.Call)
				return ok && (isCallTo(c, CallSpec{pkgGethCry, "", "Keccak256Hash"}) || isCallTo(c, CallSpec{pkgGethCry, "", "Keccak256"}))
			}) {
				okE = false
			}
			if !okE {
				break
			}
		}
		r.Check(okE, "crypto/ethsecp256k1.PubKey.verifySignatureECDSA › crypto.VerifySignature(Key, Keccak256(msg), sig)", e.Pos(ec.Pos()), "single accepting path through go-ethereum's verifier over the Keccak-256 of the message", "a signature can be accepted without go-ethereum's verifier checking it against this key and the hash of this message")
		// VerifySignature = ECDSA(msg) || EIP712(msg): every true origin is a result of one of the two helpers on (msg, sig)
		okV := true
		n := 0
		// `if helper(msg, sig) { return true }`: a constant true is acceptable in a block that only the true edge of such a test reaches
		gHelper := boolCallGuards(vs, true, func(c *ssa.Call) bool {
			return (c.Call.StaticCallee() == ec || c.Call.StaticCallee() == ep) &&
				resolveLocal(c.Call.Args[1]) == ssa.Value(vs.Params[1]) && resolveLocal(c.Call.Args[2]) == ssa.Value(vs.Params[2])
		})
		var at *ssa.BasicBlock
		var visit func(v ssa.Value, depth int)
		visit = func(v ssa.Value, depth int) {
			if b, isK := constBool(v); isK {
				if b {
					under := false
					for _, g := range gHelper {
						if at != nil && blockDominatedByEdge(vs, at, g) {
							under = true
						}
					}
					if under {
						n++
					} else {
						okV = false
					}
				}
				return
			}
			if phi, ok := v.(*ssa.Phi); ok && depth < 5 {
				for k, ev := range phi.Edges {
					if b, isK := constBool(ev); isK && b {
						// short-circuit `a || b`: the constant true comes from the true edge of `if a`
						pred := phi.Block().Preds[k]
						i, isIf := lastIf(pred)
						c, _ := callOf(condOf(i, isIf))
						if isIf && c != nil && (c.Call.StaticCallee() == ec || c.Call.StaticCallee() == ep) && pred.Succs[0] == phi.Block() &&
							resolveLocal(c.Call.Args[1]) == ssa.Value(vs.Params[1]) && resolveLocal(c.Call.Args[2]) == ssa.Value(vs.Params[2]) {
							n++
							continue
						}
						okV = false
						continue
					}
					visit(ev, depth+1)
				}
				return
			}
			c, _ := callOf(v)
			if c == nil || !(c.Call.StaticCallee() == ec || c.Call.StaticCallee() == ep) {
				okV = false
				return
			}
			n++
			if resolveLocal(c.Call.Args[1]) != ssa.Value(vs.Params[1]) || resolveLocal(c.Call.Args[2]) != ssa.Value(vs.Params[2]) {
				okV = false
			}
		}
		for _, ret := range returnsOf(vs) {
			at = ret.Block()
			visit(ret.Results[0], 0)
		}
		r.Check(okV && n >= 1, "PubKey.VerifySignature › accepts only via the ECDSA / EIP-712 checks of (msg, sig)", e.Pos(vs.Pos()), "verifySignatureECDSA(msg, sig) || verifySignatureAsEIP712(msg, sig)", "VerifySignature can return true on a path that did not verify this (message, signature) pair")
		// EIP-712 path
		okP := false
		gb := callsTo(ep, false, CallSpec{pkgEip712, "", "GetEIP712BytesForMsg"})
		if len(gb) == 1 && resolveLocal(gb[0].Common().Args[0]) == ssa.Value(ep.Params[1]) {
			okP = true
			for _, ret := range returnsOf(ep) {
				if b, isK := constBool(ret.Results[0]); isK {
					if b {
						okP = false
					}
					continue
				}
				c, _ := callOf(ret.Results[0])
				if c == nil || c.Call.StaticCallee() != ec || !sliceFrom(c.Call.Args[1]).HasValue(gb[0].(ssa.Value)) || resolveLocal(c.Call.Args[2]) != ssa.Value(ep.Params[2]) {
					okP = false
				}
				// only on the err == nil edge
				var gs []Guard
				for _, g := range errNilGuards(ep, func(x *ssa.Call) bool { return ssa.CallInstruction(x) == gb[0] }) {
					gs = append(gs, g)
				}
				if !mustPass(ep, ret, gs) {
					okP = false
				}
			}
		}
		r.Check(okP, "PubKey.verifySignatureAsEIP712 › ECDSA over GetEIP712BytesForMsg(msg)", e.Pos(ep.Pos()), "rendering error ⇒ false; else verify the rendering with the same signature", "the EIP-712 path verifies something other than the typed-data rendering of the signed bytes, or accepts when rendering failed")
		ad := e.Fn(pkgEthSecp, "PubKey.Address")
		okA := false
		for _, ret := range returnsOf(ad) {
			if isNilConst(ret.Results[0]) {
				continue
			}
			sl := sliceFrom(ret.Results[0])
			okA = sl.HasCall(CallSpec{pkgGethCry, "", "PubkeyToAddress"}) && sl.HasCall(CallSpec{pkgGethCry, "", "DecompressPubkey"}) && hasFieldLoad(sl, "PubKey", "Key")
			if !okA {
				break
			}
		}
		r.Check(okA, "PubKey.Address › PubkeyToAddress(DecompressPubkey(Key))", e.Pos(ad.Pos()), "Ethereum address of the decompressed key", "the account address is not the Ethereum address of this public key")
	})

	r.Rule("R2", "PROVENANCE", "the EIP-712 rendering of a protobuf sign doc covers the whole sign doc: chain id, account number, sequence, timeout height, fee amount, gas limit, the unpacked messages and the memo each flow into their own argument of legacytx.StdSignBytes; the typed-data domain's chain id is parsed from the sign doc's chain id; the Amino path hands the whole sign-doc bytes on", 10, func() {
		fn := e.Fn(pkgEip712, "decodeProtobufSignDoc")
		sb := callsTo(fn, false, CallSpec{SDK + "/x/auth/migrations/legacytx", "", "StdSignBytes"})
		if len(sb) != 1 {
			r.Bad("decodeProtobufSignDoc › StdSignBytes", e.Pos(fn.Pos()), "not exactly one StdSignBytes call")
			return
		}
		a := sb[0].Common().Args
		type want struct {
			idx         int
			typ, field  string
			description string
		}
		for _, w := range []want{
			{0, "SignDoc", "ChainId", "chain id"}, {1, "SignDoc", "AccountNumber", "account number"}, {2, "SignerInfo", "Sequence", "sequence"},
			{3, "TxBody", "TimeoutHeight", "timeout height"}, {6, "TxBody", "Memo", "memo"},
		} {
			sl := sliceFrom(a[w.idx])
			ok := hasFieldLoad(sl, w.typ, w.field)
			// and nothing of the other fields
			for _, o := range []want{{0, "SignDoc", "ChainId", ""}, {1, "SignDoc", "AccountNumber", ""}, {2, "SignerInfo", "Sequence", ""}, {6, "TxBody", "Memo", ""}} {
				if o.field != w.field && hasFieldLoad(sl, o.typ, o.field) {
					ok = false
				}
			}
			r.Check(ok, "sign doc field › "+w.description, e.Pos(sb[0].Pos()), w.typ+"."+w.field+" → StdSignBytes argument "+itoa(w.idx), "the "+w.description+" of the sign doc is not part of the bytes that are hashed: a signature also authorises transactions that differ in it")
		}
		// the sequence rendered is the sequence of THE signer: SignerInfos is indexed only with a constant k under a guard that
		// proves len(SignerInfos) == k+1 (exactly one signer info) — with more entries the rendered sequence belongs to somebody
		// else than the signer being verified, and the rendering stops being injective in that signer's sequence
		{
			okIdx, nIdx := true, 0
			allInstrs(fn, false, func(_ *ssa.Function, _ *ssa.BasicBlock, in ssa.Instruction) {
				ia, ok := in.(*ssa.IndexAddr)
				if !ok || !hasFieldLoad(sliceFrom(ia.X), "AuthInfo", "SignerInfos") {
					return
				}
				if st, isS := ia.X.Type().Underlying().(*types.Slice); !isS || namedTypeName(st.Elem()) != "SignerInfo" {
					return // some other indexed value that merely mentions the field (the varargs of the error message)
				}
				nIdx++
				k, isK := constInt(ia.Index)
				if !isK {
					okIdx = false
					return
				}
				proved := false
				for _, i := range ifs(fn) {
					b, isB := i.Cond.(*ssa.BinOp)
					if !isB || (b.Op != token.EQL && b.Op != token.NEQ) {
						continue
					}
					n, isN := constInt(b.Y)
					lc, _ := callOf(b.X)
					if !isN || n != k+1 || lc == nil {
						continue
					}
					if bi, isBi := lc.Call.Value.(*ssa.Builtin); !isBi || bi.Name() != "len" || !hasFieldLoad(sliceFrom(lc.Call.Args[0]), "AuthInfo", "SignerInfos") {
						continue
					}
					sv := 0
					if b.Op == token.NEQ {
						sv = 1
					}
					if blockDominatedByEdge(fn, ia.Block(), Guard{If: i, Survive: sv}) {
						proved = true
					}
				}
				if !proved {
					okIdx = false
				}
			})
			r.Check(okIdx && nIdx > 0, "sign doc field › sequence of the only signer", e.Pos(fn.Pos()), "SignerInfos[0] under len(SignerInfos) == 1", "the signer info whose sequence is rendered is selected without proving there is exactly one: for a document with several signer infos the rendered sequence is not the verified signer's, so one signature covers documents that differ in that signer's sequence (replay of a stale fee-payer signature)")
		}
		fee := sliceFrom(a[4])
		r.Check(hasFieldLoad(fee, "Fee", "Amount") && hasFieldLoad(fee, "Fee", "GasLimit"), "sign doc field › fee (amount, gas limit)", e.Pos(sb[0].Pos()), "StdFee{Amount: authInfo.Fee.Amount, Gas: authInfo.Fee.GasLimit}", "fee amount or gas limit of the sign doc is not part of the hashed bytes")
		msgsV := resolveLocal(a[5])
		// the unpacking loop may live in a private helper returning (msgs, error) whose error is propagated; the helper may be
		// shared (Amino and Protobuf path) and receive the per-message decoder as a function literal
		mfn := fn
		var site *ssa.Call
		if ex, isEx := msgsV.(*ssa.Extract); isEx {
			if hc, _ := callOf(ex.Tuple); hc != nil {
				if h := hc.Call.StaticCallee(); h != fn && privHelper(pkgEip712)(h) && errorPropagated(fn, hc, nil) {
					var mk ssa.Value
					same := true
					for _, ret := range successReturns(h) {
						v := resolveLocal(ret.Results[ex.Index])
						if mk != nil && mk != v {
							same = false
						}
						mk = v
					}
					if same && mk != nil {
						mfn, msgsV, site = h, mk, hc
					}
				}
			}
		}
		_, isMake := msgsV.(*ssa.MakeSlice)
		isUnpack := func(c ssa.CallInstruction) bool {
			return isMethodNamed(c, "UnpackAny") && hasFieldLoad(sliceFrom(c.Common().Args[0]), "TxBody", "Messages")
		}
		unpack := callsIn(mfn, false, isUnpack)
		viaLiteral := false
		if len(unpack) == 0 && site != nil {
			// decoder literal handed to the helper: the helper must call that parameter inside its filling loop
			for pi, arg := range site.Call.Args {
				mc, isMC := arg.(*ssa.MakeClosure)
				if !isMC || pi >= len(mfn.Params) {
					continue
				}
				lit := mc.Fn.(*ssa.Function)
				lu := callsIn(lit, false, isUnpack)
				if len(lu) != 1 {
					continue
				}
				// the element unpacked is body.Messages[i] with i the literal's index parameter
				idxOK := false
				if ia, isIA := resolveLocal(lu[0].Common().Args[0]).(*ssa.UnOp); isIA {
					if x, isX := ia.X.(*ssa.IndexAddr); isX && len(lit.Params) > 0 && x.Index == ssa.Value(lit.Params[0]) {
						idxOK = true
					}
				}
				dyn := callsIn(mfn, false, func(c ssa.CallInstruction) bool { return c.Common().Value == ssa.Value(mfn.Params[pi]) })
				inLoop := false
				for _, d := range dyn {
					for _, l := range loopsOf(mfn) {
						if l.Body[d.Block()] {
							inLoop = true
						}
					}
				}
				if idxOK && inLoop && len(dyn) == 1 && errorPropagated(mfn, dyn[0], nil) {
					unpack, viaLiteral = lu, true
				}
			}
		}
		_ = viaLiteral
		storedInLoop := false
		if isMake && msgsV.Referrers() != nil {
			for _, rr := range *msgsV.Referrers() {
				if ia, ok := rr.(*ssa.IndexAddr); ok && len(storesTo(ia)) > 0 {
					for _, l := range loopsOf(mfn) {
						if l.Body[ia.Block()] {
							storedInLoop = true
						}
					}
				}
			}
		}
		r.Check(isMake && len(unpack) == 1 && storedInLoop, "sign doc field › messages", e.Pos(sb[0].Pos()), "every body message unpacked into the msgs argument", "the messages of the transaction body are not (all) part of the hashed bytes")
		// all body messages are unpacked: msgs has len(body.Messages) and the loop fills index i for the range index
		okAll := false
		isLenOfMessages := func(v ssa.Value) bool {
			c, _ := callOf(v)
			if c == nil {
				return false
			}
			b, isB := c.Call.Value.(*ssa.Builtin)
			return isB && b.Name() == "len" && hasFieldLoad(sliceFrom(c.Call.Args[0]), "TxBody", "Messages")
		}
		allInstrs(mfn, false, func(_ *ssa.Function, _ *ssa.BasicBlock, i ssa.Instruction) {
			if mk, ok := i.(*ssa.MakeSlice); ok {
				if isLenOfMessages(mk.Len) {
					okAll = true
				}
				// the length is a parameter of the shared helper: judge the argument of this call
				if p, isP := resolveLocal(mk.Len).(*ssa.Parameter); isP && site != nil && p.Parent() == mfn {
					if k := paramIndex(p); k >= 0 && k < len(site.Call.Args) && isLenOfMessages(site.Call.Args[k]) {
						okAll = true
					}
				}
			}
		})
		r.Check(okAll, "sign doc field › all messages", e.Pos(fn.Pos()), "msgs := make([]sdk.Msg, len(body.Messages))", "not every message of the body is rendered")
		wt := callsTo(fn, false, CallSpec{pkgEip712, "", "WrapTxToTypedData"})
		okW := len(wt) == 1
		if okW {
			wa := wt[0].Common().Args
			cs := sliceFrom(wa[0])
			okW = cs.HasCall(CallSpec{EV + "/types", "", "ParseChainID"}) && hasFieldLoad(cs, "SignDoc", "ChainId") && sameLocal(wa[1], sb[0].(ssa.Value))
		}
		r.Check(okW, "typed data › domain chain id and payload", e.Pos(fn.Pos()), "WrapTxToTypedData(ParseChainID(signDoc.ChainId), signBytes)", "the typed data is not built from the sign doc's own chain id and the full sign bytes (cross-chain replay / partial coverage)")
		am := e.Fn(pkgEip712, "decodeAminoSignDoc")
		okAm := false
		for _, c := range callsTo(am, false, CallSpec{pkgEip712, "", "WrapTxToTypedData"}) {
			wa := c.Common().Args
			okAm = resolveLocal(wa[1]) == ssa.Value(am.Params[0]) && sliceFrom(wa[0]).HasCall(CallSpec{EV + "/types", "", "ParseChainID"})
		}
		r.Check(okAm, "typed data › Amino path hands on the whole sign doc", e.Pos(am.Pos()), "WrapTxToTypedData(chainID, signDocBytes)", "the Amino path renders something other than the complete sign-doc bytes")
	})

	r.Rule("R7", "PROVENANCE", "the default derivation path of `keys add` is BIP-44 m/44'/coin'/account'/0/index: every SDK path constructor called in client/keys receives the value of the --account flag in its account slot and the value of the --index flag in its address-index slot (CreateHDPath(coin, account, index); NewFundraiserParams(account, coin, index); NewParams(purpose, coin, account, change, index))", 1, func() {
		pkgKeys := EV + "/client/keys"
		slots := map[string][2]int{"CreateHDPath": {1, 2}, "NewFundraiserParams": {0, 2}, "NewParams": {2, 4}}
		n := 0
		flagOf := func(v ssa.Value) []string {
			var out []string
			for _, c := range sliceFrom(v).Calls() {
				if isMethodNamed(c, "GetUint32") || isMethodNamed(c, "GetUint") || isMethodNamed(c, "GetInt") {
					if nm, ok := constString(c.Call.Args[len(c.Call.Args)-1]); ok {
						out = append(out, nm)
					}
				}
			}
			sort.Strings(out)
			return out
		}
		for _, f := range e.SrcFuncs(func(p string) bool { return p == pkgKeys }) {
			for _, c := range callsIn(f, false, func(c ssa.CallInstruction) bool {
				fo := calleeObj(c)
				if fo == nil || fo.Pkg() == nil || fo.Pkg().Path() != SDK+"/crypto/hd" {
					return false
				}
				_, ok := slots[fo.Name()]
				return ok
			}) {
				n++
				sl := slots[calleeObj(c).Name()]
				a := c.Common().Args
				acc, idx := flagOf(a[sl[0]]), flagOf(a[sl[1]])
				ok := len(acc) == 1 && acc[0] == "account" && len(idx) == 1 && idx[0] == "index"
				r.Check(ok, "client/keys › "+fnKey(f)+" › hd."+calleeObj(c).Name()+" slots", e.Pos(c.Pos()), "account ← --account, address index ← --index", fmt.Sprintf("the HD path constructor receives %v in its account slot and %v in its address-index slot: the key stored for (account, index) is not the BIP-44 key m/44'/coin'/account'/0/index that every other wallet derives", acc, idx))
			}
		}
		if n == 0 {
			r.Bad("client/keys › HD path constructor", "", "no SDK HD path constructor call found in client/keys (anchors moved?)")
		}
	})

	r.Rule("R6", "NARROWING", "the EIP-712 rendering of the custom-precompile messages is injective in its numeric fields: the uint256 amount and the domain chain id enter the typed data as the full big integer — never through Int64()/Uint64() (values that differ by a multiple of 2^64 would hash alike: one signature authorises another amount / another chain)", 1, func() {
		probs, n := typedDataNarrowing(e)
		r.Check(len(probs) == 0 && n >= 2, "x/cpc typed data › big integers enter unnarrowed", "", itoa(n)+" typed-data builders inspected", "a numeric field of the signed typed data is narrowed to 64 bits: "+strings.Join(probs, "; "))
	})

	r.Rule("R5", "WHO-MAY-READ", "key encodings round-trip: a private key is turned into bytes or text only by the fixed-width encoder crypto.FromECDSA (32 bytes, left-padded) — repository code never reads the scalar D of an ecdsa.PrivateKey itself (big.Int.Bytes/Text and fmt verbs drop leading zero bytes: about one key in 256 would export as 31 bytes and fail to import)", 0, func() {
		n := 0
		for _, f := range e.SrcFuncs(e.RepoOwned) {
			if IsGenerated(e.File(f.Pos())) || isTestSupportPkg(pkgPathOf(f)) {
				continue
			}
			allInstrs(f, false, func(_ *ssa.Function, _ *ssa.BasicBlock, in ssa.Instruction) {
				fa, ok := in.(*ssa.FieldAddr)
				if !ok || fieldName(fa) != "D" || namedTypePath(fa.X.Type()) != "crypto/ecdsa.PrivateKey" {
					return
				}
				n++
				r.Bad("raw private scalar › "+fnKey(f), e.Pos(fa.Pos()), "the private scalar key.D is read directly: any rendering of the big integer (Bytes, Text, %X/%x, String) is variable-width and loses leading zero bytes, so the encoding does not round-trip for keys whose first byte is 0x00 — use crypto.FromECDSA")
			})
		}
		if n == 0 {
			r.OK("private keys are encoded by crypto.FromECDSA only", "", "no read of ecdsa.PrivateKey.D in repository code")
		}
	})

	r.Rule("R4", "WHO-MAY-CALL", "HD derivation walks every component of the parsed path with hdkeychain.ExtendedKey.Derive (BIP-32); the non-conforming DeriveNonStandard is not called anywhere in the repository", 2, func() {
		n := 0
		for _, cs := range e.repoCallSites(func(c ssa.CallInstruction) bool {
			fo := calleeObj(c)
			return fo != nil && fo.Name() == "DeriveNonStandard"
		}) {
			n++
			r.Bad("non-standard derivation › "+fnKey(cs.Fn), e.Pos(cs.Call.Pos()), "ExtendedKey.DeriveNonStandard does not left-pad parent keys shorter than 32 bytes: for about 1 in 128 mnemonics a derived key (and address) differs from BIP-32/BIP-44, i.e. from every other wallet")
		}
		if n == 0 {
			r.OK("non-standard derivation › none", "", "DeriveNonStandard has no caller in the repository")
		}
		df := e.Fn(pkgCryptoHd, "ethSecp256k1Algo.Derive")
		ok := false
		for _, lit := range df.AnonFuncs {
			ds := callsIn(lit, false, func(c ssa.CallInstruction) bool {
				fo := calleeObj(c)
				return fo != nil && fo.Name() == "Derive" && fo.Pkg() != nil && strings.HasSuffix(fo.Pkg().Path(), "hdkeychain")
			})
			if len(ds) != 1 {
				continue
			}
			d := ds[0]
			inLoop := false
			for _, l := range loopsOf(lit) {
				if l.Body[d.Block()] {
					inLoop = true
				}
			}
			// the index argument is the range element of the parsed derivation path; the receiver is the running key
			isPath := sliceFrom(d.Common().Args[1]).Has(func(v ssa.Value) bool {
				c, isC := v.(*ssa.Call)
				return isC && calleeObj(c) != nil && calleeObj(c).Name() == "ParseDerivationPath"
			})
			_, recvPhi := resolveLocal(d.Common().Args[0]).(*ssa.Phi)
			// master key from the seed of the mnemonic
			mk := callsIn(lit, false, func(c ssa.CallInstruction) bool { fo := calleeObj(c); return fo != nil && fo.Name() == "NewMaster" })
			okSeed := len(mk) == 1 && sliceFrom(mk[0].Common().Args[0]).Has(func(v ssa.Value) bool {
				c, isC := v.(*ssa.Call)
				return isC && calleeObj(c) != nil && strings.HasPrefix(calleeObj(c).Name(), "NewSeed")
			})
			ok = inLoop && isPath && recvPhi && okSeed
		}
		r.Check(ok, "crypto/hd.ethSecp256k1Algo.Derive › BIP-32 walk of the whole path", e.Pos(df.Pos()), "master := NewMaster(seed(mnemonic)); for n in ParseDerivationPath(path) { key = key.Derive(n) }", "the derivation does not apply hdkeychain.Derive to every path component starting from the mnemonic's master key")
	})
}

// reachesWithout: walking the operands backwards from v (through φ-nodes, calls, conversions, slices, single-store spills),
// can `target` be reached without passing a value accepted by barrier?
func reachesWithout(v, target ssa.Value, barrier func(ssa.Value) bool) bool {
	seen := map[ssa.Value]bool{}
	var walk func(x ssa.Value) bool
	walk = func(x ssa.Value) bool {
		if x == nil || seen[x] {
			return false
		}
		seen[x] = true
		if x == target {
			return true
		}
		if barrier(x) {
			return false
		}
		if u, ok := x.(*ssa.UnOp); ok && u.Op == token.MUL {
			if a, isA := u.X.(*ssa.Alloc); isA {
				for _, st := range storesTo(a) {
					if walk(st.Val) {
						return true
					}
				}
				return false
			}
		}
		in, ok := x.(ssa.Instruction)
		if !ok {
			return false
		}
		var rands [16]*ssa.Value
		for _, op := range in.Operands(rands[:0]) {
			if *op != nil && walk(*op) {
				return true
			}
		}
		return false
	}
	return walk(v)
}

// typedDataNarrowing (shared by C19-R6 and C11-R8): in the typed-data builders of the custom precompiles (every ToTypedData method
// of x/cpc/abi and x/cpc/eip712.GetDomain) no big integer is narrowed with Int64()/Uint64().
func typedDataNarrowing(e *Engine) (problems []string, inspected int) {
	var fns []*ssa.Function
	for _, f := range e.SrcFuncs(func(p string) bool { return p == EV+"/x/cpc/abi" || p == pkgCpcEip }) {
		if f.Parent() == nil && (f.Name() == "ToTypedData" || f.Name() == "GetDomain") && !IsGenerated(e.File(f.Pos())) {
			fns = append(fns, f)
		}
	}
	for _, f := range fns {
		inspected++
		for _, c := range callsIn(f, true, func(c ssa.CallInstruction) bool {
			fo := calleeObj(c)
			if fo == nil || fo.Pkg() == nil {
				return false
			}
			p := fo.Pkg().Path()
			return (p == pkgBig || p == pkgSdkMath) && (fo.Name() == "Int64" || fo.Name() == "Uint64")
		}) {
			problems = append(problems, fnKey(f)+" calls "+calleeObj(c).Name()+"() at "+e.Pos(c.Pos()))
		}
	}
	sort.Strings(problems)
	return
}

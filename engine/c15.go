package main

import (
	"go/constant"
	"go/token"
	"go/types"
	"strings"

	"golang.org/x/tools/go/ssa"
)

func init() { registry["C15"] = checkC15 }

var (
	specCheckDestroyAt = CallSpec{pkgEvmUtils, "", "CheckIfAccountIsSuitableForDestroyingAt"}
	specCheckDestroy   = CallSpec{pkgEvmUtils, "", "CheckIfAccountIsSuitableForDestroying"}
)

// passesOr: every path from entry to target passes instruction via, or one of the bypass guards' surviving edges.
func passesOr(fn *ssa.Function, target, via ssa.Instruction, bypass []Guard) bool {
	if via == nil {
		return false
	}
	if via.Block() == target.Block() {
		return instrIndex(via) < instrIndex(target)
	}
	del := surviveEdges(bypass)
	for _, p := range via.Block().Preds {
		del[edge{p.Index, via.Block().Index}] = true
	}
	if via.Block() == fn.Blocks[0] {
		return true
	}
	return !reachable(fn, fn.Blocks[0], del)[target.Block()]
}

func checkC15(e *Engine, r *Report) {
	e.BuildSSA()
	r.NotDecided("x/bank's enforcement of vesting locks inside SendCoinsFromAccountToModule (trusted); numeric balances")
	r.NotDecided("that go-ethereum's create() refuses address collisions before calling CreateAccount (upstream, trusted)")
	da := e.Fn(pkgEvmVM, "cStateDb.DestroyAccount")
	addrP := da.Params[1]

	// DestroyAccount together with private helpers split off from it (each called from one site inside the region):
	// path rules run on the stitched control-flow graph, so "extract method" refactorings keep the guards visible
	reg := e.privateRegion(da)
	sg := reg.Supergraph()
	getAcc := reg.First(func(c ssa.CallInstruction) bool { return isMethodNamed(c, "GetAccount") })
	remove := reg.First(func(c ssa.CallInstruction) bool { return isMethodNamed(c, "RemoveAccount") })
	burn := reg.First(func(c ssa.CallInstruction) bool {
		return isCallTo(c, CallSpec{pkgEvmVM, "cStateDb", "burnCoins"})
	})
	delCode := reg.First(func(c ssa.CallInstruction) bool { return isMethodNamed(c, "DeleteCodeHash") })
	forEach := reg.First(func(c ssa.CallInstruction) bool { return isMethodNamed(c, "ForEachStorage") })
	check := reg.First(func(c ssa.CallInstruction) bool { return isCallTo(c, specCheckDestroyAt, specCheckDestroy) })

	// guards
	var gNil, gOK []Guard
	if getAcc != nil {
		accV := getAcc.(ssa.Value)
		for _, i := range sg.Ifs() {
			b, ok := i.Cond.(*ssa.BinOp)
			if !ok || (b.Op != token.NEQ && b.Op != token.EQL) {
				continue
			}
			if (reg.Resolve(b.X) == accV && isNilConst(b.Y)) || (reg.Resolve(b.Y) == accV && isNilConst(b.X)) {
				s := 1 // NEQ: nil on false edge
				if b.Op == token.EQL {
					s = 0
				}
				gNil = append(gNil, Guard{If: i, Survive: s, Desc: "acc == nil"})
			}
		}
	}
	if check != nil {
		for _, g := range reg.BoolCallGuards(true, func(c *ssa.Call) bool { return ssa.CallInstruction(c) == check }) {
			if sg.EndsInPanic(g.failBlock()) {
				gOK = append(gOK, g)
			}
		}
	}

	r.Rule("R1", "MUST-PASS+WHO-MAY-CALL", "in DestroyAccount every removal (auth account, balances, code hash, storage) is reached only if the account does not exist or passed the protected-account test, whose failing edge panics; only DestroyAccount removes auth accounts; DestroyAccount is called only by CreateAccount and by CommitMultiStore under `self-destructed || (deleteEmpty && Empty)`", 8, func() {
		if getAcc == nil || check == nil {
			r.Bad("DestroyAccount › protected-account test", e.Pos(da.Pos()), "DestroyAccount does not load the account and run CheckIfAccountIsSuitableForDestroying[At] on it")
			return
		}
		// the tested account is the one being destroyed
		sl := reg.Slice(getAcc.Common().Args[len(getAcc.Common().Args)-1])
		r.Check(sl.HasValue(addrP), "DestroyAccount › tested account is the destroyed address", e.Pos(getAcc.Pos()), "GetAccount(currentCtx, addr)", "the account tested for protection is not the address being destroyed")
		sl2 := reg.Slice(check.Common().Args[0])
		r.Check(sl2.HasValue(getAcc.(ssa.Value)), "DestroyAccount › test applies to the loaded account", e.Pos(check.Pos()), "Check…(acc, …)", "the protection test is not applied to the loaded account")
		r.Check(len(gOK) > 0, "DestroyAccount › protected account panics", e.Pos(check.Pos()), "the not-destroyable edge ends in panic", "the not-destroyable edge of the protection test does not abort (panic): a protected account is destroyed anyway")
		both := append(append([]Guard{}, gNil...), gOK...)
		for name, c := range map[string]ssa.CallInstruction{"RemoveAccount": remove, "burnCoins": burn, "DeleteCodeHash": delCode, "ForEachStorage(SetState nil)": forEach} {
			if c == nil {
				continue // completeness is R5's business
			}
			gs := both
			if name == "RemoveAccount" {
				gs = gOK
			}
			r.Check(sg.MustPass(c, gs), "DestroyAccount › "+name+" guarded", e.Pos(c.Pos()), "dominated by acc == nil || destroyable", name+" is reachable for an existing account that did not pass the protected-account test (module account / unexpired vesting account destroyed or emptied)")
		}
		// who may call
		nRem, nDes := 0, 0
		cm := e.Fn(pkgEvmVM, "cStateDb.CommitMultiStore")
		ca := e.Fn(pkgEvmVM, "cStateDb.CreateAccount")
		for _, f := range e.SrcFuncs(e.RepoOwned) {
			if IsGenerated(e.File(f.Pos())) {
				continue
			}
			top := f
			for top.Parent() != nil {
				top = top.Parent()
			}
			for _, c := range callsIn(f, false, func(c ssa.CallInstruction) bool { return isMethodNamed(c, "RemoveAccount") }) {
				fo := calleeObj(c)
				if fo == nil || fo.Pkg() == nil || !strings.Contains(fo.Pkg().Path(), "x/auth/keeper") {
					continue
				}
				nRem++
				r.Check(reg.in[top], "who removes auth accounts › "+fnKey(f), e.Pos(c.Pos()), "only DestroyAccount", "AccountKeeper.RemoveAccount is called outside DestroyAccount: the protected-account test is bypassed")
			}
			for _, c := range callsIn(f, false, func(c ssa.CallInstruction) bool { return isMethodNamed(c, "DestroyAccount") }) {
				fo := calleeObj(c)
				if fo == nil || fo.Pkg() == nil || fo.Pkg().Path() != pkgEvmVM {
					continue
				}
				nDes++
				r.Check(top == cm || top == ca, "who calls DestroyAccount › "+fnKey(f), e.Pos(c.Pos()), "CreateAccount / CommitMultiStore", "DestroyAccount is called from a place other than CreateAccount and CommitMultiStore")
			}
		}
		if nRem == 0 {
			r.Bad("who removes auth accounts", e.Pos(da.Pos()), "no caller of AccountKeeper.RemoveAccount found (destroyed accounts keep their auth record)")
		}
		// CommitMultiStore condition
		for _, c := range callsIn(cm, false, func(c ssa.CallInstruction) bool { return isMethodNamed(c, "DestroyAccount") }) {
			baseGuards := func(f *ssa.Function) []Guard {
				var gs []Guard
				for _, i := range ifs(f) {
					// `_, marked := d.selfDestructed[a]` → Extract #1 of a Lookup on the selfDestructed field
					if ex, ok := i.Cond.(*ssa.Extract); ok && ex.Index == 1 {
						if lk, ok := ex.Tuple.(*ssa.Lookup); ok && lk.CommaOk {
							if fs := fieldsOnChain(lk.X, e.Named(pkgEvmVM, "cStateDb")); len(fs) == 1 && fs[0].Name() == "selfDestructed" {
								gs = append(gs, Guard{If: i, Survive: 0})
							}
						}
					}
				}
				return append(gs, boolCallGuards(f, true, func(x *ssa.Call) bool {
					return isCallTo(x, CallSpec{pkgEvmVM, "cStateDb", "Empty"}) || isCallTo(x, CallSpec{pkgEvmVM, "AccountTracker", "Has"})
				})...)
			}
			isBaseVal := func(v ssa.Value) bool {
				x, ok := v.(*ssa.Call)
				return ok && (isCallTo(x, CallSpec{pkgEvmVM, "cStateDb", "Empty"}) || isCallTo(x, CallSpec{pkgEvmVM, "AccountTracker", "Has"}))
			}
			gs := baseGuards(cm)
			// the condition may have been extracted into a private predicate `if d.shouldDestroy(addr, …)`
			gs = append(gs, boolCallGuards(cm, true, func(x *ssa.Call) bool {
				h := x.Call.StaticCallee()
				return privHelper(pkgEvmVM)(h) && boolFnTrueOnlyUnder(h, baseGuards(h), isBaseVal)
			})...)
			r.Check(mustPass(cm, c, gs), "CommitMultiStore › destroy only self-destructed or empty", e.Pos(c.Pos()), "DestroyAccount under selfDestructed∋a || Empty(a)", "CommitMultiStore destroys a touched account that neither self-destructed nor is empty")
			// Empty branch requires deleteEmptyObjects
			emptyCalls := callsTo(cm, false, CallSpec{pkgEvmVM, "cStateDb", "Empty"})
			for _, ec := range emptyCalls {
				var gp []Guard
				for _, i := range ifs(cm) {
					if strip(i.Cond) == ssa.Value(cm.Params[1]) {
						gp = append(gp, Guard{If: i, Survive: 0})
					}
				}
				r.Check(mustPass(cm, ec, gp), "CommitMultiStore › empty-account deletion only when requested", e.Pos(ec.Pos()), "Empty() consulted only under deleteEmptyObjects", "empty accounts are deleted although deleteEmptyObjects is false (pre-EIP-158 semantics broken)")
			}
		}
	})

	r.Rule("R2", "PROVENANCE", "vesting expiry is decided by the block time of the StateDB's current context, never by the wall clock", 2, func() {
		if check == nil {
			r.Bad("DestroyAccount › time source", e.Pos(da.Pos()), "no protection test call")
			return
		}
		if isCallTo(check, specCheckDestroy) {
			r.Bad("x/evm/vm.cStateDb.DestroyAccount › vesting expiry clock", e.Pos(check.Pos()), "DestroyAccount uses the wall-clock variant CheckIfAccountIsSuitableForDestroying (time.Now): protection of a vesting account depends on when the node executes the block")
		} else {
			args := check.Common().Args
			sl := backSlice(args[len(args)-1], SliceOpts{ThroughCallArgs: alwaysThrough})
			okT := sl.Has(func(v ssa.Value) bool {
				c, ok := v.(*ssa.Call)
				if !ok || !(isCallTo(c, CallSpec{pkgSdkTypes, "Context", "BlockTime"}) || isCallTo(c, CallSpec{pkgSdkTypes, "Context", "BlockHeader"})) {
					return false
				}
				return isFieldRead(c.Call.Args[0], "cStateDb", "currentCtx")
			}) && !sl.HasCall(CallSpec{"time", "", "Now"})
			r.Check(okT, "x/evm/vm.cStateDb.DestroyAccount › vesting expiry clock", e.Pos(check.Pos()), "time = d.currentCtx.BlockTime()", "the time compared with the vesting end time does not derive from the current context's block time ("+sl.Describe()+")")
		}
		// inside the At-variant the compared time derives from the parameter only
		at := e.Fn(pkgEvmUtils, "CheckIfAccountIsSuitableForDestroyingAt")
		nowP := at.Params[len(at.Params)-1]
		n, okAll := 0, true
		for _, i := range ifs(at) {
			b, ok := i.Cond.(*ssa.BinOp)
			if !ok {
				continue
			}
			var endSide, other ssa.Value
			if c, _ := callOf(b.X); c != nil && isMethodNamed(c, "GetEndTime") {
				endSide, other = b.X, b.Y
			} else if c, _ := callOf(b.Y); c != nil && isMethodNamed(c, "GetEndTime") {
				endSide, other = b.Y, b.X
			}
			if endSide == nil {
				continue
			}
			n++
			sl := backSlice(other, SliceOpts{ThroughCallArgs: alwaysThrough})
			if !sl.HasValue(nowP) || sl.HasCall(CallSpec{"time", "", "Now"}) {
				okAll = false
			}
		}
		r.Check(n > 0 && okAll, "CheckIfAccountIsSuitableForDestroyingAt › end time compared with the given time", e.Pos(at.Pos()), "GetEndTime() compared with the `now` parameter", "a vesting end time is compared with something other than the caller-supplied time")
	})

	r.Rule("R3", "CENSUS+MUST-PASS", "the protection test returns destroyable=true only for accounts that are not module accounts and not vesting accounts with an end time after the given time; every vesting account type of the SDK is covered by a tested type", 5, func() {
		at := e.Fn(pkgEvmUtils, "CheckIfAccountIsSuitableForDestroyingAt")
		var trueRets []*ssa.Return
		for _, ret := range returnsOf(at) {
			if c, ok := ret.Results[0].(*ssa.Const); ok && c.Value != nil && c.Value.Kind() == constant.Bool && !constant.BoolVal(c.Value) {
				continue
			}
			trueRets = append(trueRets, ret)
		}
		if len(trueRets) == 0 {
			undecidedf("no return with destroyable possibly true")
		}
		assertIf := func(match func(types.Type) bool) []Guard {
			var gs []Guard
			for _, i := range ifs(at) {
				ex, ok := i.Cond.(*ssa.Extract)
				if !ok || ex.Index != 1 {
					continue
				}
				ta, ok := ex.Tuple.(*ssa.TypeAssert)
				if ok && ta.CommaOk && match(ta.AssertedType) {
					gs = append(gs, Guard{If: i, Survive: 1}) // survive = assertion failed
				}
			}
			return gs
		}
		modI := e.Named(pkgSdkTypes, "ModuleAccountI")
		gMod := assertIf(func(t types.Type) bool { return types.Identical(t, modI) })
		okMod := len(gMod) > 0
		for _, ret := range trueRets {
			if !mustPass(at, ret, gMod) {
				okMod = false
			}
		}
		r.Check(okMod, "protection test › module accounts", e.Pos(at.Pos()), "destroyable only on the not-a-ModuleAccountI edge", "destroyable=true can be returned for a module account")
		// vesting: each asserted vesting type T: true only via (assert fails) or (GetEndTime() <= now)
		vestI := e.Iface(SDK+"/x/auth/vesting/exported", "VestingAccount")
		var tested []types.Type
		for _, i := range ifs(at) {
			ex, ok := i.Cond.(*ssa.Extract)
			if !ok || ex.Index != 1 {
				continue
			}
			ta, ok := ex.Tuple.(*ssa.TypeAssert)
			if !ok || !ta.CommaOk || types.Identical(ta.AssertedType, modI) {
				continue
			}
			t := ta.AssertedType
			gs := []Guard{{If: i, Survive: 1}}
			// expiry guards on the asserted value
			val := func() ssa.Value {
				for _, ref := range *ta.Referrers() {
					if e2, ok := ref.(*ssa.Extract); ok && e2.Index == 0 {
						return e2
					}
				}
				return nil
			}()
			for _, j := range ifs(at) {
				b, ok := j.Cond.(*ssa.BinOp)
				if !ok || (b.Op != token.GTR && b.Op != token.GEQ && b.Op != token.LSS && b.Op != token.LEQ) {
					continue
				}
				c, _ := callOf(b.X)
				endOnLeft := true
				if c == nil || !isMethodNamed(c, "GetEndTime") {
					c, _ = callOf(b.Y)
					endOnLeft = false
				}
				if c == nil || !isMethodNamed(c, "GetEndTime") || val == nil {
					continue
				}
				rv := strip(recvOperand(c))
				if u, isU := rv.(*ssa.UnOp); isU && u.Op == token.MUL {
					rv = strip(u.X) // value-receiver method called through the asserted pointer
				}
				if rv != val {
					continue
				}
				// survive = "end <= now" edge
				unexpiredTrue := (endOnLeft && (b.Op == token.GTR || b.Op == token.GEQ)) || (!endOnLeft && (b.Op == token.LSS || b.Op == token.LEQ))
				s := 1
				if !unexpiredTrue {
					s = 0
				}
				gs = append(gs, Guard{If: j, Survive: s})
			}
			ok2 := len(gs) > 1
			for _, ret := range trueRets {
				if !mustPass(at, ret, gs) {
					ok2 = false
				}
			}
			name := types.TypeString(t, func(p *types.Package) string { return p.Name() })
			r.Check(ok2, "protection test › unexpired "+name, e.Pos(ta.Pos()), "destroyable only if not this type or its end time is not after the given time", "destroyable=true can be returned for an unexpired vesting account of type "+name)
			if ok2 {
				tested = append(tested, t)
			}
		}
		// census of SDK vesting account types
		vp := e.Pkg(SDK + "/x/auth/vesting/types")
		sc := vp.Types.Scope()
		n := 0
		for _, nm := range sc.Names() {
			tn, ok := sc.Lookup(nm).(*types.TypeName)
			if !ok {
				continue
			}
			named, ok := types.Unalias(tn.Type()).(*types.Named)
			if !ok {
				continue
			}
			if _, isS := named.Underlying().(*types.Struct); !isS {
				continue
			}
			pt := types.NewPointer(named)
			isVesting := types.Implements(pt, vestI)
			if !isVesting && nm != "BaseVestingAccount" {
				continue
			}
			n++
			covered := false
			for _, t := range tested {
				if types.Identical(t, pt) {
					covered = true
				}
				if it, ok := t.Underlying().(*types.Interface); ok && types.Implements(pt, it) {
					covered = true
				}
			}
			r.Check(covered, "protection test covers vesting type "+nm, e.Pos(at.Pos()), "covered by a tested type/interface", "SDK vesting account type "+nm+" is not covered by any type tested in the protection function")
		}
		r.Count("sdk_vesting_types", n)
	})

	r.Rule("R4", "MUST-PASS", "IsEmptyAccount returns true only after: empty code hash; zero balance in ALL denominations (GetAllBalances); zero sequence; no storage entry", 4, func() {
		fn := e.Fn(pkgEvmKeeper, "Keeper.IsEmptyAccount")
		addr := fn.Params[len(fn.Params)-1]
		var trueRets []*ssa.Return
		for _, ret := range returnsOf(fn) {
			if b, ok := constBool(ret.Results[0]); ok && !b {
				continue
			}
			trueRets = append(trueRets, ret)
		}
		all := func(gs []Guard) bool {
			if len(gs) == 0 || len(trueRets) == 0 {
				return false
			}
			for _, ret := range trueRets {
				if !mustPass(fn, ret, gs) {
					return false
				}
			}
			return true
		}
		fromAddr := func(v ssa.Value) bool {
			return backSlice(v, SliceOpts{ThroughCallArgs: alwaysThrough}).HasValue(addr)
		}
		gCode := boolCallGuards(fn, true, func(c *ssa.Call) bool {
			if !isCallTo(c, CallSpec{pkgEvmTypes, "", "IsEmptyCodeHash"}) {
				return false
			}
			s := backSlice(c.Call.Args[0], SliceOpts{ThroughCallArgs: alwaysThrough})
			return s.HasCall(CallSpec{pkgEvmKeeper, "Keeper", "GetCodeHash"}) && s.HasValue(addr)
		})
		r.Check(all(gCode), "IsEmptyAccount › code hash", e.Pos(fn.Pos()), "true only if IsEmptyCodeHash(GetCodeHash(addr))", "an account with contract code can be reported empty (and deleted when touched)")
		gBal := boolCallGuards(fn, true, func(c *ssa.Call) bool {
			if !isMethodNamed(c, "IsZero") {
				return false
			}
			s := backSlice(recvOperand(c), SliceOpts{ThroughCallArgs: alwaysThrough})
			return s.Has(func(v ssa.Value) bool {
				cc, ok := v.(*ssa.Call)
				return ok && isMethodNamed(cc, "GetAllBalances")
			}) && s.HasValue(addr)
		})
		r.Check(all(gBal), "IsEmptyAccount › all balances", e.Pos(fn.Pos()), "true only if GetAllBalances(addr).IsZero()", "an account is reported empty without ALL of its balances (every denomination, bank GetAllBalances) being zero: touching it deletes the account and burns its other coins")
		// sequence: true only via acc == nil or !(seq > 0)
		var gSeq []Guard
		for _, i := range ifs(fn) {
			b, ok := i.Cond.(*ssa.BinOp)
			if !ok {
				continue
			}
			if c, _ := callOf(b.X); c != nil && isMethodNamed(c, "GetSequence") && fromAddr(recvOperand(c)) {
				if k, isK := constInt(b.Y); isK && k == 0 {
					switch b.Op {
					case token.GTR, token.NEQ:
						gSeq = append(gSeq, Guard{If: i, Survive: 1})
					case token.EQL:
						gSeq = append(gSeq, Guard{If: i, Survive: 0})
					}
				}
			}
			if (b.Op == token.NEQ || b.Op == token.EQL) && (isNilConst(b.Y) || isNilConst(b.X)) {
				v := b.X
				if isNilConst(b.X) {
					v = b.Y
				}
				if c, _ := callOf(v); c != nil && isMethodNamed(c, "GetAccount") {
					s := 1
					if b.Op == token.EQL {
						s = 0
					}
					gSeq = append(gSeq, Guard{If: i, Survive: s})
				}
			}
		}
		hasSeq := false
		for _, c := range callsIn(fn, false, func(c ssa.CallInstruction) bool { return isMethodNamed(c, "GetSequence") }) {
			_ = c
			hasSeq = true
		}
		r.Check(hasSeq && all(gSeq), "IsEmptyAccount › nonce", e.Pos(fn.Pos()), "true only if the account is absent or its sequence is 0", "an account with a non-zero nonce can be reported empty")
		// storage: a flag set by the ForEachStorage callback (in IsEmptyAccount or in a single-site private helper that returns it)
		type flagAfter struct {
			a *ssa.Alloc
			c ssa.CallInstruction
		}
		stReg := e.privateRegion(fn)
		flagsOf := map[*ssa.Function][]flagAfter{}
		for _, f := range stReg.Fns {
			for _, c := range callsTo(f, false, CallSpec{pkgEvmKeeper, "Keeper", "ForEachStorage"}) {
				args := c.Common().Args
				mc, ok := args[len(args)-1].(*ssa.MakeClosure)
				if !ok || !stReg.BackSlice(args[len(args)-2], SliceOpts{ThroughCallArgs: alwaysThrough}).HasValue(addr) {
					continue
				}
				for _, b := range mc.Bindings {
					a, ok := b.(*ssa.Alloc)
					if !ok {
						continue
					}
					// closure stores true into the captured flag
					setsTrue := false
					allInstrs(mc.Fn.(*ssa.Function), false, func(_ *ssa.Function, _ *ssa.BasicBlock, in ssa.Instruction) {
						if st, ok := in.(*ssa.Store); ok {
							if v, isB := constBool(st.Val); isB && v {
								if _, isFV := st.Addr.(*ssa.FreeVar); isFV {
									setsTrue = true
								}
							}
						}
					})
					if setsTrue {
						flagsOf[f] = append(flagsOf[f], flagAfter{a, c})
					}
				}
			}
		}
		// isFlagVal: v is the flag read after the iteration, or the result of a region helper all of whose returns are
		var isFlagVal func(v ssa.Value, depth int) bool
		isFlagVal = func(v ssa.Value, depth int) bool {
			if u, ok := v.(*ssa.UnOp); ok && u.Op == token.MUL {
				for _, fl := range flagsOf[u.Parent()] {
					if u.X == ssa.Value(fl.a) && dominatesInstr(fl.c.(ssa.Instruction), u) {
						return true
					}
				}
				return false
			}
			if c, ok := v.(*ssa.Call); ok && depth > 0 {
				h := c.Call.StaticCallee()
				if h == nil || h == fn || !stReg.in[h] {
					return false
				}
				rets := returnsOf(h)
				if len(rets) == 0 {
					return false
				}
				for _, ret := range rets {
					if len(ret.Results) != 1 || !isFlagVal(ret.Results[0], depth-1) {
						return false
					}
				}
				return true
			}
			return false
		}
		var gState []Guard
		for _, i := range ifs(fn) {
			if isFlagVal(i.Cond, 2) {
				gState = append(gState, Guard{If: i, Survive: 1})
			}
		}
		// `return !anyState` / `return !k.hasAnyStorage(ctx, addr)`: the returned value itself is the negated flag
		negFlag := func(ret *ssa.Return) bool {
			n, ok := ret.Results[0].(*ssa.UnOp)
			return ok && n.Op == token.NOT && isFlagVal(n.X, 2)
		}
		nFlags := 0
		for _, fl := range flagsOf {
			nFlags += len(fl)
		}
		okState := len(trueRets) > 0 && nFlags > 0
		for _, ret := range trueRets {
			if !(len(gState) > 0 && mustPass(fn, ret, gState)) && !negFlag(ret) {
				okState = false
			}
		}
		r.Check(okState, "IsEmptyAccount › storage", e.Pos(fn.Pos()), "true only if ForEachStorage found no entry", "an account that still has storage can be reported empty")
	})

	r.Rule("R5", "PAIR", "every normal exit of DestroyAccount has removed the auth account (if any), burnt ALL balances (if any), deleted the code hash and deleted every storage key", 5, func() {
		rets := returnsOf(da)
		if len(rets) == 0 {
			undecidedf("DestroyAccount has no return")
		}
		okAll := func(via ssa.CallInstruction, bypass []Guard) bool {
			if via == nil {
				return false
			}
			for _, ret := range rets {
				if !sg.PassesOr(ret, via, bypass) {
					return false
				}
			}
			return true
		}
		r.Check(okAll(remove, gNil), "DestroyAccount › auth account removed", e.Pos(da.Pos()), "RemoveAccount on every exit unless the account is absent", "an exit of DestroyAccount leaves the auth account record in place")
		// burn: bypass = zero-balance edge
		var gZero []Guard
		if burn != nil {
			gZero = reg.BoolCallGuards(true, func(c *ssa.Call) bool {
				return isMethodNamed(c, "IsZero") && backSlice(recvOperand(c), SliceOpts{}).Has(func(v ssa.Value) bool {
					cc, ok := v.(*ssa.Call)
					return ok && isMethodNamed(cc, "GetAllBalances")
				})
			})
		}
		r.Check(okAll(burn, gZero), "DestroyAccount › balances burnt", e.Pos(da.Pos()), "burnCoins on every exit unless all balances are zero", "an exit of DestroyAccount leaves balances behind")
		if burn != nil {
			args := burn.Common().Args
			sl := backSlice(args[len(args)-1], SliceOpts{})
			okB := sl.Has(func(v ssa.Value) bool {
				cc, ok := v.(*ssa.Call)
				if !ok || !isMethodNamed(cc, "GetAllBalances") {
					return false
				}
				return reg.Slice(cc.Call.Args[len(cc.Call.Args)-1]).HasValue(addrP)
			})
			r.Check(okB, "DestroyAccount › burns every denomination", e.Pos(burn.Pos()), "burnCoins(addr, GetAllBalances(addr))", "the burnt amount is not the account's GetAllBalances (coins of other denominations survive the account)")
		}
		r.Check(okAll(delCode, nil), "DestroyAccount › code hash deleted", e.Pos(da.Pos()), "DeleteCodeHash on every exit", "an exit of DestroyAccount keeps the code hash")
		okSt := okAll(forEach, nil)
		if forEach != nil {
			args := forEach.Common().Args
			mc, isMC := args[len(args)-1].(*ssa.MakeClosure)
			del := false
			if isMC {
				cf := mc.Fn.(*ssa.Function)
				for _, c := range callsIn(cf, false, func(c ssa.CallInstruction) bool { return isMethodNamed(c, "SetState") }) {
					a := c.Common().Args
					if isNilConst(strip(a[len(a)-1])) && strip(a[len(a)-2]) == ssa.Value(cf.Params[0]) {
						del = true
					}
				}
				// callback must keep iterating: returns true
				for _, ret := range returnsOf(cf) {
					if b, ok := constBool(ret.Results[0]); !ok || !b {
						del = false
					}
				}
			}
			okSt = okSt && del
		}
		if okSt {
			_, probs := iterationHelpersComplete(e)
			for _, pr := range probs {
				if strings.Contains(pr, "ForEachStorage") {
					okSt = false
				}
			}
		}
		r.Check(okSt, "DestroyAccount › every storage key deleted", e.Pos(da.Pos()), "ForEachStorage(addr, key → SetState(key, nil); continue)", "an exit of DestroyAccount keeps storage entries (iteration stopped early, not every key deleted, not executed, or Keeper.ForEachStorage filters entries before the callback — e.g. skips cleared slots, which are real store entries here)")
	})

	r.Rule("R7", "ALIASING", "an account is deleted at commit only if its self-destruct survived: the self-destruct marks are snapshotted by an independent copy (AccountTracker.Copy never hands back its receiver or shares its map), otherwise a SELFDESTRUCT in a reverted frame stays marked and a merely touched contract — code, storage, balance — is destroyed by a successful transaction (shared with C03-R1)", 1, func() {
		cp := e.Fn(pkgEvmVM, "AccountTracker.Copy")
		ma := &mutationAnalysis{e: e, pkg: pkgEvmVM, memo: map[*ssa.Function]int{}}
		al, why := ma.copyAliases(cp, 3)
		r.Check(!al, "x/evm/vm.AccountTracker.Copy › independent copy", e.Pos(cp.Pos()), "fresh map filled from the receiver", "the copy of the self-destruct / touched set can alias the live set ("+why+"): marks made in a frame that is later reverted survive the revert, and CommitMultiStore destroys an account that did not self-destruct")
	})

	r.Rule("R6", "CENSUS", "the StateDB debits accounts only through bank.SendCoinsFromAccountToModule (which enforces vesting locks) paired with BurnCoins; no other bank mutator is called from package vm", 4, func() {
		allowed := map[string]bool{"GetBalance": true, "GetAllBalances": true, "MintCoins": true, "BurnCoins": true, "SendCoinsFromModuleToAccount": true, "SendCoinsFromAccountToModule": true, "SpendableCoins": true, "GetSupply": true, "HasBalance": true}
		bankI := e.Iface(SDK+"/x/bank/keeper", "Keeper")
		n := 0
		for _, f := range e.SrcFuncs(func(p string) bool { return p == pkgEvmVM }) {
			if IsGenerated(e.File(f.Pos())) {
				continue
			}
			for _, c := range callsIn(f, false, func(c ssa.CallInstruction) bool {
				cc := c.Common()
				return cc.IsInvoke() && types.Identical(cc.Value.Type().Underlying(), bankI)
			}) {
				n++
				m := c.Common().Method.Name()
				r.Check(allowed[m], fnKey(f)+" › bank."+m, e.Pos(c.Pos()), "allowed bank entry", "the StateDB calls bank."+m+": a debit/credit path that does not go through the module-account pair (vesting locks or supply accounting bypassed)")
			}
		}
		bc := e.Fn(pkgEvmVM, "cStateDb.burnCoins")
		var send, brn ssa.CallInstruction
		for _, c := range callsIn(bc, false, func(c ssa.CallInstruction) bool { return isMethodNamed(c, "SendCoinsFromAccountToModule") }) {
			send = c
		}
		for _, c := range callsIn(bc, false, func(c ssa.CallInstruction) bool { return isMethodNamed(c, "BurnCoins") }) {
			brn = c
		}
		r.Check(send != nil && brn != nil && dominatesInstr(send, brn), "burnCoins › debit through SendCoinsFromAccountToModule", e.Pos(bc.Pos()), "SendCoinsFromAccountToModule then BurnCoins", "burnCoins does not debit the account through SendCoinsFromAccountToModule before burning")
		r.Count("bank_calls_in_vm", n)
	})
}

// destroyBurnsAllBalances: every normal exit of DestroyAccount has passed burnCoins(addr, GetAllBalances(addr)) unless all
// balances were zero (decided on the supergraph of DestroyAccount and its private helpers). Shared by C15-R5 and C04-R2:
// CreateAccount re-mints the carried-over balances on the strength of this burn.
func destroyBurnsAllBalances(e *Engine) (bool, string) {
	da := e.Fn(pkgEvmVM, "cStateDb.DestroyAccount")
	addrP := da.Params[1]
	reg := e.privateRegion(da)
	sg := reg.Supergraph()
	burn := reg.First(func(c ssa.CallInstruction) bool { return isCallTo(c, CallSpec{pkgEvmVM, "cStateDb", "burnCoins"}) })
	if burn == nil {
		return false, "DestroyAccount never burns"
	}
	gZero := reg.BoolCallGuards(true, func(c *ssa.Call) bool {
		return isMethodNamed(c, "IsZero") && backSlice(recvOperand(c), SliceOpts{}).Has(func(v ssa.Value) bool {
			cc, ok := v.(*ssa.Call)
			return ok && isMethodNamed(cc, "GetAllBalances")
		})
	})
	rets := returnsOf(da)
	if len(rets) == 0 {
		return false, "DestroyAccount has no return"
	}
	for _, ret := range rets {
		if !sg.PassesOr(ret, burn, gZero) {
			return false, "an exit of DestroyAccount (" + e.Pos(ret.Pos()) + ") is reachable without burning the account's balances"
		}
	}
	args := burn.Common().Args
	if !backSlice(args[len(args)-1], SliceOpts{}).Has(func(v ssa.Value) bool {
		cc, ok := v.(*ssa.Call)
		return ok && isMethodNamed(cc, "GetAllBalances") && reg.Slice(cc.Call.Args[len(cc.Call.Args)-1]).HasValue(addrP)
	}) {
		return false, "the burnt amount is not GetAllBalances of the destroyed address"
	}
	return true, ""
}

package main

import (
	"go/token"
	"go/types"

	"golang.org/x/tools/go/ssa"
)

func init() { registry["C06"] = checkC06 }

const (
	pkgEvmKeeper = EV + "/x/evm/keeper"
	pkgEvmTypes  = EV + "/x/evm/types"
	pkgEvmUtils  = EV + "/x/evm/utils"
	pkgEvmVM     = EV + "/x/evm/vm"
	pkgGethTypes = GETH + "/core/types"
	pkgSdkAnte   = SDK + "/x/auth/ante"
)

// decoratorWrapping finds the lane decorator that has a field of the given SDK ante decorator type.
func decoratorWrapping(ds []*Decorator, sdkType string) *Decorator {
	for _, d := range ds {
		st, ok := d.Type.Underlying().(*types.Struct)
		if !ok {
			continue
		}
		for i := 0; i < st.NumFields(); i++ {
			if namedTypePath(st.Field(i).Type()) == pkgSdkAnte+"."+sdkType {
				return d
			}
		}
	}
	undecidedf("no lane decorator wraps %s.%s", pkgSdkAnte, sdkType)
	return nil
}

// decoratorCalling finds the lane decorator whose AnteHandle calls spec.
func decoratorCalling(ds []*Decorator, lane string, spec CallSpec) *Decorator {
	for _, d := range ds {
		if lane != "" && d.Lane != lane {
			continue
		}
		if len(callsTo(d.Fn, true, spec)) > 0 {
			return d
		}
	}
	undecidedf("no %s-lane decorator calls %s", lane, spec)
	return nil
}

// ethNextCalls lists the next() calls of an AnteHandle that are reachable on the Ethereum lane.
func ethNextCalls(fn *ssa.Function) []ssa.CallInstruction {
	_, cosmos := laneGuards(fn)
	reach := reachable(fn, fn.Blocks[0], surviveEdges(cosmos))
	var out []ssa.CallInstruction
	for _, c := range callsIn(fn, false, func(c ssa.CallInstruction) bool { return isNextCall(fn, c) }) {
		if reach[c.Block()] {
			out = append(out, c)
		}
	}
	return out
}

// guardsNextOnEth: every Ethereum-lane path to next() passes one of the guards (re-check paths optionally exempt).
func guardsNextOnEth(fn *ssa.Function, gs []Guard, exemptRecheck bool) bool {
	if len(gs) == 0 {
		return false
	}
	_, cosmos := laneGuards(fn)
	del := surviveEdges(gs)
	for k := range surviveEdges(cosmos) {
		del[k] = true
	}
	if exemptRecheck {
		for _, g := range boolCallGuards(fn, true, func(c *ssa.Call) bool {
			return isCallTo(c, CallSpec{pkgSdkTypes, "Context", "IsReCheckTx"})
		}) {
			b := g.If.Block()
			del[edge{b.Index, b.Succs[g.Survive].Index}] = true
		}
	}
	reach := reachable(fn, fn.Blocks[0], del)
	n := 0
	for _, c := range callsIn(fn, false, func(c ssa.CallInstruction) bool { return isNextCall(fn, c) }) {
		n++
		if reach[c.Block()] {
			return false
		}
	}
	return n > 0
}

// confirmFailEdge keeps only guards whose failing edge really leaves with a non-nil error / panic and cannot reach next().
func confirmFailEdge(fn *ssa.Function, gs []Guard) []Guard {
	var out []Guard
	for _, g := range gs {
		eg, ok := errorExitGuard(fn, g.If, func(c ssa.CallInstruction) bool { return isNextCall(fn, c) })
		if ok && eg.Survive == g.Survive {
			out = append(out, g)
		}
	}
	return out
}

// msgFromTx: value derives from tx.GetMsgs() of the AnteHandle's tx parameter.
func derivesFromTxMsgs(fn *ssa.Function, v ssa.Value) bool {
	sl := backSlice(v, SliceOpts{ThroughCallArgs: alwaysThrough})
	txP := anteParam(fn, 1)
	return sl.Has(func(x ssa.Value) bool {
		c, ok := x.(*ssa.Call)
		return ok && isMethodNamed(c, "GetMsgs") && strip(c.Call.Value) == ssa.Value(txP)
	})
}

func checkC06(e *Engine, r *Report) {
	e.BuildSSA()
	r.NotDecided("cryptographic soundness of ecrecover and of the SDK's signature decorators (trusted base)")
	r.NotDecided("numeric nonce trajectories over histories; only the admission guards, their order and the pairing of the nonce bookkeeping are decided")
	ds := decoratorCensus(e)
	chain := chainLiteral(e)
	indexChain(ds, chain)

	setup := decoratorWrapping(ds, "SetUpContextDecorator")
	vb := decoratorWrapping(ds, "ValidateBasicDecorator")
	fee := decoratorWrapping(ds, "DeductFeeDecorator")
	sig := decoratorWrapping(ds, "SigVerificationDecorator")
	inc := decoratorWrapping(ds, "IncrementSequenceDecorator")
	setupExec := decoratorCalling(ds, "evm", CallSpec{pkgEvmKeeper, "Keeper", "SetupExecutionContext"})
	execNoErr := decoratorCalling(ds, "evm", CallSpec{pkgEvmKeeper, "", "ApplyMessage"})
	eoa := decoratorCalling(ds, "evm", CallSpec{pkgEvmKeeper, "Keeper", "GetCodeHash"})

	r.Rule("R1", "CENSUS-ORDER", "chain order: setup-context first; validate-basic < EOA check, deduct-fee < sig-verification < increment-sequence < setup-execution < exec-without-error", 6, func() {
		lt := func(a, b *Decorator) {
			r.Check(a.Index >= 0 && b.Index >= 0 && a.Index < b.Index, "order "+a.Name()+" < "+b.Name(), e.Pos(a.Fn.Pos()),
				"positions "+itoa(a.Index)+" < "+itoa(b.Index), "decorator order violated: "+a.Name()+" (position "+itoa(a.Index)+") must run before "+b.Name()+" (position "+itoa(b.Index)+")")
		}
		r.Check(setup.Index == 0, "order "+setup.Name()+" first", e.Pos(setup.Fn.Pos()), "position 0", "the context set-up decorator is not the outermost decorator")
		lt(vb, fee)
		lt(vb, eoa)
		lt(vb, sig)
		lt(sig, inc)
		lt(fee, inc)
		lt(inc, setupExec)
		lt(setupExec, execNoErr)
	})

	r.Rule("R2", "MUST-PASS", "Ethereum-lane next() of the signature decorator is reachable only after: signer.Sender(ethTx) returned nil error; msg.From equals the bech32 of the recovered sender; ethTx.Nonce() equals the account sequence; the signer is LatestSignerForChainID(EIP-155 chain id of the keeper); the transaction checked is the embedded one", 6, func() {
		fn := sig.Fn
		name := sig.Name()
		senderSpec := CallSpec{pkgGethTypes, "Signer", "Sender"}
		var senderCalls []*ssa.Call
		for _, c := range callsTo(fn, false, senderSpec) {
			if cc, ok := c.(*ssa.Call); ok {
				senderCalls = append(senderCalls, cc)
			}
		}
		if len(senderCalls) == 0 {
			r.Bad(name+" › signer.Sender", e.Pos(fn.Pos()), "the signature decorator never recovers the sender with Signer.Sender")
			return
		}
		sc := senderCalls[0]
		// (a) err == nil
		ga := confirmFailEdge(fn, errNilGuards(fn, func(c *ssa.Call) bool { return c == sc }))
		r.Check(guardsNextOnEth(fn, ga, false), name+" › sender recovered", e.Pos(sc.Pos()), "next() only on the nil-error edge of signer.Sender", "next() is reachable on the Ethereum lane although signer.Sender(ethTx) failed or its error is not checked")
		// provenance of the signer
		sl := backSlice(sc.Call.Value, SliceOpts{ThroughCallArgs: alwaysThrough})
		r.Check(sl.HasCall(CallSpec{pkgGethTypes, "", "LatestSignerForChainID"}) && sl.HasCall(CallSpec{pkgEvmKeeper, "Keeper", "GetEip155ChainId"}),
			name+" › signer chain id", e.Pos(sc.Pos()), "signer = LatestSignerForChainID(keeper.GetEip155ChainId(ctx))", "the signer is not LatestSignerForChainID of the chain's EIP-155 id (sources: "+sl.Describe()+"): signatures for another chain id / unprotected signatures recover")
		// provenance of the transaction
		r.Check(len(sc.Call.Args) == 1 && derivesFromTxMsgs(fn, sc.Call.Args[0]) && backSlice(sc.Call.Args[0], SliceOpts{ThroughCallArgs: alwaysThrough}).HasCall(CallSpec{pkgEvmTypes, "MsgEthereumTx", "AsTransaction"}),
			name+" › checked tx is the embedded tx", e.Pos(sc.Pos()), "Sender(msg.AsTransaction()) of tx.GetMsgs()", "the transaction whose sender is recovered is not the embedded transaction of tx.GetMsgs()")
		// (b) From equality
		fromField := func(v ssa.Value) bool {
			s := backSlice(v, SliceOpts{ThroughCallArgs: alwaysThrough})
			return s.Has(func(x ssa.Value) bool {
				fv := fieldVar(x)
				return fv != nil && fv.Name() == "From" && fv.Pkg() != nil && fv.Pkg().Path() == pkgEvmTypes
			}) || s.HasCall(CallSpec{pkgEvmTypes, "MsgEthereumTx", "GetFrom"})
		}
		// the declared (attacker-chosen) side must not pass through a truncating conversion into a fixed-size type:
		// comparing only the trailing 20 bytes lets a longer account address stand in for the signer
		lossy := func(v ssa.Value) bool {
			s := backSlice(v, SliceOpts{ThroughCallArgs: alwaysThrough})
			return s.HasCall(CallSpec{GETH + "/common", "", "BytesToAddress"}, CallSpec{GETH + "/common", "", "HexToAddress"}, CallSpec{GETH + "/common", "", "BigToAddress"},
				CallSpec{GETH + "/common", "Address", "SetBytes"}, CallSpec{GETH + "/common", "", "BytesToHash"})
		}
		fromSender := func(v ssa.Value) bool {
			return backSlice(v, SliceOpts{ThroughCallArgs: alwaysThrough}).HasValue(sc)
		}
		gb := confirmFailEdge(fn, eqGuards(fn, true, func(v ssa.Value) bool { return fromField(v) && !fromSender(v) && !lossy(v) }, func(v ssa.Value) bool { return fromSender(v) && !fromField(v) }))
		gb = append(gb, confirmFailEdge(fn, boolCallGuards(fn, true, func(c *ssa.Call) bool {
			// Equal/bytes.Equal style comparison
			fo := calleeObj(c)
			if fo == nil || !(fo.Name() == "Equal" || fo.Name() == "Equals" || fo.Name() == "EqualFold") {
				return false
			}
			var ops []ssa.Value
			if c.Call.IsInvoke() {
				ops = append(ops, c.Call.Value)
			}
			ops = append(ops, c.Call.Args...)
			if len(ops) != 2 {
				return false
			}
			return (fromField(ops[0]) && !lossy(ops[0]) && fromSender(ops[1])) || (fromField(ops[1]) && !lossy(ops[1]) && fromSender(ops[0]))
		}))...)
		r.Check(guardsNextOnEth(fn, gb, false), name+" › From == recovered sender", e.Pos(sc.Pos()), "next() only on the equal edge of msg.From vs recovered sender", "next() is reachable on the Ethereum lane without the full declared msg.From having been compared (equal) with the recovered sender (a comparison through a truncating conversion such as common.BytesToAddress does not count): someone else can act for a declared sender")
		// (c) nonce equality
		isNonce := func(v ssa.Value) bool {
			c, _ := callOf(v)
			return c != nil && isCallTo(c, CallSpec{pkgGethTypes, "Transaction", "Nonce"})
		}
		isSeq := func(v ssa.Value) bool {
			c, _ := callOf(v)
			if c == nil || !isMethodNamed(c, "GetSequence") {
				return false
			}
			// the account is GetAccount(ctx, msg.GetFrom())
			s := backSlice(c.Call.Value, SliceOpts{ThroughCallArgs: alwaysThrough})
			return s.Has(func(x ssa.Value) bool {
				cc, ok := x.(*ssa.Call)
				return ok && isMethodNamed(cc, "GetAccount")
			}) && fromField(c.Call.Value)
		}
		gc := confirmFailEdge(fn, eqGuards(fn, true, isNonce, isSeq))
		r.Check(guardsNextOnEth(fn, gc, false), name+" › nonce == sequence", e.Pos(sc.Pos()), "next() only on the equal edge of ethTx.Nonce() vs account sequence of msg.From", "next() is reachable on the Ethereum lane without ethTx.Nonce() == sequence of the sender's account (strict equality): replay or nonce gaps possible")
		// the nonce compared belongs to the same embedded tx
		okN := false
		for _, c := range callsTo(fn, false, CallSpec{pkgGethTypes, "Transaction", "Nonce"}) {
			if len(c.Common().Args) > 0 && derivesFromTxMsgs(fn, c.Common().Args[0]) {
				okN = true
			}
		}
		r.Check(okN, name+" › nonce of the embedded tx", e.Pos(sc.Pos()), "Nonce() of tx.GetMsgs()[0].AsTransaction()", "the nonce compared is not that of the embedded transaction")
	})

	r.Rule("R3", "MUST-PASS", "replay protection and basic validation: the validate-basic decorator reaches Ethereum-lane next() (outside re-check) only after ethTx.Protected() is true and MsgEthereumTx.ValidateBasic() returned nil; MsgEthereumTx.ValidateBasic itself verifies From against the signature", 3, func() {
		fn := vb.Fn
		name := vb.Name()
		gp := confirmFailEdge(fn, boolCallGuards(fn, true, func(c *ssa.Call) bool {
			return isCallTo(c, CallSpec{pkgGethTypes, "Transaction", "Protected"}) && derivesFromTxMsgs(fn, c.Call.Args[0])
		}))
		r.Check(guardsNextOnEth(fn, gp, true), name+" › Protected()", e.Pos(fn.Pos()), "unprotected (pre-EIP-155) transactions are rejected before next()", "next() is reachable on the Ethereum lane without the embedded transaction having passed Protected(): transactions without chain id replay across chains")
		gv := confirmFailEdge(fn, errNilGuards(fn, func(c *ssa.Call) bool {
			return isCallTo(c, CallSpec{pkgEvmTypes, "MsgEthereumTx", "ValidateBasic"}) && derivesFromTxMsgs(fn, c.Call.Args[0])
		}))
		r.Check(guardsNextOnEth(fn, gv, true), name+" › msg.ValidateBasic()", e.Pos(fn.Pos()), "MsgEthereumTx.ValidateBasic error rejects before next()", "next() is reachable on the Ethereum lane without MsgEthereumTx.ValidateBasic() having returned nil")
		// AsMessage(signer(chain id)) must succeed too (chain-id match of the signature)
		ga := confirmFailEdge(fn, errNilGuards(fn, func(c *ssa.Call) bool {
			if !isCallTo(c, CallSpec{pkgGethTypes, "Transaction", "AsMessage"}) {
				return false
			}
			s := backSlice(c.Call.Args[1], SliceOpts{ThroughCallArgs: alwaysThrough})
			return s.HasCall(CallSpec{pkgGethTypes, "", "LatestSignerForChainID"}) && s.HasCall(CallSpec{pkgEvmKeeper, "Keeper", "GetEip155ChainId"})
		}))
		r.Check(guardsNextOnEth(fn, ga, true), name+" › AsMessage(chain signer)", e.Pos(fn.Pos()), "signature must recover under the chain's signer before next()", "next() is reachable on the Ethereum lane without AsMessage(LatestSignerForChainID(chain id)) having succeeded")
	})

	r.Rule("R4", "PAIR", "nonce bookkeeping: the increment decorator performs SetSequence(GetSequence()+1) → SetAccount → SetFlagSenderNonceIncreasedByAnteHandle(true) before every Ethereum-lane next(); Keeper.EthereumTx undoes it only under the flag, with SetSequence(GetSequence()-1) → SetAccount → flag reset before ApplyTransaction", 8, func() {
		checkNoncePair(e, r, inc)
	})

	r.Rule("R5", "MUST-PASS", "EOA: the EVM-lane EOA decorator reaches next() only if the code hash of msg.From is empty", 1, func() {
		fn := eoa.Fn
		g := confirmFailEdge(fn, boolCallGuards(fn, true, func(c *ssa.Call) bool {
			if !isCallTo(c, CallSpec{pkgEvmTypes, "", "IsEmptyCodeHash"}) {
				return false
			}
			s := backSlice(c.Call.Args[0], SliceOpts{ThroughCallArgs: alwaysThrough})
			return s.HasCall(CallSpec{pkgEvmKeeper, "Keeper", "GetCodeHash"}) && derivesFromTxMsgs(fn, c.Call.Args[0])
		}))
		r.Check(guardsNextOnEth(fn, g, false), eoa.Name()+" › sender has no code", e.Pos(fn.Pos()), "next() only when IsEmptyCodeHash(GetCodeHash(ctx, msg.From))", "next() is reachable on the Ethereum lane for a sender with contract code (EIP-3607 check missing or on the wrong address)")
	})

	r.Rule("R6", "MUST-PASS", "exactly once: the message server has undone the ante handler's nonce increment, so every state transition that returns a result (and is committed whenever commit was requested) (and lets the fee stand) re-applies it: the call path sets nonce+1 itself; the create path relies on evm.Create, which increments the nonce only after its own balance check — therefore the transition's value-affordability check (clause 6: value > 0 ∧ !CanTransfer ⇒ consensus error) must dominate evm.Create and evm.Call for creations and calls alike", 3, func() {
		td := e.Fn(pkgEvmKeeper, "StateTransition.TransitionDb")
		creates := callsTo(td, false, CallSpec{pkgGethVM, "EVM", "Create"})
		calls := callsTo(td, false, CallSpec{pkgGethVM, "EVM", "Call"})
		if len(creates) != 1 || len(calls) != 1 {
			r.Bad("TransitionDb › EVM entry points", e.Pos(td.Pos()), "expected one evm.Create and one evm.Call")
			return
		}
		// guards: value.Sign() > 0 is false, or CanTransfer(...) is true
		var gs []Guard
		for _, i := range ifs(td) {
			b, ok := i.Cond.(*ssa.BinOp)
			if !ok || b.Op != token.GTR {
				continue
			}
			c, _ := callOf(b.X)
			k, isK := constInt(b.Y)
			if c != nil && isK && k == 0 && isCallTo(c, CallSpec{pkgBig, "Int", "Sign"}) && sliceFrom(c.Call.Args[0]).Has(func(v ssa.Value) bool {
				cc, isC := v.(*ssa.Call)
				return isC && isMethodNamed(cc, "Value")
			}) {
				gs = append(gs, Guard{If: i, Survive: 1})
			}
		}
		for _, g := range boolCallGuards(td, true, func(c *ssa.Call) bool {
			fv := fieldVarOfLoad(c.Call.Value)
			return fv != nil && fv.Name() == "CanTransfer"
		}) {
			if failEdgeReturnsError(td, g, func(i ssa.Instruction) bool {
				return i == creates[0].(ssa.Instruction) || i == calls[0].(ssa.Instruction)
			}) {
				gs = append(gs, g)
			}
		}
		r.Check(mustPass(td, creates[0], gs), "x/evm/keeper.StateTransition.TransitionDb › value affordability checked before evm.Create", e.Pos(creates[0].Pos()), "value <= 0 or CanTransfer(from, value) dominates the creation", "a contract creation whose value the sender cannot afford reaches evm.Create, which fails before incrementing the nonce: the transaction is accepted (fee charged, failed receipt) without consuming its nonce, so the same signed bytes can be included again and again")
		r.Check(mustPass(td, calls[0], gs), "x/evm/keeper.StateTransition.TransitionDb › value affordability checked before evm.Call", e.Pos(calls[0].Pos()), "value <= 0 or CanTransfer(from, value) dominates the call", "a call whose value the sender cannot afford is executed")
		// the call path re-applies the nonce itself, before the call
		sn := callsIn(td, false, func(c ssa.CallInstruction) bool { return isMethodNamed(c, "SetNonce") })
		okN := len(sn) == 1 && dominatesInstr(sn[0].(ssa.Instruction), calls[0].(ssa.Instruction))
		if okN {
			b, isB := resolveLocal(sn[0].Common().Args[len(sn[0].Common().Args)-1]).(*ssa.BinOp)
			okN = isB && b.Op == token.ADD
			if okN {
				k, isK := constInt(b.Y)
				g, _ := callOf(b.X)
				okN = isK && k == 1 && g != nil && isMethodNamed(g, "GetNonce")
			}
		}
		// …and the re-applied nonce is kept: ApplyMessageWithConfig commits the StateDB on EVERY path that returns a result when
		// commit was requested — a revert or VM error is a result, not a reason to skip the commit (the sender's nonce bump and
		// the gas accounting live outside the reverted call frame)
		{
			amwc := e.Fn(pkgEvmKeeper, "Keeper.ApplyMessageWithConfig")
			commits := callsIn(amwc, false, func(c ssa.CallInstruction) bool { return isMethodNamed(c, "CommitMultiStore") })
			commitP := ssa.Value(amwc.Params[4])
			var bypass []Guard
			for _, i := range ifs(amwc) {
				if resolveLocal(i.Cond) == commitP {
					bypass = append(bypass, Guard{If: i, Survive: 1})
				}
				if u, isU := i.Cond.(*ssa.UnOp); isU && u.Op == token.NOT && resolveLocal(u.X) == commitP {
					bypass = append(bypass, Guard{If: i, Survive: 0})
				}
			}
			okC := len(commits) == 1 && len(successReturns(amwc)) > 0
			if okC {
				for _, ret := range successReturns(amwc) {
					if !passesOr(amwc, ret, commits[0], bypass) {
						okC = false
					}
				}
			}
			r.Check(okC, "x/evm/keeper.Keeper.ApplyMessageWithConfig › every result is committed when commit is requested", e.Pos(amwc.Pos()), "CommitMultiStore on every success return unless commit == false", "a result (e.g. a reverted execution) can be returned without committing the StateDB although commit was requested: the sender's nonce increment is lost while the fee stands — the same signed bytes are accepted again")
		}
		r.Check(okN, "x/evm/keeper.StateTransition.TransitionDb › call path sets nonce+1 before evm.Call", e.Pos(td.Pos()), "SetNonce(from, GetNonce(from)+1) dominates evm.Call", "a message call does not consume the sender's nonce")
	})

	r.Rule("R7", "MUST-PASS", "an Ethereum message can reach the EVM message server only through the Ethereum lane, whose decorators verify its signature and nonce: the Cosmos-lane authz screen (which refuses MsgEthereumTx nested in MsgExec) inspects EVERY message of a transaction and of every MsgExec — no success return from inside its loop — and MsgEthereumTx is on the default disabled list (both shared with C07-R4)", 1, func() {
		ok, why := authzScreenInspectsAll(e)
		fn := e.Fn(pkgCosmoLane, "CLRejectAuthzMsgsDecorator.checkDisabledMsgs")
		r.Check(ok, "992c › nested Ethereum messages screened", e.Pos(fn.Pos()), "checkDisabledMsgs inspects every message and recurses into MsgExec", why+" — a MsgEthereumTx nested in a later MsgExec reaches the message server without signature, chain-id or nonce verification (x/authz needs no grant when grantee = declared From)")
	})
}

func checkNoncePair(e *Engine, r *Report, inc *Decorator) {
	fn := inc.Fn
	name := inc.Name()
	flagSpec := CallSpec{pkgEvmKeeper, "Keeper", "SetFlagSenderNonceIncreasedByAnteHandle"}
	findSetSeq := func(f *ssa.Function, op token.Token) *ssa.Call {
		for _, c := range callsIn(f, false, func(c ssa.CallInstruction) bool { return isMethodNamed(c, "SetSequence") }) {
			cc, ok := c.(*ssa.Call)
			if !ok || len(cc.Call.Args) == 0 {
				continue
			}
			b, ok := cc.Call.Args[len(cc.Call.Args)-1].(*ssa.BinOp)
			if !ok || b.Op != op {
				continue
			}
			one, isC := constInt(b.Y)
			g, _ := callOf(b.X)
			if isC && one == 1 && g != nil && isMethodNamed(g, "GetSequence") && strip(g.Call.Value) == strip(cc.Call.Value) {
				return cc
			}
		}
		return nil
	}
	setAccPred := func(acc ssa.Value) func(ssa.CallInstruction) bool {
		return func(c ssa.CallInstruction) bool {
			if !isMethodNamed(c, "SetAccount") {
				return false
			}
			a := c.Common().Args
			return len(a) > 0 && strip(a[len(a)-1]) == strip(acc)
		}
	}
	flagPred := func(val bool) func(ssa.CallInstruction) bool {
		return func(c ssa.CallInstruction) bool {
			if !isCallTo(c, flagSpec) {
				return false
			}
			a := c.Common().Args
			b, ok := constBool(a[len(a)-1])
			return ok && b == val
		}
	}

	// --- ante side (the decorator together with its single-site private helpers)
	reg := e.privateRegion(fn)
	sg := reg.Supergraph()
	var ss *ssa.Call
	for _, f := range reg.Fns {
		if ss = findSetSeq(f, token.ADD); ss != nil {
			break
		}
	}
	if ss == nil {
		r.Bad(name+" › SetSequence(GetSequence()+1)", e.Pos(fn.Pos()), "no SetSequence(acc.GetSequence()+1) on the account in the increment decorator")
	} else {
		nexts := ethNextCalls(fn)
		var sa, fl ssa.CallInstruction
		for _, c := range reg.Calls(setAccPred(ss.Call.Value)) {
			if sg.PassesOr(c, ss, nil) {
				sa = c
				break
			}
		}
		for _, c := range reg.Calls(flagPred(true)) {
			if sg.PassesOr(c, ss, nil) {
				fl = c
				break
			}
		}
		okDom := len(nexts) > 0
		_, cosmosG := laneGuards(fn)
		for _, n := range nexts {
			if !sg.PassesOr(n, ss, cosmosG) {
				okDom = false
			}
		}
		r.Check(okDom, name+" › increment before next", e.Pos(ss.Pos()), "SetSequence(+1) dominates every Ethereum-lane next()", "an Ethereum-lane path reaches next() without SetSequence(GetSequence()+1)")
		okSA := sa != nil
		okFl := fl != nil
		for _, n := range nexts {
			if sa == nil || !sg.PassesOr(n, sa, cosmosG) {
				okSA = false
			}
			if fl == nil || !sg.PassesOr(n, fl, cosmosG) {
				okFl = false
			}
		}
		r.Check(okSA, name+" › SetAccount persists the increment", e.Pos(ss.Pos()), "SetAccount(ctx, acc) of the same account dominates next()", "the incremented account is not stored with SetAccount on every Ethereum-lane path to next()")
		r.Check(okFl, name+" › flag raised", e.Pos(ss.Pos()), "SetFlagSenderNonceIncreasedByAnteHandle(ctx, true) dominates next()", "the nonce-increased flag is not raised on every Ethereum-lane path to next(): execution will not undo the increment and the EVM increments again (nonce +2)")
		// account is that of msg.From
		sl := reg.BackSlice(ss.Call.Value, SliceOpts{ThroughCallArgs: alwaysThrough})
		txP := anteParam(fn, 1)
		r.Check(sl.Has(func(x ssa.Value) bool {
			c, ok := x.(*ssa.Call)
			return ok && isMethodNamed(c, "GetMsgs") && strip(c.Call.Value) == ssa.Value(txP)
		}) && sl.Has(func(x ssa.Value) bool {
			c, ok := x.(*ssa.Call)
			return ok && isMethodNamed(c, "GetAccount")
		}), name+" › account of msg.From", e.Pos(ss.Pos()), "the account incremented is GetAccount(ctx, msg.GetFrom())", "the account whose sequence is incremented does not derive from the embedded message's From")
		// the flag is never raised anywhere else in repo code
		n := 0
		for _, f := range e.SrcFuncs(e.RepoOwned) {
			if IsGenerated(e.File(f.Pos())) {
				continue
			}
			for _, c := range callsIn(f, false, flagPred(true)) {
				if !reg.in[f] {
					r.Bad("flag raised outside the increment decorator › "+fnKey(f), e.Pos(c.Pos()), "SetFlagSenderNonceIncreasedByAnteHandle(true) is called outside the increment decorator: the execution-side undo would decrement a nonce that was never incremented")
					n++
				}
			}
		}
		if n == 0 {
			r.OK("flag raised only by the increment decorator", e.Pos(fn.Pos()), "single raiser")
		}
	}

	// --- execution side (EthereumTx together with its single-site private helpers)
	ex := e.Fn(pkgEvmKeeper, "Keeper.EthereumTx")
	exReg := e.privateRegion(ex)
	exSG := exReg.Supergraph()
	var ds *ssa.Call
	for _, f := range exReg.Fns {
		if ds = findSetSeq(f, token.SUB); ds != nil {
			break
		}
	}
	apply := callsTo(ex, false, CallSpec{pkgEvmKeeper, "Keeper", "ApplyTransaction"})
	if len(apply) != 1 {
		r.Undec("Keeper.EthereumTx › ApplyTransaction", e.Pos(ex.Pos()), "expected exactly one call of ApplyTransaction")
		return
	}
	if ds == nil {
		r.Bad("Keeper.EthereumTx › undo", e.Pos(ex.Pos()), "no SetSequence(acc.GetSequence()-1) in EthereumTx: the ante increment is never undone and the EVM increments again (nonce +2 per transaction)")
		return
	}
	gflag := exReg.BoolCallGuards(true, func(c *ssa.Call) bool {
		return isCallTo(c, CallSpec{pkgEvmKeeper, "Keeper", "IsSenderNonceIncreasedByAnteHandle"})
	})
	r.Check(exSG.MustPass(ds, gflag), "Keeper.EthereumTx › undo only under the flag", e.Pos(ds.Pos()), "decrement dominated by the true edge of IsSenderNonceIncreasedByAnteHandle", "the nonce decrement is reachable without the nonce-increased flag being set: a message executed without the ante increment moves the nonce backwards")
	via := func(pred func(ssa.CallInstruction) bool) bool {
		for _, v := range exReg.Calls(pred) {
			if exSG.PassesBetween(ds, apply[0], v) {
				return true
			}
		}
		return false
	}
	r.Check(via(setAccPred(ds.Call.Value)), "Keeper.EthereumTx › undo persisted", e.Pos(ds.Pos()), "SetAccount follows the decrement before ApplyTransaction", "the decremented account is not stored before ApplyTransaction")
	r.Check(via(flagPred(false)), "Keeper.EthereumTx › flag reset after undo", e.Pos(ds.Pos()), "flag reset to false between the decrement and ApplyTransaction", "the nonce-increased flag is not reset after the undo: a later message in the same context decrements again")
	r.Check(!exSG.ReachesFrom(apply[0], ds), "Keeper.EthereumTx › undo precedes execution", e.Pos(ds.Pos()), "decrement cannot follow ApplyTransaction", "the nonce decrement can run after ApplyTransaction")
	// account of msg.From
	sl := exReg.BackSlice(ds.Call.Value, SliceOpts{ThroughCallArgs: alwaysThrough})
	r.Check(sl.Has(func(x ssa.Value) bool {
		fv := fieldVar(x)
		return fv != nil && fv.Name() == "From"
	}), "Keeper.EthereumTx › account of msg.From", e.Pos(ds.Pos()), "undo applies to the account of msg.From", "the account whose sequence is decremented does not derive from msg.From")
	// reset at start of each Ethereum-lane ante run
	ds2 := decoratorCensus(e)
	setup := decoratorWrapping(ds2, "SetUpContextDecorator")
	nexts := ethNextCalls(setup.Fn)
	resets := callsIn(setup.Fn, false, flagPred(false))
	okR := len(resets) > 0 && len(nexts) > 0
	for _, n := range nexts {
		dom := false
		for _, rs := range resets {
			if dominatesInstr(rs, n) {
				dom = true
			}
		}
		if !dom {
			okR = false
		}
	}
	r.Check(okR, setup.Name()+" › flag reset at start of each ante run", e.Pos(setup.Fn.Pos()), "SetFlagSenderNonceIncreasedByAnteHandle(false) dominates Ethereum-lane next()", "the nonce-increased flag of a previous run is not cleared at the start of the Ethereum-lane ante chain")
}

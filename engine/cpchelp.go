package main

import (
	"go/constant"
	"go/token"
	"go/types"
	"strings"

	"golang.org/x/tools/go/ssa"
)

const (
	pkgCpcTypes = EV + "/x/cpc/types"
	pkgCpcAbi   = EV + "/x/cpc/abi"
	pkgCpcEip   = EV + "/x/cpc/eip712"
	pkgCpcUtils = EV + "/x/cpc/utils"
	pkgBig      = "math/big"
)

// resolveLocal follows a load of a local variable (Alloc) that has exactly one store back to the stored value,
// and strips value-preserving wrappers. Used where "the same variable" must be recognised although it was spilled.
func resolveLocal(v ssa.Value) ssa.Value {
	for i := 0; i < 8; i++ {
		switch x := v.(type) {
		case *ssa.ChangeType:
			v = x.X
			continue
		case *ssa.Convert:
			v = x.X
			continue
		case *ssa.MakeInterface:
			v = x.X
			continue
		case *ssa.ChangeInterface:
			v = x.X
			continue
		case *ssa.UnOp:
			if x.Op == token.MUL {
				if a, ok := x.X.(*ssa.Alloc); ok {
					if st := storesTo(a); len(st) == 1 {
						v = st[0].Val
						continue
					}
				}
			}
		}
		break
	}
	return v
}

// sameLocal: the two operands denote the same local value (SSA identity after resolving single-store spills).
func sameLocal(a, b ssa.Value) bool {
	x, y := resolveLocal(a), resolveLocal(b)
	if x == y {
		return true
	}
	cx, ok1 := x.(*ssa.Const)
	cy, ok2 := y.(*ssa.Const)
	if ok1 && ok2 && cx.Value != nil && cy.Value != nil && types.Identical(cx.Type(), cy.Type()) {
		return constant.Compare(cx.Value, token.EQL, cy.Value)
	}
	return false
}

// executorParam returns parameter i (0 = receiver, 1 = caller, 2 = contractAddr, 3 = input, 4 = env) of an Execute method.
func executorParam(fn *ssa.Function, i int) *ssa.Parameter {
	if i >= len(fn.Params) {
		undecidedf("%s: Execute has %d SSA parameters, expected 5", fnKey(fn), len(fn.Params))
	}
	return fn.Params[i]
}

// isCallerAddress: v is `caller.Address()` where caller is the ContractRef parameter of Execute function fn.
// go/ssa does no CSE, so every occurrence is a separate invoke; identity is structural (same method, same receiver
// parameter; a parameter is never re-assigned without becoming an Alloc, which resolveLocal would not equate).
func isCallerAddress(v ssa.Value, fn *ssa.Function) bool {
	v = resolveLocal(v)
	c, ok := v.(*ssa.Call)
	if !ok || !c.Call.IsInvoke() || c.Call.Method.Name() != "Address" {
		return false
	}
	return c.Call.Value == ssa.Value(executorParam(fn, 1)) && namedTypePath(c.Call.Value.Type()) == pkgGethVM+".ContractRef"
}

// isIpsElem: v is ips[k].(T) where ips is result #0 of UnpackMethodInput(...); returns k.
func isIpsElem(v ssa.Value) (int, bool) {
	v = resolveLocal(v)
	ta, ok := v.(*ssa.TypeAssert)
	if !ok {
		return 0, false
	}
	ld, ok := ta.X.(*ssa.UnOp)
	if !ok || ld.Op != token.MUL {
		return 0, false
	}
	ia, ok := ld.X.(*ssa.IndexAddr)
	if !ok {
		return 0, false
	}
	k, ok := constInt(ia.Index)
	if !ok {
		return 0, false
	}
	c, idx := callOf(ia.X)
	if c == nil || idx != 0 || !isMethodNamed(c, "UnpackMethodInput") {
		return 0, false
	}
	return int(k), true
}

// bigCmpGuards finds guards whose condition is `a.Cmp(b) OP 0` (a, b accepted by the matchers) and reports, for each,
// the successor index taken when relation rel ("lt", "ge", "eq", "ne") between a and b holds. Guards that cannot be
// expressed as the requested relation are skipped.
func bigCmpGuards(fn *ssa.Function, rel string, matchA, matchB func(ssa.Value) bool) []Guard {
	var out []Guard
	for _, i := range ifs(fn) {
		b, ok := i.Cond.(*ssa.BinOp)
		if !ok {
			continue
		}
		k, ok := constInt(b.Y)
		if !ok || k != 0 {
			continue
		}
		c, _ := callOf(b.X)
		if c == nil || !isCallTo(c, CallSpec{pkgBig, "Int", "Cmp"}) || len(c.Call.Args) != 2 {
			continue
		}
		x, y := c.Call.Args[0], c.Call.Args[1]
		swapped := false
		if matchA(x) && matchB(y) {
		} else if matchA(y) && matchB(x) {
			swapped = true
		} else {
			continue
		}
		// truth of (cmp OP 0) in terms of the relation between Args[0] and Args[1]
		op := b.Op
		if swapped {
			switch op {
			case token.LSS:
				op = token.GTR
			case token.GTR:
				op = token.LSS
			case token.LEQ:
				op = token.GEQ
			case token.GEQ:
				op = token.LEQ
			}
		}
		// edge on which `rel` is guaranteed to hold
		s := -1
		switch rel {
		case "lt":
			if op == token.LSS {
				s = 0
			} else if op == token.GEQ {
				s = 1
			}
		case "ge":
			if op == token.GEQ {
				s = 0
			} else if op == token.LSS {
				s = 1
			}
		case "le":
			if op == token.LEQ {
				s = 0
			} else if op == token.GTR {
				s = 1
			}
		case "eq":
			if op == token.EQL {
				s = 0
			} else if op == token.NEQ {
				s = 1
			}
		case "ne":
			if op == token.NEQ {
				s = 0
			} else if op == token.EQL {
				s = 1
			}
		}
		if s < 0 {
			continue
		}
		out = append(out, Guard{If: i, Survive: s, Desc: "big.Int Cmp " + rel})
	}
	return out
}

// failEdgeReturnsError: the failing successor of g leads only to returns with a provably non-nil error (or panics),
// without passing any instruction accepted by forbidden.
func failEdgeReturnsError(fn *ssa.Function, g Guard, forbidden func(ssa.Instruction) bool) bool {
	start := g.failBlock()
	if start == g.okBlock() {
		return false
	}
	// the fail region: blocks reachable from start; must not re-join a success return
	seen := map[*ssa.BasicBlock]bool{}
	work := []*ssa.BasicBlock{start}
	for len(work) > 0 {
		b := work[len(work)-1]
		work = work[:len(work)-1]
		if seen[b] {
			continue
		}
		seen[b] = true
		for _, in := range b.Instrs {
			if forbidden != nil && forbidden(in) {
				return false
			}
			if ret, ok := in.(*ssa.Return); ok {
				if isSuccessReturn(fn, ret) {
					return false
				}
			}
		}
		work = append(work, b.Succs...)
	}
	return true
}

// successReturns lists the returns of fn whose error result may be nil.
func successReturns(fn *ssa.Function) []*ssa.Return {
	var out []*ssa.Return
	for _, ret := range returnsOf(fn) {
		if isSuccessReturn(fn, ret) {
			out = append(out, ret)
		}
	}
	return out
}

// passesThrough: every path from entry to target executes instruction via first.
func passesThrough(fn *ssa.Function, target, via ssa.Instruction) bool {
	return passesOr(fn, target, via, nil)
}

// argOf returns the i-th source-level argument of a call (skipping the receiver of a static method call).
func argOf(c ssa.CallInstruction, i int) ssa.Value {
	cc := c.Common()
	args := cc.Args
	if !cc.IsInvoke() {
		if f := cc.StaticCallee(); f != nil && f.Signature.Recv() != nil {
			args = args[1:]
		}
	}
	if i < 0 || i >= len(args) {
		return nil
	}
	return args[i]
}

// sliceFrom is backSlice through every call's arguments (pure derivations: x.Bytes(), NewCoin(…), BytesToHash(…)).
func sliceFrom(v ssa.Value) *Slice {
	return backSlice(v, SliceOpts{ThroughCallArgs: alwaysThrough})
}

// hasFieldLoad: the slice contains a read of field `name` of a struct whose named type is typeName ("" = any).
func hasFieldLoad(s *Slice, typeName, name string) bool {
	return s.Has(func(v ssa.Value) bool {
		fv := fieldVar(v)
		if fv == nil || fv.Name() != name {
			return false
		}
		if typeName == "" {
			return true
		}
		var base types.Type
		switch x := v.(type) {
		case *ssa.FieldAddr:
			base = x.X.Type()
		case *ssa.Field:
			base = x.X.Type()
		}
		return namedTypeName(base) == typeName
	})
}

// callersInPkg lists (function, call site) pairs in non-generated repo code calling a function matching pred.
type callSite struct {
	Fn   *ssa.Function
	Call ssa.CallInstruction
}

func (e *Engine) repoCallSites(pred func(ssa.CallInstruction) bool) []callSite {
	var out []callSite
	for _, f := range e.SrcFuncs(e.RepoOwned) {
		if IsGenerated(e.File(f.Pos())) || isTestSupportPkg(pkgPathOf(f)) {
			continue
		}
		for _, c := range callsIn(f, false, pred) {
			out = append(out, callSite{f, c})
		}
	}
	return out
}

// isTestSupportPkg: packages that exist only to support tests (not imported by the node binary).
func isTestSupportPkg(p string) bool {
	return strings.Contains(p, "/integration_test_util") || strings.Contains(p, "/testutil") || strings.HasSuffix(p, "/testutils")
}

func topFn(f *ssa.Function) *ssa.Function {
	for f.Parent() != nil {
		f = f.Parent()
	}
	return f
}

// emptinessCoversAllDenoms: Keeper.IsEmptyAccount can return true only after GetAllBalances(addr).IsZero() held
// (shared by C15-R4 and C10-R7: an account holding only a non-EVM denomination must not be destroyed as "empty").
func emptinessCoversAllDenoms(e *Engine) (bool, string) {
	fn := e.Fn(pkgEvmKeeper, "Keeper.IsEmptyAccount")
	addr := fn.Params[len(fn.Params)-1]
	var trueRets []*ssa.Return
	for _, ret := range returnsOf(fn) {
		if b, ok := constBool(ret.Results[0]); ok && !b {
			continue
		}
		trueRets = append(trueRets, ret)
	}
	gBal := boolCallGuards(fn, true, func(c *ssa.Call) bool {
		if !isMethodNamed(c, "IsZero") {
			return false
		}
		s := sliceFrom(recvOperand(c))
		return s.Has(func(v ssa.Value) bool {
			cc, ok := v.(*ssa.Call)
			return ok && isMethodNamed(cc, "GetAllBalances")
		}) && s.HasValue(addr)
	})
	if len(gBal) == 0 || len(trueRets) == 0 {
		return false, e.Pos(fn.Pos())
	}
	for _, ret := range trueRets {
		if !mustPass(fn, ret, gBal) {
			return false, e.Pos(fn.Pos())
		}
	}
	return true, e.Pos(fn.Pos())
}

// accessPath renders a pure access path (loads, field selections, constant indexing, nullary getter calls) rooted at a
// parameter, alloc, global or call result, e.g. "t12.Block*.MaxGas*". Two values with equal non-empty paths denote
// the same memory location read (go/ssa does no CSE; equality is structural and assumes no intervening store, which
// callers establish separately where it matters). Returns "" if v is not such a path.
func accessPath(v ssa.Value) string {
	switch x := v.(type) {
	case *ssa.UnOp:
		if x.Op == token.MUL {
			if p := accessPath(x.X); p != "" {
				return p + "*"
			}
		}
		return ""
	case *ssa.FieldAddr:
		if p := accessPath(x.X); p != "" {
			return p + "." + fieldName(x)
		}
		return ""
	case *ssa.Field:
		if p := accessPath(x.X); p != "" {
			return p + "." + fieldNameV(x)
		}
		return ""
	case *ssa.ChangeType:
		return accessPath(x.X)
	case *ssa.Convert:
		return accessPath(x.X)
	case *ssa.Parameter, *ssa.Alloc, *ssa.Global, *ssa.Call, *ssa.Extract, *ssa.Phi, *ssa.FreeVar:
		return "@" + v.Name() + "#" + v.Parent().Name()
	}
	return ""
}

func samePath(a, b ssa.Value) bool {
	if a == b {
		return true
	}
	pa := accessPath(a)
	return pa != "" && pa == accessPath(b)
}

// lowerBoundGuards: guards on value x (matched structurally by samePath) whose surviving edge proves x >= k; returns
// the guards together with the proven bound.
func lowerBoundGuards(fn *ssa.Function, x ssa.Value) (gs []Guard, bounds []int64) {
	for _, i := range ifs(fn) {
		b, ok := i.Cond.(*ssa.BinOp)
		if !ok {
			continue
		}
		var k int64
		var op token.Token
		if kk, isK := constInt(b.Y); isK && samePath(b.X, x) {
			k, op = kk, b.Op
		} else if kk, isK := constInt(b.X); isK && samePath(b.Y, x) {
			k = kk
			switch b.Op { // k OP x  ⇒  x OP' k
			case token.LSS:
				op = token.GTR
			case token.LEQ:
				op = token.GEQ
			case token.GTR:
				op = token.LSS
			case token.GEQ:
				op = token.LEQ
			default:
				op = b.Op
			}
		} else {
			continue
		}
		switch op {
		case token.GEQ: // x >= k on true
			gs, bounds = append(gs, Guard{If: i, Survive: 0}), append(bounds, k)
		case token.GTR: // x > k on true ⇒ x >= k+1
			gs, bounds = append(gs, Guard{If: i, Survive: 0}), append(bounds, k+1)
		case token.LSS: // x < k false ⇒ x >= k
			gs, bounds = append(gs, Guard{If: i, Survive: 1}), append(bounds, k)
		case token.LEQ: // x <= k false ⇒ x >= k+1
			gs, bounds = append(gs, Guard{If: i, Survive: 1}), append(bounds, k+1)
		}
	}
	return
}

// blockDominatedByEdge: block b is reachable only through the surviving edge of g.
func blockDominatedByEdge(fn *ssa.Function, b *ssa.BasicBlock, g Guard) bool {
	if g.If.Block().Succs[0] == g.If.Block().Succs[1] {
		return false
	}
	return !reachable(fn, fn.Blocks[0], surviveEdges([]Guard{g}))[b]
}

func constStringVal(c *types.Const) string { return constant.StringVal(c.Val()) }

// errorPropagated: the error result of `call` cannot be dropped by fn: either it is tested and the failing edge returns a
// non-nil error (the `if err != nil { return …err }` idiom), or every return reachable after the call returns that very
// error value (the `_, err = f(); return err` idiom) or a provably non-nil error.
func errorPropagated(fn *ssa.Function, call ssa.CallInstruction, forbidden func(ssa.Instruction) bool) bool {
	cv, ok := call.(*ssa.Call)
	if !ok {
		return false
	}
	for _, g := range errNilGuards(fn, func(c *ssa.Call) bool { return c == cv }) {
		if failEdgeReturnsError(fn, g, forbidden) {
			return true
		}
	}
	// direct return of the error
	var errV ssa.Value
	if isErrorType(cv.Type()) {
		errV = cv
	} else if cv.Referrers() != nil {
		for _, rr := range *cv.Referrers() {
			if ex, isEx := rr.(*ssa.Extract); isEx && isErrorType(ex.Type()) {
				errV = ex
			}
		}
	}
	k := errResultIndex(fn)
	if errV == nil || k < 0 {
		return false
	}
	n := 0
	for _, ret := range returnsOf(fn) {
		if !reachesFrom(fn, cv, ret) {
			continue
		}
		n++
		rv := ret.Results[k]
		if u, isU := rv.(*ssa.UnOp); isU && u.Op == token.MUL {
			if a, isA := u.X.(*ssa.Alloc); isA {
				if sv := lastStoreBefore(a, u); sv != nil {
					rv = sv
				}
			}
		}
		if rv == errV {
			continue
		}
		if c, _ := callOf(rv); c != nil && len(c.Call.Args) > 0 {
			// wrapped: errorsmod.Wrap(err, …) keeps nil as nil and non-nil as non-nil
			if fo := calleeObj(c); fo != nil && fo.Pkg() != nil && (fo.Pkg().Path() == "cosmossdk.io/errors" || fo.Pkg().Path() == "github.com/pkg/errors") && strings.HasPrefix(fo.Name(), "Wrap") && c.Call.Args[0] == errV {
				continue
			}
		}
		if provablyNonNilErr(rv, ret.Block(), map[ssa.Value]bool{}) {
			continue
		}
		return false
	}
	return n > 0
}

// ---------------------------------------------------------------- private helper regions
//
// A rule written against function F must not fire merely because a few statements of F were extracted into a private
// helper. A Region is F together with the same-package helpers that are called from exactly one site, that site lying inside
// the region; the helper's parameters are bound to the arguments of that one site, so value identity ("the amount", "the
// `to` address") can be followed from the helper up into F.
type Region struct {
	e     *Engine
	Root  *ssa.Function
	Fns   []*ssa.Function
	in    map[*ssa.Function]bool
	site  map[*ssa.Function]ssa.CallInstruction // helper → its single call site
	owner map[*ssa.Function]*ssa.Function       // helper → function containing the site
}

func (e *Engine) privateRegion(root *ssa.Function) *Region {
	r := &Region{e: e, Root: root, in: map[*ssa.Function]bool{root: true}, site: map[*ssa.Function]ssa.CallInstruction{}, owner: map[*ssa.Function]*ssa.Function{}}
	r.Fns = []*ssa.Function{root}
	pkg := pkgPathOf(root)
	// call sites of every function of the package (computed once per package)
	sites := map[*ssa.Function][]callSite{}
	for _, f := range e.SrcFuncs(func(p string) bool { return p == pkg }) {
		for _, c := range callsIn(f, false, func(ssa.CallInstruction) bool { return true }) {
			if sc := c.Common().StaticCallee(); sc != nil && pkgPathOf(sc) == pkg {
				sites[sc] = append(sites[sc], callSite{f, c})
			}
		}
	}
	changed := true
	for changed && len(r.Fns) < 12 {
		changed = false
		for _, f := range append([]*ssa.Function{}, r.Fns...) {
			for _, c := range callsIn(f, false, func(ssa.CallInstruction) bool { return true }) {
				h := c.Common().StaticCallee()
				if h == nil || r.in[h] || h.Blocks == nil || pkgPathOf(h) != pkg || h.Parent() != nil {
					continue
				}
				if obj := h.Object(); obj == nil || obj.Exported() {
					continue
				}
				if ss := sites[h]; len(ss) != 1 || !r.in[ss[0].Fn] {
					continue
				}
				// the helper must not be used as a value (method value / closure) anywhere: StaticCallee sites only — approximated
				r.in[h] = true
				r.Fns = append(r.Fns, h)
				r.site[h] = c
				r.owner[h] = f
				changed = true
			}
		}
	}
	return r
}

// Resolve follows single-store spills, value-preserving conversions and, for parameters of region helpers, the argument
// at the helper's call site.
func (r *Region) Resolve(v ssa.Value) ssa.Value {
	for i := 0; i < 8; i++ {
		v = resolveLocal(v)
		p, ok := v.(*ssa.Parameter)
		if !ok {
			return v
		}
		f := p.Parent()
		s, bound := r.site[f]
		if !bound {
			return v
		}
		idx := paramIndex(p)
		args := s.Common().Args
		if idx < 0 || idx >= len(args) {
			return v
		}
		v = args[idx]
	}
	return v
}

// Calls lists the calls matching pred in the root and its helpers.
func (r *Region) Calls(pred func(ssa.CallInstruction) bool) []ssa.CallInstruction {
	var out []ssa.CallInstruction
	for _, f := range r.Fns {
		out = append(out, callsIn(f, false, pred)...)
	}
	return out
}

// Anchor maps an instruction inside a helper to the call site in the root through which it is reached.
func (r *Region) Anchor(i ssa.Instruction) ssa.Instruction {
	f := i.Parent()
	for k := 0; k < 8 && f != r.Root; k++ {
		s, ok := r.site[f]
		if !ok {
			return i
		}
		i = s.(ssa.Instruction)
		f = r.owner[f]
	}
	return i
}

// Slice is sliceFrom continued through helper parameters into the arguments of the helper's call site.
func (r *Region) Slice(v ssa.Value) *Slice {
	out := &Slice{Vals: map[ssa.Value]bool{}}
	seen := map[ssa.Value]bool{}
	work := []ssa.Value{v}
	for len(work) > 0 {
		x := work[len(work)-1]
		work = work[:len(work)-1]
		if seen[x] {
			continue
		}
		seen[x] = true
		s := sliceFrom(x)
		for y := range s.Vals {
			if !out.Vals[y] {
				out.Vals[y] = true
				out.order = append(out.order, y)
			}
			if p, ok := y.(*ssa.Parameter); ok {
				if st, bound := r.site[p.Parent()]; bound {
					idx := paramIndex(p)
					if idx >= 0 && idx < len(st.Common().Args) {
						work = append(work, st.Common().Args[idx])
					}
				}
			}
		}
	}
	return out
}

// ErrorPropagated: the error of call c (possibly inside a helper) reaches the root's caller: propagated in its own function
// and, for each enclosing helper, the helper's error is propagated at its call site.
func (r *Region) ErrorPropagated(c ssa.CallInstruction) bool {
	f := c.Parent()
	for k := 0; k < 8; k++ {
		if !errorPropagated(f, c, nil) {
			return false
		}
		if f == r.Root {
			return true
		}
		s, ok := r.site[f]
		if !ok {
			return false
		}
		c, f = s, r.owner[f]
	}
	return false
}

// BackSlice is backSlice continued through the parameters of region helpers into the arguments at their single call site.
func (r *Region) BackSlice(v ssa.Value, o SliceOpts) *Slice {
	out := &Slice{Vals: map[ssa.Value]bool{}}
	seen := map[ssa.Value]bool{}
	work := []ssa.Value{v}
	for len(work) > 0 {
		x := work[len(work)-1]
		work = work[:len(work)-1]
		if seen[x] {
			continue
		}
		seen[x] = true
		s := backSlice(x, o)
		for _, y := range s.order {
			if !out.Vals[y] {
				out.Vals[y] = true
				out.order = append(out.order, y)
			}
			if p, ok := y.(*ssa.Parameter); ok {
				if st, bound := r.site[p.Parent()]; bound {
					idx := paramIndex(p)
					if idx >= 0 && idx < len(st.Common().Args) {
						work = append(work, st.Common().Args[idx])
					}
				}
			}
		}
	}
	return out
}

// AllInstrs visits every instruction of the root and its helpers (function literals excluded).
func (r *Region) AllInstrs(f func(ssa.Instruction)) {
	for _, fn := range r.Fns {
		allInstrs(fn, false, func(_ *ssa.Function, _ *ssa.BasicBlock, in ssa.Instruction) { f(in) })
	}
}

// privHelper: IntoCallees predicate accepting the unexported package-level functions/methods of one package — the helpers a
// refactoring extracts statements into. Unlike a Region it does not require a single call site: backSlice enters the callee
// from one particular call and maps its parameters back to that call's arguments, so contexts are not merged.
func privHelper(pkg string) func(*ssa.Function) bool {
	return func(f *ssa.Function) bool {
		if f == nil || f.Blocks == nil || f.Parent() != nil || pkgPathOf(f) != pkg {
			return false
		}
		obj := f.Object()
		return obj != nil && !obj.Exported()
	}
}

// argReaches: argument argIdx of call c — which may sit in a helper entered by the slice — denotes `target` of the root function:
// directly, or because it is a parameter of the helper whose actual argument at the helper's call (a call in the slice) does.
func argReaches(sl *Slice, c *ssa.Call, argIdx int, target ssa.Value, depth int) bool {
	if argIdx >= len(c.Call.Args) {
		return false
	}
	v := resolveLocal(c.Call.Args[argIdx])
	if v == target {
		return true
	}
	p, ok := v.(*ssa.Parameter)
	if !ok || depth <= 0 {
		return false
	}
	h := p.Parent()
	idx := paramIndex(p)
	for _, hc := range sl.Calls() {
		if hc.Call.StaticCallee() == h && argReaches(sl, hc, idx, target, depth-1) {
			return true
		}
	}
	return false
}

// boolFnTrueOnlyUnder: the bool-returning function h can return true only (a) from a block that is reachable only through the
// surviving edge of one of `guards` (guards of h itself), (b) as the constant true that the surviving edge of such a guard feeds
// straight into a φ (short-circuit `a || b`), or (c) as a value accepted by okVal (e.g. `return d.Empty(addr)`). This is the
// summary that lets `if h(x) { … }` stand for the conditions that were extracted into the predicate helper h.
func boolFnTrueOnlyUnder(h *ssa.Function, guards []Guard, okVal func(ssa.Value) bool) bool {
	rets := returnsOf(h)
	if len(rets) == 0 {
		return false
	}
	ok := true
	var visit func(v ssa.Value, at *ssa.BasicBlock, into *ssa.BasicBlock, depth int)
	visit = func(v ssa.Value, at, into *ssa.BasicBlock, depth int) {
		if b, isK := constBool(v); isK {
			if !b {
				return
			}
			if blockGuarded(h, at, guards) {
				return
			}
			if i, isIf := lastIf(at); isIf && into != nil {
				for _, g := range guards {
					if g.If == i && at.Succs[g.Survive] == into && at.Succs[0] != at.Succs[1] {
						return
					}
				}
			}
			ok = false
			return
		}
		if okVal != nil && okVal(v) {
			return
		}
		if phi, isPhi := v.(*ssa.Phi); isPhi && depth < 6 {
			for k, ev := range phi.Edges {
				visit(ev, phi.Block().Preds[k], phi.Block(), depth+1)
			}
			return
		}
		if blockGuarded(h, at, guards) {
			return
		}
		ok = false
	}
	for _, ret := range rets {
		if len(ret.Results) != 1 {
			return false
		}
		visit(ret.Results[0], ret.Block(), nil, 0)
	}
	return ok
}

package main

import (
	"go/ast"
	"go/scanner"
	"go/token"
	"go/types"
	"os"
	"regexp"
	"sort"
	"strings"

	"golang.org/x/tools/go/packages"
)

// SIBLING: type-resolved, alpha-renamed statement lists of two functions and their longest common subsequence.

type canonStmt struct {
	Text string
	Pos  token.Pos
	Ctx  []string // texts of the enclosing control headers, outermost first ("else of <h>" for an else branch)
}

type canoniser struct {
	e      *Engine
	pkg    *packages.Package
	src    []byte
	file   *token.File
	locals map[types.Object]int
	out    []canonStmt
	stack  []string
	// typeAlias maps "pkgpath.TypeName" of the copy's own types to a neutral name shared with the reference
	neutral map[string]bool
}

func (e *Engine) canonFunc(fd *ast.FuncDecl, pkg *packages.Package, neutral map[string]bool) []canonStmt {
	tf := e.Fset.File(fd.Pos())
	src, err := os.ReadFile(tf.Name())
	if err != nil {
		undecidedf("cannot read %s: %v", tf.Name(), err)
	}
	c := &canoniser{e: e, pkg: pkg, src: src, file: tf, locals: map[types.Object]int{}, neutral: neutral}
	// receiver and parameters are locals #0..#k in order
	if fd.Recv != nil {
		for _, f := range fd.Recv.List {
			for _, n := range f.Names {
				c.local(pkg.TypesInfo.Defs[n])
			}
		}
	}
	for _, f := range fd.Type.Params.List {
		for _, n := range f.Names {
			c.local(pkg.TypesInfo.Defs[n])
		}
	}
	if fd.Body != nil {
		c.block(fd.Body.List)
	}
	return sortIndependentRuns(c.out)
}

func (c *canoniser) local(o types.Object) int {
	if o == nil {
		return -1
	}
	if k, ok := c.locals[o]; ok {
		return k
	}
	k := len(c.locals)
	c.locals[o] = k
	return k
}

func (c *canoniser) emit(text string, pos token.Pos) {
	c.out = append(c.out, canonStmt{text, pos, append([]string{}, c.stack...)})
}

func (c *canoniser) push(h string) { c.stack = append(c.stack, h) }
func (c *canoniser) pop()          { c.stack = c.stack[:len(c.stack)-1] }

func (c *canoniser) block(list []ast.Stmt) {
	for _, s := range list {
		c.stmt(s)
	}
}

func (c *canoniser) stmt(s ast.Stmt) {
	switch x := s.(type) {
	case *ast.BlockStmt:
		c.block(x.List)
	case *ast.IfStmt:
		h := c.tokens(x, x.Pos(), x.Body.Lbrace+1)
		c.emit(h, x.Pos())
		c.push(h)
		c.block(x.Body.List)
		c.pop()
		if x.Else != nil {
			c.emit("} else // "+h, x.Else.Pos())
			c.push("else of " + h)
			c.stmt(x.Else)
			c.pop()
		}
		c.emit("} // "+h, x.End())
	case *ast.ForStmt:
		h := c.tokens(x, x.Pos(), x.Body.Lbrace+1)
		c.emit(h, x.Pos())
		c.push(h)
		c.block(x.Body.List)
		c.pop()
		c.emit("} // "+h, x.End())
	case *ast.RangeStmt:
		h := c.tokens(x, x.Pos(), x.Body.Lbrace+1)
		c.emit(h, x.Pos())
		c.push(h)
		c.block(x.Body.List)
		c.pop()
		c.emit("} // "+h, x.End())
	case *ast.SwitchStmt:
		h := c.tokens(x, x.Pos(), x.Body.Lbrace+1)
		c.emit(h, x.Pos())
		c.push(h)
		c.block(x.Body.List)
		c.pop()
		c.emit("} // "+h, x.End())
	case *ast.TypeSwitchStmt:
		h := c.tokens(x, x.Pos(), x.Body.Lbrace+1)
		c.emit(h, x.Pos())
		c.push(h)
		c.block(x.Body.List)
		c.pop()
		c.emit("} // "+h, x.End())
	case *ast.CaseClause:
		h := c.tokens(x, x.Pos(), x.Colon+1)
		c.emit(h, x.Pos())
		c.push(h)
		c.block(x.Body)
		c.pop()
	case *ast.LabeledStmt:
		c.stmt(x.Stmt)
	default:
		c.emit(c.tokens(s, s.Pos(), s.End()), s.Pos())
	}
}

// tokens renders the source range [from, to) of node n as a space-separated token string with identifiers resolved.
func (c *canoniser) tokens(n ast.Node, from, to token.Pos) string {
	idents := map[int]*ast.Ident{}
	ast.Inspect(n, func(m ast.Node) bool {
		if id, ok := m.(*ast.Ident); ok {
			idents[c.file.Offset(id.Pos())] = id
		}
		return true
	})
	lo, hi := c.file.Offset(from), c.file.Offset(to)
	if hi > len(c.src) {
		hi = len(c.src)
	}
	fs := token.NewFileSet()
	f := fs.AddFile("", -1, hi-lo)
	var sc scanner.Scanner
	sc.Init(f, c.src[lo:hi], nil, 0)
	var parts []string
	skipDot := false
	for {
		p, tok, lit := sc.Scan()
		if tok == token.EOF {
			break
		}
		if tok == token.SEMICOLON && lit == "\n" {
			continue
		}
		if skipDot {
			skipDot = false
			if tok == token.PERIOD {
				continue
			}
		}
		switch {
		case tok == token.IDENT:
			id := idents[lo+f.Offset(p)]
			name, skip := c.ident(id, lit)
			if skip {
				skipDot = true
				continue
			}
			parts = append(parts, name)
		case tok.IsLiteral():
			parts = append(parts, lit)
		default:
			parts = append(parts, tok.String())
		}
	}
	return strings.Join(parts, " ")
}

func (c *canoniser) ident(id *ast.Ident, lit string) (string, bool) {
	if id == nil {
		return lit, false
	}
	info := c.pkg.TypesInfo
	obj := info.Uses[id]
	if obj == nil {
		obj = info.Defs[id]
	}
	if obj == nil {
		return lit, false
	}
	switch o := obj.(type) {
	case *types.PkgName:
		return "", true
	case *types.Var:
		if o.IsField() {
			return lit, false
		}
		if o.Pkg() != nil && o.Parent() == o.Pkg().Scope() {
			return o.Pkg().Path() + "." + o.Name(), false
		}
		c.local(o)
		return "#" + o.Name(), false
	case *types.Func:
		if sig, ok := o.Type().(*types.Signature); ok && sig.Recv() != nil {
			return lit, false
		}
		if o.Pkg() != nil {
			return o.Pkg().Path() + "." + o.Name(), false
		}
		return lit, false
	case *types.TypeName, *types.Const:
		if obj.Pkg() == nil {
			return lit, false
		}
		if obj.Parent() != obj.Pkg().Scope() {
			return "#" + obj.Name(), false
		}
		key := obj.Pkg().Path() + "." + obj.Name()
		if c.neutral[obj.Name()] {
			return obj.Name(), false
		}
		return key, false
	}
	return lit, false
}

// lcsMatch returns, for two statement lists, which indices are matched by a longest common subsequence.
func lcsMatch(a, b []canonStmt) (ma, mb []bool) {
	n, m := len(a), len(b)
	dp := make([][]int, n+1)
	for i := range dp {
		dp[i] = make([]int, m+1)
	}
	for i := n - 1; i >= 0; i-- {
		for j := m - 1; j >= 0; j-- {
			if a[i].Text == b[j].Text {
				dp[i][j] = dp[i+1][j+1] + 1
			} else if dp[i+1][j] >= dp[i][j+1] {
				dp[i][j] = dp[i+1][j]
			} else {
				dp[i][j] = dp[i][j+1]
			}
		}
	}
	ma, mb = make([]bool, n), make([]bool, m)
	i, j := 0, 0
	for i < n && j < m {
		if a[i].Text == b[j].Text {
			ma[i], mb[j] = true, true
			i++
			j++
		} else if dp[i+1][j] >= dp[i][j+1] {
			i++
		} else {
			j++
		}
	}
	return
}

var reLocalName = regexp.MustCompile(`#\w+`)

// anonymise drops the names of locals (used to recognise statements that differ only by a renamed local).
func anonymise(t string) string { return reLocalName.ReplaceAllString(t, "#") }

var reRecvFieldAssign = regexp.MustCompile(`^#(\w+) \. (\w+) (=|\+=|-=) (.*)$`)

// sortIndependentRuns canonicalises the order of maximal runs of consecutive assignments to distinct fields of one local
// (`x.f = …; x.g += …`) whose right-hand sides read none of the fields written in the run: such assignments commute, so
// their relative order carries no meaning.
func sortIndependentRuns(in []canonStmt) []canonStmt {
	out := append([]canonStmt{}, in...)
	i := 0
	for i < len(out) {
		m := reRecvFieldAssign.FindStringSubmatch(out[i].Text)
		if m == nil {
			i++
			continue
		}
		j := i
		fields := map[string]bool{}
		recv := m[1]
		for j < len(out) {
			mj := reRecvFieldAssign.FindStringSubmatch(out[j].Text)
			if mj == nil || mj[1] != recv || fields[mj[2]] {
				break
			}
			fields[mj[2]] = true
			j++
		}
		// independence: no RHS mentions `#recv . f` for a written f; compound assignments read their own LHS only
		indep := true
		for k := i; k < j; k++ {
			mk := reRecvFieldAssign.FindStringSubmatch(out[k].Text)
			for f := range fields {
				if strings.Contains(mk[4], "#"+recv+" . "+f+" ") || strings.HasSuffix(mk[4], "#"+recv+" . "+f) {
					indep = false
				}
			}
			if strings.Contains(mk[4], "(") && !pureCallRHS(mk[4]) {
				// calls with possible side effects do not commute in general; allow only getter chains on the receiver
				indep = false
			}
		}
		if indep && j-i > 1 {
			run := out[i:j]
			sort.SliceStable(run, func(a, b int) bool { return run[a].Text < run[b].Text })
		}
		if j == i {
			j = i + 1
		}
		i = j
	}
	return out
}

// pureCallRHS: the right-hand side consists of nullary getter calls only (`#st . msg . Gas ( )`).
func pureCallRHS(rhs string) bool {
	return !strings.Contains(strings.ReplaceAll(rhs, "( )", ""), "(")
}

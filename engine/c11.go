package main

import (
	"go/token"
	"go/types"
	"reflect"
	"sort"
	"strings"

	"golang.org/x/tools/go/ssa"
)

func init() {
	registry["C11"] = checkC11
	needsL4["C11"] = true
}

// stakingHelpers: effect helpers of the staking precompile and the index (source-level, receiver excluded) of their delegator argument.
var stakingHelpers = map[string]int{
	"stakingCustomPrecompiledContractRwDelegate.delegate":                                 1,
	"stakingCustomPrecompiledContractRwUnDelegate.undelegate":                             1,
	"stakingCustomPrecompiledContractRwReDelegate.redelegate":                             1,
	"stakingCustomPrecompiledContractRwWithdrawReward.withdrawReward":                     1,
	"stakingCustomPrecompiledContractRwWithdrawReward.withdrawRewardWithFormattedAddress": 1,
	"stakingCustomPrecompiledContractRwWithdrawRewards.withdrawRewards":                   1,
}

func helperKey(c ssa.CallInstruction) string {
	fo := calleeObj(c)
	if fo == nil || fo.Pkg() == nil || fo.Pkg().Path() != pkgCpcKeeper {
		return ""
	}
	rn := recvNamed(fo)
	if rn == nil {
		return ""
	}
	return rn.Obj().Name() + "." + fo.Name()
}

// msgDelegatorAlloc: if v's slice contains a read of field Delegator of a locally allocated signed-message struct
// (abi.StakingMessage / abi.WithdrawRewardMessage), return that allocation.
func msgDelegatorAlloc(sl *Slice) *ssa.Alloc {
	var out *ssa.Alloc
	for v := range sl.Vals {
		fa, ok := v.(*ssa.FieldAddr)
		if !ok || fieldName(fa) != "Delegator" {
			continue
		}
		if a, ok := fa.X.(*ssa.Alloc); ok {
			n := namedTypePath(a.Type())
			if n == pkgCpcAbi+".StakingMessage" || n == pkgCpcAbi+".WithdrawRewardMessage" {
				out = a
			}
		}
	}
	return out
}

func isDelegatorOf(v ssa.Value, a *ssa.Alloc) bool {
	v = resolveLocal(v)
	u, ok := v.(*ssa.UnOp)
	if !ok || u.Op != token.MUL {
		return false
	}
	fa, ok := u.X.(*ssa.FieldAddr)
	return ok && fa.X == ssa.Value(a) && fieldName(fa) == "Delegator"
}

func checkC11(e *Engine, r *Report) {
	e.BuildSSA()
	r.NotDecided("numerical identity of delegations / unbonding entries / rewards / balances with a twin chain driven by native messages (history-quantified); only that every mutation is performed by the SDK's own message servers with the precompile's (delegator, validator, amount) is decided")
	r.NotDecided("view methods' numbers vs native queries (wiring of views is not checked here; write-freedom of views is C12)")
	r.Assumption("x/staking and x/distribution message servers implement native staking (trusted); secp256k1 recovery is sound")

	var rw []*Executor
	for _, x := range executorCensus(e) {
		if strings.HasPrefix(x.Name(), "stakingCustomPrecompiledContractRw") {
			rw = append(rw, x)
		}
	}
	specVerify := CallSpec{pkgCpcEip, "", "VerifySignature"}

	// delegatorOK decides the provenance obligation for one delegator-typed argument inside an executor's Execute.
	delegatorOK := func(fn *ssa.Function, call ssa.CallInstruction, arg ssa.Value) (bool, string) {
		sl := sliceFrom(arg)
		if sl.Has(func(v ssa.Value) bool { _, ok := isIpsElem(v); return ok }) {
			return false, "the delegator derives from call data (ips[i])"
		}
		if hasFieldLoad(sl, "EVM", "Origin") || hasFieldLoad(sl, "TxContext", "Origin") {
			return false, "the delegator derives from tx.origin"
		}
		hasCaller := sl.Has(func(v ssa.Value) bool { return isCallerAddress(v, fn) })
		m := msgDelegatorAlloc(sl)
		if m == nil {
			if hasCaller {
				return true, "delegator = caller.Address()"
			}
			return false, "the delegator derives neither from caller.Address() nor from a verified signed message (" + sl.Describe() + ")"
		}
		// (i) caller == msg.Delegator
		gEq := eqGuards(fn, true, func(v ssa.Value) bool { return isCallerAddress(v, fn) }, func(v ssa.Value) bool { return isDelegatorOf(v, m) })
		var gEqC []Guard
		for _, g := range gEq {
			if failEdgeReturnsError(fn, g, func(i ssa.Instruction) bool { return i == call.(ssa.Instruction) }) {
				gEqC = append(gEqC, g)
			}
		}
		if !mustPass(fn, call, gEqC) {
			return false, "the signed message's delegator is not compared with the immediate caller (caller.Address() == msg.Delegator, failing edge returns an error) before acting"
		}
		// (ii) signature verified for this chain id
		var vs []*ssa.Call
		for _, c := range callsTo(fn, false, specVerify) {
			cc := c.(*ssa.Call)
			a := cc.Call.Args
			if len(a) != 6 {
				continue
			}
			if !isDelegatorOf(a[0], m) {
				continue
			}
			if mi, ok := a[1].(*ssa.MakeInterface); !ok || mi.X != ssa.Value(m) {
				continue
			}
			okSig := true
			for k := 2; k <= 4; k++ {
				idx, ok := isIpsElem(a[k])
				if !ok || idx != k-1 {
					okSig = false
				}
			}
			cid := sliceFrom(a[5])
			if !(hasFieldLoad(cid, "ChainConfig", "ChainID") && cid.Has(func(v ssa.Value) bool {
				c, ok := v.(*ssa.Call)
				return ok && isCallTo(c, CallSpec{pkgGethVM, "EVM", "ChainConfig"}) && hasFieldLoad(sliceFrom(c.Call.Args[0]), "cpcExecutorEnv", "evm")
			})) {
				okSig = false
			}
			if okSig {
				vs = append(vs, cc)
			}
		}
		if len(vs) == 0 {
			return false, "no eip712.VerifySignature(msg.Delegator, msg, r=ips[1], s=ips[2], v=ips[3], env.evm.ChainConfig().ChainID) call"
		}
		for _, vc := range vs {
			var gErr, gMatch []Guard
			for _, g := range errNilGuards(fn, func(c *ssa.Call) bool { return c == vc }) {
				if failEdgeReturnsError(fn, g, func(i ssa.Instruction) bool { return i == call.(ssa.Instruction) }) {
					gErr = append(gErr, g)
				}
			}
			for _, i := range ifs(fn) {
				c := i.Cond
				neg := false
				if u, ok := c.(*ssa.UnOp); ok && u.Op == token.NOT {
					c, neg = u.X, true
				}
				ex, ok := c.(*ssa.Extract)
				if !ok || ex.Index != 0 || ex.Tuple != ssa.Value(vc) {
					continue
				}
				g := Guard{If: i, Survive: 0}
				if neg {
					g.Survive = 1
				}
				if failEdgeReturnsError(fn, g, func(i ssa.Instruction) bool { return i == call.(ssa.Instruction) }) {
					gMatch = append(gMatch, g)
				}
			}
			if mustPass(fn, call, gErr) && mustPass(fn, call, gMatch) {
				return true, "delegator = msg.Delegator with caller == msg.Delegator ∧ VerifySignature ok ∧ match"
			}
		}
		return false, "the result of eip712.VerifySignature (error and match) does not gate the action"
	}

	r.Rule("R1", "PROVENANCE+MUST-PASS", "every call of a staking effect helper (delegate, undelegate, redelegate, withdrawReward, withdrawRewardWithFormattedAddress, withdrawRewards) passes as delegator either caller.Address(), or — inside a helper — the helper's own delegator parameter, or a signed message's Delegator with the call dominated by caller.Address() == msg.Delegator and by eip712.VerifySignature(msg.Delegator, msg, ips[1..3], env.evm.ChainConfig().ChainID) returning (match=true, err=nil); never call data, never tx.origin", 12, func() {
		for _, cs := range e.repoCallSites(func(c ssa.CallInstruction) bool { _, ok := stakingHelpers[helperKey(c)]; return ok }) {
			fn := cs.Fn
			hk := helperKey(cs.Call)
			key := "delegator › " + fnKey(fn) + " → " + hk[strings.LastIndex(hk, ".")+1:]
			// ordinal for repeated calls of the same helper in one function
			n := 0
			for _, o := range callsIn(fn, false, func(c ssa.CallInstruction) bool { return helperKey(c) == hk }) {
				if o.Pos() < cs.Call.Pos() {
					n++
				}
			}
			if n > 0 {
				key += " #" + itoa(n+1)
			}
			arg := argOf(cs.Call, stakingHelpers[hk])
			if fn.Parent() == nil && fn.Name() == "Execute" && len(fn.Params) == 5 {
				ok, why := delegatorOK(fn, cs.Call, arg)
				r.Check(ok, key, e.Pos(cs.Call.Pos()), why, "a state-changing staking call can act on stake/rewards that do not belong to the immediate caller: "+why)
				continue
			}
			// inside a function literal of an executor's Execute that is handed to a helper call (`run(env, func() error { return
			// e.delegate(ctx, delegator, …) })`): the delegator is a captured variable of Execute and the guards must dominate the
			// call that receives the literal
			if p := fn.Parent(); p != nil && p.Parent() == nil && p.Name() == "Execute" && len(p.Params) == 5 {
				var mc *ssa.MakeClosure
				allInstrs(p, false, func(_ *ssa.Function, _ *ssa.BasicBlock, in ssa.Instruction) {
					if m, isMC := in.(*ssa.MakeClosure); isMC && m.Fn == ssa.Value(fn) {
						mc = m
					}
				})
				var anchor ssa.CallInstruction
				if mc != nil && mc.Referrers() != nil {
					for _, rr := range *mc.Referrers() {
						if ci, isCI := rr.(ssa.CallInstruction); isCI {
							anchor = ci
						}
					}
				}
				bound := func(v ssa.Value) ssa.Value {
					v = strip(v)
					if u, isU := v.(*ssa.UnOp); isU && u.Op == token.MUL {
						v = u.X
					}
					if fv, isFV := v.(*ssa.FreeVar); isFV && mc != nil {
						for i, x := range fn.FreeVars {
							if x == fv && i < len(mc.Bindings) {
								return mc.Bindings[i]
							}
						}
					}
					return nil
				}
				if b := bound(arg); anchor != nil && b != nil {
					ok, why := delegatorOK(p, anchor, b)
					r.Check(ok, key, e.Pos(cs.Call.Pos()), why+" (captured by the function literal handed to "+calleeName(anchor)+")", "a state-changing staking call can act on stake/rewards that do not belong to the immediate caller: "+why)
					continue
				}
			}
			// inside a helper: pass-through of the helper's own delegator parameter
			fk := ""
			if rn := recvNamedOfSig(fn.Signature); rn != nil {
				fk = rn.Obj().Name() + "." + fn.Name()
			}
			idx, isHelper := stakingHelpers[fk]
			if !isHelper || fn.Parent() != nil {
				r.Bad(key, e.Pos(cs.Call.Pos()), "a staking effect helper is called from a function that is neither an executor's Execute nor another effect helper: the delegator cannot be tied to the immediate caller")
				continue
			}
			own := ssa.Value(fn.Params[idx+1])
			sl := sliceFrom(arg)
			_, fromIps := isIpsElem(arg)
			r.Check(sl.HasValue(own) && !fromIps, key, e.Pos(cs.Call.Pos()), "delegator = the helper's own delegator parameter", "the helper acts for a delegator other than the one it was given")
		}
	})

	r.Rule("R2", "EFFECT+PROVENANCE", "store writes / SDK events reachable from the state-changing staking executors pass only through the SDK's own message servers (staking Delegate, Undelegate, BeginRedelegate; distribution WithdrawDelegatorReward); the message handed to the server carries the helper's delegator, validator and amount", 12, func() {
		ee := e.Effects()
		stop := func(f *ssa.Function) bool {
			rn := recvNamedOfSig(f.Signature)
			if rn == nil || rn.Obj().Name() != "msgServer" || rn.Obj().Pkg() == nil {
				return false
			}
			switch rn.Obj().Pkg().Path() {
			case SDK + "/x/staking/keeper":
				return f.Name() == "Delegate" || f.Name() == "Undelegate" || f.Name() == "BeginRedelegate"
			case SDK + "/x/distribution/keeper":
				return f.Name() == "WithdrawDelegatorReward"
			}
			return false
		}
		for _, x := range rw {
			hits := ee.Reach(x.Execute, EffectOpts{Kinds: map[string]bool{EffStore: true, EffEvent: true}, StopAt: stop})
			d, path := describeHits(hits)
			if len(hits) == 0 {
				r.OK("native path › "+x.Name(), e.Pos(x.Execute.Pos()), "no store write / event outside the SDK message servers")
			} else {
				r.Bad("native path › "+x.Name(), e.Pos(x.Execute.Pos()), "the executor reaches a store write or SDK event that does not go through the native staking/distribution message server: "+d, path...)
			}
		}
		// messages
		type mspec struct {
			helper, ctor, method string
			nargs                int
		}
		for _, ms := range []mspec{
			{"stakingCustomPrecompiledContractRwDelegate.delegate", "NewMsgDelegate", "Delegate", 3},
			{"stakingCustomPrecompiledContractRwUnDelegate.undelegate", "NewMsgUndelegate", "Undelegate", 3},
			{"stakingCustomPrecompiledContractRwReDelegate.redelegate", "NewMsgBeginRedelegate", "BeginRedelegate", 4},
			{"stakingCustomPrecompiledContractRwWithdrawReward.withdrawRewardWithFormattedAddress", "NewMsgWithdrawDelegatorReward", "WithdrawDelegatorReward", 2},
		} {
			fn := e.Fn(pkgCpcKeeper, ms.helper)
			ctors := callsIn(fn, false, func(c ssa.CallInstruction) bool { fo := calleeObj(c); return fo != nil && fo.Name() == ms.ctor })
			srv := callsIn(fn, false, func(c ssa.CallInstruction) bool { return isMethodNamed(c, ms.method) })
			key := "native message › " + ms.helper[strings.LastIndex(ms.helper, ".")+1:]
			if len(ctors) != 1 || len(srv) != 1 {
				r.Bad(key, e.Pos(fn.Pos()), "the helper does not build exactly one "+ms.ctor+" and hand it to the SDK message server's "+ms.method)
				continue
			}
			ok := true
			a := ctors[0].Common().Args
			if len(a) != ms.nargs {
				ok = false
			} else {
				// the k-th constructor argument derives from the (k+1)-th helper parameter (after ctx) and from no other
				for k := 0; k < ms.nargs; k++ {
					sl := sliceFrom(a[k])
					for j := 0; j < ms.nargs; j++ {
						p := ssa.Value(fn.Params[2+j])
						if (j == k) != sl.HasValue(p) {
							ok = false
						}
					}
				}
			}
			// served message is the constructed one, on the helper's ctx, and its error is returned
			sa := srv[0].Common().Args
			if !(len(sa) == 2 && sameLocal(sa[1], ctors[0].(ssa.Value)) && sliceFrom(sa[0]).HasValue(fn.Params[1])) {
				ok = false
			}
			okErr := errorPropagated(fn, srv[0], nil)
			r.Check(ok && okErr, key, e.Pos(srv[0].Pos()), ms.ctor+"(delegator, validator[, dst], amount) → msgServer."+ms.method+"(ctx, msg), error returned", "the native message does not carry exactly the helper's delegator / validator / amount in their positions, is served on another context, or its error is dropped")
		}
	})

	r.Rule("R3", "PAIR+WHO-MAY-CALL", "every state-changing staking executor counts the staking/distribution events before its first mutation and calls autoEmitEventsFromSdkEvents(eventManager, thatCount, delegator, env) after the last one on every success path; the three emits* helpers are called only from autoEmitEventsFromSdkEvents; logs are built from the event's attributes", 11, func() {
		specAuto := CallSpec{pkgCpcKeeper, "stakingCustomPrecompiledContract", "autoEmitEventsFromSdkEvents"}
		specGet := CallSpec{pkgCpcKeeper, "stakingCustomPrecompiledContract", "getSdkEventsFromEventManager"}
		for _, x := range rw {
			fn := x.Execute
			autos := callsTo(fn, false, specAuto)
			helpers := callsIn(fn, false, func(c ssa.CallInstruction) bool { _, ok := stakingHelpers[helperKey(c)]; return ok })
			key := "event→log › " + x.Name()
			// second form: the bracket `count → action() → autoEmit` lives in a helper that receives the mutation as a function
			// literal: `e.contract.execThenEmitEvents(env, delegator, func() error { return e.delegate(ctx, delegator, …) })`
			delegOf := func(c ssa.CallInstruction) ssa.Value { return argOf(c, 2) }
			outer := fn
			var site ssa.CallInstruction
			if len(autos) == 0 {
				for _, bc := range callsIn(fn, false, func(c ssa.CallInstruction) bool {
					h := c.Common().StaticCallee()
					return h != nil && h.Blocks != nil && pkgPathOf(h) == pkgCpcKeeper && len(callsTo(h, false, specAuto)) == 1
				}) {
					h := bc.Common().StaticCallee()
					// the function-typed parameter and the literal bound to it
					for pi, p := range h.Params {
						if _, isSig := p.Type().Underlying().(*types.Signature); !isSig || pi >= len(bc.Common().Args) {
							continue
						}
						mc, isMC := bc.Common().Args[pi].(*ssa.MakeClosure)
						if !isMC {
							continue
						}
						lit := mc.Fn.(*ssa.Function)
						if len(callsIn(lit, false, func(c ssa.CallInstruction) bool { _, ok := stakingHelpers[helperKey(c)]; return ok })) == 0 {
							continue
						}
						dyn := callsIn(h, false, func(c ssa.CallInstruction) bool { return c.Common().Value == ssa.Value(p) })
						if len(dyn) == 0 {
							continue
						}
						site, fn, autos, helpers = bc, h, callsTo(h, false, specAuto), dyn
						// the delegator handed to autoEmit inside the helper is a parameter of the helper: judge the actual argument
						delegOf = func(c ssa.CallInstruction) ssa.Value {
							if dp, isP := resolveLocal(argOf(c, 2)).(*ssa.Parameter); isP && dp.Parent() == h {
								if k := paramIndex(dp); k >= 0 && k < len(bc.Common().Args) {
									return bc.Common().Args[k]
								}
							}
							return argOf(c, 2)
						}
					}
				}
			}
			if len(autos) != 1 || len(helpers) == 0 {
				r.Bad(key, e.Pos(outer.Pos()), "the executor does not contain exactly one autoEmitEventsFromSdkEvents call and at least one effect helper call")
				continue
			}
			au := autos[0]
			ok := true
			why := ""
			if site != nil {
				// the executor itself: every success return passes the bracket call and propagates its error
				for _, ret := range successReturns(outer) {
					if !passesThrough(outer, ret, site) {
						ok, why = false, "a success return of the executor does not pass the helper that brackets the mutation with the log emission"
					}
				}
				if !errorPropagated(outer, site, nil) {
					ok, why = false, "the error of the bracketing helper is not returned"
				}
			}
			// count taken before every mutation
			cnt := sliceFrom(argOf(au, 1))
			var gets []*ssa.Call
			for _, c := range cnt.Calls() {
				if isCallTo(c, specGet) {
					gets = append(gets, c)
				}
			}
			if len(gets) != 1 {
				ok, why = false, "the event count passed to autoEmit is not len(getSdkEventsFromEventManager(…)) of one call"
			} else {
				for _, h := range helpers {
					if !dominatesInstr(gets[0], h.(ssa.Instruction)) || reachesFrom(fn, h.(ssa.Instruction), gets[0]) {
						ok, why = false, "the event count is taken after a mutation"
					}
					if reachesFrom(fn, au.(ssa.Instruction), h.(ssa.Instruction)) {
						ok, why = false, "a mutation follows the log emission"
					}
				}
				// same event manager
				if !samePathCalls(argOf(au, 0), argOf(gets[0], 0)) {
					ok, why = false, "autoEmit reads a different event manager than the one counted"
				}
			}
			for _, ret := range successReturns(fn) {
				if !passesThrough(fn, ret, au) {
					ok, why = false, "a success return does not pass autoEmitEventsFromSdkEvents (native events without matching EVM logs)"
				}
			}
			okErr := errorPropagated(fn, au, nil)
			if !okErr {
				ok, why = false, "the error of autoEmitEventsFromSdkEvents is not returned"
			}
			// delegator handed to autoEmit is the acting delegator
			dsl := sliceFrom(delegOf(au))
			if !(dsl.Has(func(v ssa.Value) bool { return isCallerAddress(v, outer) }) || msgDelegatorAlloc(dsl) != nil) || dsl.Has(func(v ssa.Value) bool { _, ok := isIpsElem(v); return ok }) {
				ok, why = false, "the delegator handed to autoEmit is not the acting delegator"
			}
			r.Check(ok, key, e.Pos(au.Pos()), "count → mutate → autoEmit on every success path", why)
		}
		auto := e.Fn(pkgCpcKeeper, "stakingCustomPrecompiledContract.autoEmitEventsFromSdkEvents")
		n := 0
		for _, cs := range e.repoCallSites(func(c ssa.CallInstruction) bool {
			fo := calleeObj(c)
			return fo != nil && fo.Pkg() != nil && fo.Pkg().Path() == pkgCpcKeeper && strings.HasPrefix(fo.Name(), "emitsEvent")
		}) {
			n++
			r.Check(topFn(cs.Fn) == auto, "log emitter caller › "+fnKey(cs.Fn)+" → "+calleeObj(cs.Call).Name(), e.Pos(cs.Call.Pos()), "only autoEmitEventsFromSdkEvents", "a Delegate/Undelegate/WithdrawReward log is emitted without a matching module event")
		}
		if n < 5 {
			r.Bad("log emitters", e.Pos(auto.Pos()), "fewer than the five emits* call sites found in autoEmitEventsFromSdkEvents")
		}
		// autoEmit: only new events (slice from originalEventCounts), error when none
		okNew := false
		for _, i := range ifs(auto) {
			b, ok := i.Cond.(*ssa.BinOp)
			if ok && (b.Op == token.LEQ || b.Op == token.GTR || b.Op == token.LSS || b.Op == token.GEQ) {
				if resolveLocal(b.Y) == ssa.Value(auto.Params[2]) || resolveLocal(b.X) == ssa.Value(auto.Params[2]) {
					okNew = true
				}
			}
		}
		okSlice := false
		allInstrs(auto, false, func(_ *ssa.Function, _ *ssa.BasicBlock, i ssa.Instruction) {
			if s, ok := i.(*ssa.Slice); ok && s.Low != nil && resolveLocal(s.Low) == ssa.Value(auto.Params[2]) {
				okSlice = true
			}
		})
		// amounts: module events carry coin LISTS (withdraw_rewards emits sdk.Coins); the log amount is the bond-denom part
		okAmt := true
		nAmt := 0
		for _, f := range append([]*ssa.Function{auto}, auto.AnonFuncs...) {
			for _, c := range callsIn(f, false, func(c ssa.CallInstruction) bool {
				fo := calleeObj(c)
				return fo != nil && fo.Pkg() != nil && fo.Pkg().Path() == pkgCpcKeeper && strings.HasPrefix(fo.Name(), "emitsEvent")
			}) {
				nAmt++
				a := c.Common().Args
				amt := backSlice(a[3], SliceOpts{ThroughCallArgs: alwaysThrough, IntoCallees: func(g *ssa.Function) bool { return g.Parent() == auto }, Depth: 2})
				if !(amt.HasCall(CallSpec{pkgSdkTypes, "", "ParseCoinsNormalized"}) && amt.Has(func(v ssa.Value) bool {
					cc, ok := v.(*ssa.Call)
					return ok && isCallTo(cc, CallSpec{pkgSdkTypes, "Coins", "AmountOf"})
				}) && amt.Has(func(v ssa.Value) bool { cc, ok := v.(*ssa.Call); return ok && isMethodNamed(cc, "BondDenom") })) || amt.HasCall(CallSpec{pkgSdkTypes, "", "ParseCoinNormalized"}) {
					okAmt = false
				}
			}
		}
		r.Check(okAmt && nAmt >= 5, "autoEmitEventsFromSdkEvents › log amount = bond-denom part of the event's coin list", e.Pos(auto.Pos()), "ParseCoinsNormalized(attr).AmountOf(BondDenom(ctx))", "the amount of a Delegate/Undelegate/WithdrawReward log is not the bond-denomination part of the module event's coin list (a reward paid in several denominations makes the call fail, or a foreign-denomination amount is logged)")
		r.Check(okNew && okSlice, "autoEmitEventsFromSdkEvents › only events emitted since the count", e.Pos(auto.Pos()), "events[originalEventCounts:], error if none", "logs are not derived from exactly the newly emitted module events")
	})

	r.Rule("R5", "PROVENANCE", "staking views answer for the address(es) they are asked about: in every read-only staking executor with address inputs, each address input feeds a native staking / distribution / bank read (directly or through an in-package helper) on the executor's context, and the value returned derives from those reads", 6, func() {
		abis := embeddedABIs(e)["StakingCpcInfo"]
		isNative := func(c ssa.CallInstruction) bool {
			fo := calleeObj(c)
			if fo == nil || fo.Pkg() == nil {
				return false
			}
			p := fo.Pkg().Path()
			if strings.HasPrefix(p, SDK+"/x/staking") || strings.HasPrefix(p, SDK+"/x/distribution") || strings.HasPrefix(p, SDK+"/x/bank") {
				return true
			}
			return p == pkgCpcKeeper && recvNamed(fo) != nil && strings.HasPrefix(recvNamed(fo).Obj().Name(), "stakingCustomPrecompiledContract") && fo.Name() != "Execute"
		}
		for _, x := range executorCensus(e) {
			if !strings.HasPrefix(x.Name(), "stakingCustomPrecompiledContractRo") {
				continue
			}
			fn := x.Execute
			var method string
			for _, c := range callsIn(fn, false, func(c ssa.CallInstruction) bool { return isMethodNamed(c, "UnpackMethodInput") }) {
				method, _ = constString(c.Common().Args[1])
			}
			ab, ok := abis[method]
			if !ok {
				continue
			}
			var addrIdx []int
			for k, in := range ab.Inputs {
				if in.Type == "address" {
					addrIdx = append(addrIdx, k)
				}
			}
			if len(addrIdx) == 0 {
				continue
			}
			natives := callsIn(fn, false, isNative)
			okIn := true
			for _, k := range addrIdx {
				fed := false
				for _, c := range natives {
					for _, a := range c.Common().Args {
						if sliceFrom(a).Has(func(v ssa.Value) bool { kk, isI := isIpsElem(v); return isI && kk == k }) {
							fed = true
						}
					}
				}
				if !fed {
					okIn = false
				}
			}
			okOut := len(successReturns(fn)) > 0
			for _, ret := range successReturns(fn) {
				sl := sliceFrom(ret.Results[0])
				der := false
				for _, c := range natives {
					if v, isV := c.(ssa.Value); isV && sl.HasValue(v) {
						der = true
					}
				}
				// constant-zero short cuts (no delegation ⇒ 0) are fine when guarded by a native result
				if !der {
					if cc, _ := callOf(ret.Results[0]); cc != nil && isCallTo(cc, CallSpec{pkgCpcUtils, "", "AbiEncodeUint256"}) {
						der = true
					}
				}
				if !der {
					okOut = false
				}
			}
			r.Check(okIn && okOut, "view › "+x.Name(), e.Pos(fn.Pos()), method+": every address input feeds a native read; the result derives from native reads", "the view does not read native staking/distribution/bank state for the address(es) it was asked about, or returns a value that does not derive from those reads")
		}
	})

	r.Rule("R4", "TABLE-AGREE", "every field of abi.StakingMessage / abi.WithdrawRewardMessage is part of the EIP-712 typed data (a Types entry and a Message entry under its JSON name, the Message value derived from that field); the domain binds the chain id parameter; VerifySignature compares the recovered address with the expected one over the hash of tm.ToTypedData(chainId)", 12, func() {
		for _, tn := range []string{"StakingMessage", "WithdrawRewardMessage"} {
			named := e.Named(pkgCpcAbi, tn)
			st := named.Underlying().(*types.Struct)
			fn := e.Fn(pkgCpcAbi, tn+".ToTypedData")
			// Types names
			typeNames := map[string]bool{}
			msgKeys := map[string]*Slice{}
			allInstrs(fn, false, func(_ *ssa.Function, _ *ssa.BasicBlock, i ssa.Instruction) {
				switch x := i.(type) {
				case *ssa.Store:
					if fa, ok := x.Addr.(*ssa.FieldAddr); ok && fieldName(fa) == "Name" && namedTypePath(fa.X.Type()) == GETH+"/signer/core/apitypes.Type" {
						if s, ok := constString(x.Val); ok {
							typeNames[s] = true
						}
					}
				case *ssa.MapUpdate:
					if namedTypeName(x.Map.Type()) == "TypedDataMessage" || strings.Contains(x.Map.Type().String(), "TypedDataMessage") {
						if s, ok := constString(x.Key); ok {
							msgKeys[s] = sliceFrom(x.Value)
						}
					}
				}
			})
			for k := 0; k < st.NumFields(); k++ {
				f := st.Field(k)
				tag := reflect.StructTag(st.Tag(k)).Get("json")
				if j := strings.Index(tag, ","); j >= 0 {
					tag = tag[:j]
				}
				if tag == "" {
					tag = f.Name()
				}
				sl := msgKeys[tag]
				ok := typeNames[tag] && sl != nil && hasFieldLoad(sl, tn, f.Name())
				r.Check(ok, "typed data › "+tn+"."+f.Name(), e.Pos(f.Pos()), "Types and Message carry \""+tag+"\" = m."+f.Name(), "field "+f.Name()+" of the signed message is not covered by the EIP-712 hash (a signature for one value authorises another)")
			}
			var extra []string
			for k := range msgKeys {
				found := false
				for i := 0; i < st.NumFields(); i++ {
					tag := reflect.StructTag(st.Tag(i)).Get("json")
					if tag == k {
						found = true
					}
				}
				if !found {
					extra = append(extra, k)
				}
			}
			sort.Strings(extra)
			// chain id
			okDom := false
			for _, c := range callsTo(fn, false, CallSpec{pkgCpcEip, "", "GetDomain"}) {
				okDom = resolveLocal(c.Common().Args[1]) == ssa.Value(fn.Params[1])
			}
			r.Check(okDom && len(extra) == 0, "typed data › "+tn+" domain(chainId)", e.Pos(fn.Pos()), "Domain: GetDomain(stakingAddress, chainId)", "the typed-data domain is not built from the chain id parameter")
		}
		gd := e.Fn(pkgCpcEip, "GetDomain")
		okCid := false
		allInstrs(gd, false, func(_ *ssa.Function, _ *ssa.BasicBlock, i ssa.Instruction) {
			if st, ok := i.(*ssa.Store); ok {
				if fa, ok := st.Addr.(*ssa.FieldAddr); ok && fieldName(fa) == "ChainId" {
					okCid = sliceFrom(st.Val).HasValue(gd.Params[1])
				}
			}
		})
		r.Check(okCid, "GetDomain › ChainId ← chainId", e.Pos(gd.Pos()), "domain.ChainId = chainId", "the EIP-712 domain does not bind the chain id: a signature is replayable on another chain")
		vs := e.Fn(pkgCpcEip, "VerifySignature")
		okV := false
		allInstrs(vs, false, func(_ *ssa.Function, _ *ssa.BasicBlock, i ssa.Instruction) {
			b, ok := i.(*ssa.BinOp)
			if !ok || b.Op != token.EQL {
				return
			}
			x, y := sliceFrom(b.X), sliceFrom(b.Y)
			rec := func(s *Slice) bool { return s.HasCall(CallSpec{GETH + "/crypto", "", "PubkeyToAddress"}) }
			exp := func(s *Slice) bool { return s.HasValue(vs.Params[0]) }
			if (rec(x) && exp(y)) || (rec(y) && exp(x)) {
				// is it the match result?
				for _, ret := range returnsOf(vs) {
					if sliceFrom(ret.Results[0]).HasValue(b) {
						okV = true
					}
				}
			}
		})
		hs := callsTo(vs, false, CallSpec{pkgCpcEip, "", "EIP712HashingTypedMessage"})
		okH := len(hs) == 1 && resolveLocal(hs[0].Common().Args[0]) == ssa.Value(vs.Params[1]) && resolveLocal(hs[0].Common().Args[1]) == ssa.Value(vs.Params[5])
		ec := callsTo(vs, false, CallSpec{GETH + "/crypto", "", "Ecrecover"})
		okE := len(ec) == 1 && len(hs) == 1 && sliceFrom(ec[0].Common().Args[0]).HasValue(hs[0].(ssa.Value))
		r.Check(okV && okH && okE, "VerifySignature › match = (recover(hash(tm, chainId), sig) == expected)", e.Pos(vs.Pos()), "Ecrecover over EIP712HashingTypedMessage(tm, chainId); match = recovered == expectedAddress", "the signature check does not compare the address recovered over the typed-data hash for this chain id with the expected address")
	})

	r.Rule("R8", "CENSUS+MUST-PASS", "what was signed is what is executed: every field of the signed StakingMessage either flows into the native message built by the by-action executor, or is bound to the value that does by an (in)equality test in Validate whose failing edge returns an error (Denom ↔ the staking bond denomination that the executor puts into the coin); Validate's error gates the action", 7, func() {
		pkgAbi := EV + "/x/cpc/abi"
		smN := e.Named(pkgAbi, "StakingMessage")
		val := e.Fn(pkgAbi, "StakingMessage.Validate")
		var ex *ssa.Function
		for _, x := range rw {
			if strings.HasSuffix(x.Name(), "DelegateByActionMessage") {
				ex = x.Execute
			}
		}
		if ex == nil {
			r.Undec("signed fields › executor", "", "the by-action-message executor was not found")
			return
		}
		// Validate(…, bondDenom) is called with the bond denomination of the staking keeper and its error stops the executor
		vcs := callsIn(ex, false, func(c ssa.CallInstruction) bool { return c.Common().StaticCallee() == val })
		okCall := len(vcs) == 1
		var bondV ssa.Value
		if okCall {
			a := vcs[0].Common().Args
			bondV = resolveLocal(a[len(a)-1])
			okCall = sliceFrom(bondV).Has(func(v ssa.Value) bool { c, ok := v.(*ssa.Call); return ok && isMethodNamed(c, "BondDenom") }) && errorPropagated(ex, vcs[0], nil)
			helpers := callsIn(ex, false, func(c ssa.CallInstruction) bool { _, ok := stakingHelpers[helperKey(c)]; return ok })
			for _, h := range helpers {
				if !dominatesInstr(vcs[0].(ssa.Instruction), h.(ssa.Instruction)) {
					okCall = false
				}
			}
		}
		r.Check(okCall, "signed fields › Validate(codec, BondDenom(ctx)) gates the action", e.Pos(ex.Pos()), "error returned before any effect", "the signed message is not validated against the staking bond denomination before acting")
		st := smN.Underlying().(*types.Struct)
		for i := 0; i < st.NumFields(); i++ {
			f := st.Field(i)
			key := "signed fields › StakingMessage." + f.Name()
			// (i) read by the executor and flowing into an effect-helper argument or a guard
			used := false
			for _, h := range callsIn(ex, false, func(c ssa.CallInstruction) bool { _, ok := stakingHelpers[helperKey(c)]; return ok }) {
				for _, a := range h.Common().Args {
					if sliceFrom(a).Has(func(v ssa.Value) bool { return fieldVar(v) == f }) {
						used = true
					}
				}
			}
			if f.Name() == "Action" {
				for _, i2 := range ifs(ex) {
					if sliceFrom(i2.Cond).Has(func(v ssa.Value) bool { return fieldVar(v) == f }) {
						used = true // selects the helper
					}
				}
			}
			// (ii) bound by an equality test in Validate against a parameter, failing edge returns an error, dominating success
			bound := false
			if !used {
				gs := eqGuards(val, true, func(v ssa.Value) bool {
					return fieldVar(v) == f || (func() bool { u, ok := v.(*ssa.UnOp); return ok && fieldVar(u.X) == f })()
				}, func(v ssa.Value) bool { _, isP := resolveLocal(v).(*ssa.Parameter); return isP })
				var conf []Guard
				for _, g := range gs {
					if failEdgeReturnsError(val, g, nil) {
						conf = append(conf, g)
					}
				}
				bound = len(conf) > 0
				for _, ret := range successReturns(val) {
					if !mustPass(val, ret, conf) {
						bound = false
					}
				}
			}
			if f.Name() == "Amount" && used {
				// …and the amount that is signed is the amount that is executed: the typed data carries the full uint256
				if probs, _ := typedDataNarrowing(e); len(probs) > 0 {
					r.Bad(key+" › rendered unnarrowed", e.Pos(f.Pos()), "the amount (or the chain id) enters the EIP-712 typed data through a 64-bit narrowing ("+strings.Join(probs, "; ")+"): a signature over N also verifies for N + k·2^64, and the precompile executes the larger amount")
				}
			}
			r.Check(used || bound, key, e.Pos(f.Pos()), map[bool]string{true: "flows into the native message", false: "bound by an equality test in Validate"}[used], "the signed field "+f.Name()+" neither reaches the native message nor is tested against the value that does: a message signed for one "+strings.ToLower(f.Name())+" is executed with another (the executor fills in its own value)")
		}
	})

	r.Rule("R7", "EFFECT", "views mirror native queries, which change nothing: no read-only staking executor reaches a store write, event or log over the call graph — in particular the distribution querier's period increment stays on a discarded cache context (a view that closes a validator's reward period changes every later reward through the 18-decimal truncation; shared with C12-R2)", 5, func() {
		ee := e.Effects()
		n := 0
		for _, x := range executorCensus(e) {
			if !strings.HasPrefix(x.Name(), "stakingCustomPrecompiledContractRo") {
				continue
			}
			n++
			hits := ee.Reach(x.Execute, EffectOpts{MaxHits: 2})
			key := "view writes nothing › " + x.Name()
			if len(hits) == 0 {
				r.OK(key, e.Pos(x.Execute.Pos()), "no effect sink reachable")
			} else {
				d, p := describeHits(hits)
				r.Bad(key, e.Pos(x.Execute.Pos()), "a staking view can reach: "+d+" — the state it leaves differs from what the native query (which writes nothing) leaves", p...)
			}
		}
		r.Count("staking_views", n)
	})

	r.Rule("R6", "ROUND-ONCE", "view methods report the native numbers: a view (read-only staking executor or its helper) never accumulates values that were each rounded (TruncateInt / RoundInt / TruncateInt64 …) inside a loop — the native queries round their total once, and a sum of truncated parts falls short of the truncated sum by up to n−1 units", 1, func() {
		isRounding := func(v ssa.Value) bool {
			c, ok := v.(*ssa.Call)
			if !ok {
				return false
			}
			fo := calleeObj(c)
			if fo == nil || fo.Pkg() == nil || fo.Pkg().Path() != pkgSdkMath {
				return false
			}
			switch fo.Name() {
			case "TruncateInt", "RoundInt", "TruncateInt64", "RoundInt64", "Ceil", "TruncateDec", "QuoTruncate", "QuoInt", "QuoRaw", "Quo":
				return true
			}
			return false
		}
		nViews, nBad := 0, 0
		for _, f := range e.SrcFuncs(func(p string) bool { return p == pkgCpcKeeper }) {
			top := topFn(f)
			rn := ""
			if top.Signature.Recv() != nil {
				rn = namedTypeName(top.Signature.Recv().Type())
			}
			if !strings.HasPrefix(rn, "stakingCustomPrecompiledContractRo") {
				continue
			}
			nViews++
			for _, l := range loopsOf(f) {
				for b := range l.Body {
					for _, in := range b.Instrs {
						c, ok := in.(*ssa.Call)
						if !ok {
							continue
						}
						fo := calleeObj(c)
						if fo == nil || fo.Pkg() == nil || fo.Pkg().Path() != pkgSdkMath || !(fo.Name() == "Add" || fo.Name() == "AddRaw" || fo.Name() == "Sub") {
							continue
						}
						for _, a := range c.Call.Args {
							sl := backSlice(a, SliceOpts{ThroughCallArgs: alwaysThrough, NoMemory: true})
							if sl.Has(func(v ssa.Value) bool {
								ins, isI := v.(ssa.Instruction)
								return isRounding(v) && isI && l.Body[ins.Block()]
							}) {
								nBad++
								r.Bad("view rounds once › "+fnKey(f), e.Pos(c.Pos()), "the view accumulates values that are rounded one by one inside the loop (sum of truncations): the reported number differs from the native query's total, which is rounded once")
							}
						}
					}
				}
			}
		}
		if nBad == 0 {
			r.OK("view rounds once › staking views", "", itoa(nViews)+" view functions, no accumulation of individually rounded values")
		}
		r.Count("view_functions", nViews)
	})
}

// samePathCalls: both values are the same nullary-getter chain on the same base, e.g. ctx.EventManager() twice.
func samePathCalls(a, b ssa.Value) bool {
	a, b = resolveLocal(a), resolveLocal(b)
	if a == b {
		return true
	}
	ca, _ := callOf(a)
	cb, _ := callOf(b)
	if ca == nil || cb == nil {
		return samePath(a, b)
	}
	fa, fb := calleeObj(ca), calleeObj(cb)
	if fa == nil || fa != fb || len(ca.Call.Args) != len(cb.Call.Args) {
		return false
	}
	if ca.Call.IsInvoke() != cb.Call.IsInvoke() {
		return false
	}
	if ca.Call.IsInvoke() && !samePathCalls(ca.Call.Value, cb.Call.Value) {
		return false
	}
	for i := range ca.Call.Args {
		if !samePathCalls(ca.Call.Args[i], cb.Call.Args[i]) {
			return false
		}
	}
	return true
}

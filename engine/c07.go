package main

import (
	"fmt"
	"go/ast"
	"go/token"
	"go/types"
	"sort"
	"strings"

	"golang.org/x/tools/go/ssa"
)

func init() { registry["C07"] = checkC07 }

// opKind classifies a call inside an AnteHandle body.
type anteOp struct {
	call ssa.CallInstruction
	kind string // keeper | sdkdec | ctxwith | emit | next-modified | next | neutral
	desc string
}

// classifyAnteOps classifies every call in the AnteHandle body (including function literals).
func classifyAnteOps(e *Engine, d *Decorator) []anteOp {
	fn := d.Fn
	ctxP, txP, simP := anteParam(fn, 0), anteParam(fn, 1), anteParam(fn, 2)
	anteDec := e.Iface(pkgSdkTypes, "AnteDecorator")
	var ops []anteOp
	allInstrs(fn, true, func(f *ssa.Function, _ *ssa.BasicBlock, i ssa.Instruction) {
		c, ok := i.(ssa.CallInstruction)
		if !ok {
			return
		}
		cc := c.Common()
		if _, isB := cc.Value.(*ssa.Builtin); isB {
			return
		}
		op := anteOp{call: c, kind: "neutral", desc: calleeName(c)}
		fo := calleeObj(c)
		switch {
		case f == fn && isNextCall(fn, c):
			op.kind = "next"
			if len(cc.Args) != 3 || cc.Args[0] != ssa.Value(ctxP) || cc.Args[1] != ssa.Value(txP) || cc.Args[2] != ssa.Value(simP) {
				op.kind = "next-modified"
			}
		case fo != nil && fo.Name() == "AnteHandle" && recvIsDecoratorField(c, fn, anteDec):
			op.kind = "sdkdec"
		case fo != nil && recvNamed(fo) != nil && namedTypePath(recvNamed(fo)) == pkgSdkTypes+".Context" && strings.HasPrefix(fo.Name(), "With"):
			op.kind = "ctxwith"
		case fo != nil && recvNamed(fo) != nil && strings.HasSuffix(namedTypePath(recvNamed(fo)), "/types.EventManager") && strings.HasPrefix(fo.Name(), "Emit"):
			op.kind = "emit"
		case fo != nil && fo.Name() == "Emit" || fo != nil && strings.HasPrefix(fo.Name(), "EmitEvent") || fo != nil && strings.HasPrefix(fo.Name(), "EmitTypedEvent"):
			op.kind = "emit"
		default:
			// a call that receives an sdk.Context as an argument (not as receiver) is a keeper/state operation
			args := cc.Args
			if !cc.IsInvoke() && fo != nil && fo.Type().(*types.Signature).Recv() != nil && len(args) > 0 {
				args = args[1:] // static method call: first arg is the receiver
			}
			for _, a := range args {
				if _, isCtx := ctxArg(a); isCtx {
					op.kind = "keeper"
				}
			}
			// method calls on the decorator itself take part in the decorator's own lane logic
			if fo != nil && recvNamed(fo) == d.Type.Origin() {
				op.kind = "keeper"
			}
		}
		ops = append(ops, op)
	})
	return ops
}

// recvIsDecoratorField: the receiver of the call is loaded from a field of the AnteHandle receiver whose type is an AnteDecorator.
func recvIsDecoratorField(c ssa.CallInstruction, fn *ssa.Function, anteDec *types.Interface) bool {
	cc := c.Common()
	var recv ssa.Value
	if cc.IsInvoke() {
		recv = cc.Value
	} else if len(cc.Args) > 0 {
		recv = cc.Args[0]
	}
	if recv == nil {
		return false
	}
	t := recv.Type()
	if !types.Implements(t, anteDec) {
		if p, ok := t.(*types.Pointer); !ok || !types.Implements(p.Elem(), anteDec) {
			return false
		}
	}
	sl := backSlice(recv, SliceOpts{})
	return len(fn.Params) > 0 && sl.HasValue(fn.Params[0])
}

func checkC07(e *Engine, r *Report) {
	e.BuildSSA()
	r.NotDecided("the full truth table of the lane predicates as values; R6 decides their guard structure")
	r.NotDecided("nested dispatch routes of other modules (gov, ICA host) beyond the authz screen: listed as advisory only")
	r.Assumption("re-check (IsReCheckTx) only re-runs transaction bytes that already passed the Ethereum-shape guards in check mode")

	ds := decoratorCensus(e)
	chain := chainLiteral(e)
	unknown, dups := indexChain(ds, chain)

	r.Rule("R1", "CENSUS", "every type with an AnteHandle method in duallane/evmlane/cosmoslane appears exactly once in the chain literal of antedl.NewAnteHandler and every chain element is such a type; the three Cosmos-lane rejecters are present", 16, func() {
		for _, d := range ds {
			r.Check(d.Index >= 0, "decorator "+d.Lane+"."+d.Name(), e.Pos(d.Fn.Pos()),
				fmt.Sprintf("in chain at position %d", d.Index),
				"decorator type is declared with an AnteHandle method but is not an element of the chain literal in NewAnteHandler: its lane check never runs")
		}
		for _, u := range unknown {
			r.Bad("chain element "+u, "", "chain element is not built by a constructor of a lane decorator type (cannot be judged by the lane rules)")
		}
		for _, u := range dups {
			r.Bad("chain duplicate "+u, "", "decorator appears more than once in the chain")
		}
		nCosmos := 0
		for _, d := range ds {
			if d.Lane == "cosmos" && d.Index >= 0 {
				nCosmos++
			}
		}
		r.Check(nCosmos >= 3, "cosmos-lane rejecters", "", fmt.Sprintf("%d cosmos-lane decorators in chain", nCosmos), "fewer than 3 cosmos-lane decorators in the chain (reject-eth-msgs, reject-authz-msgs, vesting authorization)")
		r.Count("chain_elements", len(chain))
	})

	r.Rule("R2", "MUST-PASS", "lane-sensitive operations (calls receiving an sdk.Context, ctx.With*, event emission, next with changed arguments, the embedded SDK decorator) happen only on the lane they belong to: evmlane ops only under the true edge of HasSingleEthereumMessage(tx); cosmoslane ops only under its false edge; duallane: keeper ops only on the Ethereum edge, the SDK decorator only on the Cosmos edge (confirmed exception: DLDeductFeeDecorator forwards both lanes to the SDK fee decorator)", 16, func() {
		for _, d := range ds {
			ops := classifyAnteOps(e, d)
			eth, cosmos := laneGuards(d.Fn)
			// blocks reachable when no Ethereum-lane edge / no Cosmos-lane edge is taken
			notEth := reachable(d.Fn, d.Fn.Blocks[0], surviveEdges(eth))
			notCosmos := reachable(d.Fn, d.Fn.Blocks[0], surviveEdges(cosmos))
			sensitive := 0
			for k, op := range ops {
				blk := op.call.Block()
				if op.call.Parent() != d.Fn {
					// inside a function literal: judged at the block where the literal is created in AnteHandle
					blk = closureSite(d.Fn, op.call.Parent())
				}
				var ethOnly, cosmosOnly bool
				switch d.Lane {
				case "evm":
					ethOnly = op.kind == "keeper" || op.kind == "ctxwith" || op.kind == "emit" || op.kind == "next-modified" || op.kind == "sdkdec"
				case "cosmos":
					cosmosOnly = op.kind == "keeper" || op.kind == "ctxwith" || op.kind == "emit" || op.kind == "next-modified" || op.kind == "sdkdec"
				case "dual":
					ethOnly = op.kind == "keeper" || op.kind == "ctxwith" || op.kind == "emit" || op.kind == "next-modified"
					cosmosOnly = op.kind == "sdkdec"
					if d.Name() == "DLDeductFeeDecorator" && op.kind == "sdkdec" {
						cosmosOnly = false // confirmed exception: fee deduction is shared by both lanes
					}
				}
				if !ethOnly && !cosmosOnly {
					continue
				}
				sensitive++
				key := fmt.Sprintf("%s.%s › %s#%d", d.Lane, d.Name(), op.desc, ordinalOf(ops, k))
				pos := e.Pos(op.call.Pos())
				if blk == nil {
					r.Undec(key, pos, "lane-sensitive operation inside a function literal of AnteHandle: not judged")
					continue
				}
				if ethOnly {
					r.Check(!notEth[blk], key, pos, "only reachable through the Ethereum-lane edge", "Ethereum-lane operation ("+op.kind+") is reachable without passing the true edge of HasSingleEthereumMessage(tx): it also runs for Cosmos transactions")
				} else {
					r.Check(!notCosmos[blk], key, pos, "only reachable through the Cosmos-lane edge", "Cosmos-lane operation ("+op.kind+") is reachable without passing the false edge of HasSingleEthereumMessage(tx): it also runs for Ethereum transactions")
				}
			}
			if d.Lane == "cosmos" || d.Lane == "evm" {
				// the foreign lane must fall straight through: every return reachable without the own-lane edge is `return next(ctx, tx, simulate)` untouched
				foreign := notEth
				if d.Lane == "cosmos" {
					foreign = notCosmos
				}
				ok := true
				var why string
				for _, ret := range returnsOf(d.Fn) {
					if !foreign[ret.Block()] {
						continue
					}
					c, _ := callOf(ret.Results[0])
					if c == nil || !isNextCall(d.Fn, c) {
						ok = false
						why = "return at " + e.Pos(ret.Pos()) + " is reachable for the foreign lane and does not forward to next"
					}
				}
				r.Check(ok, d.Lane+"."+d.Name()+" › foreign-lane fallthrough", e.Pos(d.Fn.Pos()), "every return reachable for the foreign lane forwards to next(ctx, tx, simulate)", why)
			}
			// a decorator that walks the message list must finish the walk before handing over:
			// next()/the SDK decorator called from inside a loop skips the remaining messages
			for _, l := range loopsOf(d.Fn) {
				ok := true
				var at token.Pos
				for _, op := range ops {
					if (op.kind == "next" || op.kind == "next-modified" || op.kind == "sdkdec") && op.call.Parent() == d.Fn && l.Body[op.call.Block()] && op.call.Block() != l.Header {
						ok = false
						at = op.call.Pos()
					}
				}
				r.Check(ok, d.Lane+"."+d.Name()+" › loop finished before hand-over", e.Pos(l.Header.Instrs[0].Pos()), "no hand-over from inside the loop", "the chain is continued from inside a loop over the messages (at "+e.Pos(at)+"): the remaining messages are not examined")
			}
			if sensitive == 0 {
				r.OK(d.Lane+"."+d.Name()+" › no lane-sensitive operation", e.Pos(d.Fn.Pos()), "decorator performs no lane-sensitive operation")
			}
		}
	})

	r.Rule("R3", "MUST-PASS", "on the Ethereum lane, next() of the dual-lane decorators before fee deduction is reachable only after an error-returning guard on each of: SignerInfos, Signatures, Fee.Payer, Fee.Granter, Body.Memo, Body.TimeoutHeight, extension options (IsEthereumTx), Fee.Amount == EthTxFee, Fee.GasLimit == ethTx.Gas(), exactly-one-message shape (lane predicate)", 9, func() {
		checkEthShape(e, r, ds)
	})

	r.Rule("R4", "MUST-PASS+TABLE", "authz screen: checkDisabledMsgs recurses into MsgExec with level+1, tests MsgGrant's authorization URL, tests nested message URLs, errors past the depth limit; AnteHandle reaches next only if it returned nil; default disabled list ⊇ {MsgEthereumTx} ∪ request types of the SDK vesting MsgServer; Validate refuses an empty list; app wires the default list", 8, func() {
		checkAuthzScreen(e, r)
	})

	r.Rule("R6", "MUST-PASS", "lane predicates: HasSingleEthereumMessage can be true only outside the message loop, after every message was asserted to be *MsgEthereumTx and a second one returned false; IsEthereumTx can be true (for a tx exposing extension options) only if HasSingleEthereumMessage held, there is no non-critical extension option, and the critical options are none or exactly one of the Ethereum extension type", 5, func() {
		checkLanePredicates(e, r)
	})

	r.Rule("R5", "CENSUS(advisory)", "keepers that receive the message service router (nested dispatch routes) are listed", 0, func() {
		listRouterReceivers(e, r)
	})
}

// closureSite returns the block of fn in which the function literal lit (or its outermost enclosing literal) is created.
func closureSite(fn, lit *ssa.Function) *ssa.BasicBlock {
	for lit.Parent() != nil && lit.Parent() != fn {
		lit = lit.Parent()
	}
	var blk *ssa.BasicBlock
	allInstrs(fn, false, func(_ *ssa.Function, b *ssa.BasicBlock, i ssa.Instruction) {
		if mc, ok := i.(*ssa.MakeClosure); ok && mc.Fn == lit {
			blk = b
		}
	})
	return blk
}

func ordinalOf(ops []anteOp, k int) int {
	n := 0
	for i := 0; i < k; i++ {
		if ops[i].desc == ops[k].desc {
			n++
		}
	}
	return n
}

// errorExitGuard decides which successor of an If is the failing edge: the one from which the target call is
// unreachable and every reachable return carries a provably non-nil error (or the region panics).
func errorExitGuard(fn *ssa.Function, i *ssa.If, isTarget func(ssa.CallInstruction) bool) (Guard, bool) {
	blk := i.Block()
	fails := -1
	for s := 0; s < 2; s++ {
		reg := reachable(fn, blk.Succs[s], nil)
		bad := false
		nret := 0
		for b := range reg {
			for _, in := range b.Instrs {
				if c, ok := in.(ssa.CallInstruction); ok && isTarget(c) {
					bad = true
				}
				if ret, ok := in.(*ssa.Return); ok {
					nret++
					if isSuccessReturn(fn, ret) {
						bad = true
					}
				}
			}
		}
		if !bad {
			if fails >= 0 {
				return Guard{}, false // both sides fail: not a guard for the target
			}
			fails = s
		}
	}
	if fails < 0 {
		return Guard{}, false
	}
	return Guard{If: i, Survive: 1 - fails}, true
}

type shapeReq struct {
	name     string
	fieldPkg string // package of the struct declaring the field
	fieldTyp string
	field    string
	needCall *CallSpec // the guard's condition must additionally derive from this call
	eqOnly   bool      // the guard must be an (in)equality test, not an ordering
}

func checkEthShape(e *Engine, r *Report, ds []*Decorator) {
	const txPkg = SDK + "/types/tx"
	reqs := []shapeReq{
		{"AuthInfo.SignerInfos empty", txPkg, "AuthInfo", "SignerInfos", nil, false},
		{"Tx.Signatures empty", txPkg, "Tx", "Signatures", nil, false},
		{"Fee.Payer empty", txPkg, "Fee", "Payer", nil, false},
		{"Fee.Granter empty", txPkg, "Fee", "Granter", nil, false},
		{"Body.Memo empty", txPkg, "TxBody", "Memo", nil, false},
		{"Body.TimeoutHeight zero", txPkg, "TxBody", "TimeoutHeight", nil, false},
		{"Fee.Amount == EthTxFee(ethTx)", txPkg, "Fee", "Amount", &CallSpec{EV + "/x/evm/utils", "", "EthTxFee"}, true},
		{"Fee.GasLimit == ethTx.Gas()", txPkg, "Fee", "GasLimit", &CallSpec{GETH + "/core/types", "Transaction", "Gas"}, true},
	}
	// the decorators that run before the first state-changing Ethereum-lane step (fee deduction)
	var feeIdx = -1
	for _, d := range ds {
		if d.Name() == "DLDeductFeeDecorator" {
			feeIdx = d.Index
		}
	}
	if feeIdx < 0 {
		undecidedf("DLDeductFeeDecorator not found in chain")
	}
	var early []*Decorator
	for _, d := range ds {
		if d.Index >= 0 && d.Index < feeIdx {
			early = append(early, d)
		}
	}
	sort.Slice(early, func(i, j int) bool { return early[i].Index < early[j].Index })

	fieldOf := func(q shapeReq) *types.Var {
		n := e.Named(q.fieldPkg, q.fieldTyp)
		st := n.Underlying().(*types.Struct)
		for i := 0; i < st.NumFields(); i++ {
			if st.Field(i).Name() == q.field {
				return st.Field(i)
			}
		}
		undecidedf("field %s.%s.%s not found", q.fieldPkg, q.fieldTyp, q.field)
		return nil
	}

	// guardedNext decides, for decorator d and guard set gs (guards of the decorator or of its single-site private helpers), that
	// every next() on the Ethereum lane outside re-check passes a guard. Decided on the decorator's supergraph.
	regs := map[*Decorator]*Region{}
	sgs := map[*Decorator]*SG{}
	regOf := func(d *Decorator) (*Region, *SG) {
		if regs[d] == nil {
			regs[d] = e.privateRegion(d.Fn)
			sgs[d] = regs[d].Supergraph()
		}
		return regs[d], sgs[d]
	}
	guardedNext := func(d *Decorator, gs []Guard) (bool, int) {
		fn := d.Fn
		_, sg := regOf(d)
		_, cosmos := laneGuards(fn)
		all := append(append([]Guard{}, gs...), cosmos...)
		all = append(all, boolCallGuards(fn, true, func(c *ssa.Call) bool {
			return isCallTo(c, CallSpec{pkgSdkTypes, "Context", "IsReCheckTx"})
		})...)
		n := 0
		if len(gs) == 0 {
			return false, 0
		}
		for _, c := range callsIn(fn, false, func(c ssa.CallInstruction) bool { return isNextCall(fn, c) }) {
			n++
			if !sg.MustPass(c, all) {
				return false, n
			}
		}
		return n > 0, n
	}
	// shapeGuardsOf: error-exit guards on the field in the decorator and its helpers; a helper's guard counts only if the
	// helper's error is propagated by the decorator
	shapeGuardsOf := func(d *Decorator, pred func(i *ssa.If, sl *Slice) bool, name string) []Guard {
		reg, _ := regOf(d)
		var gs []Guard
		for _, f := range reg.Fns {
			if f != d.Fn && !reg.ErrorPropagated(reg.site[f]) {
				continue
			}
			for _, i := range ifs(f) {
				sl := reg.BackSlice(i.Cond, SliceOpts{ThroughCallArgs: alwaysThrough})
				if !pred(i, sl) {
					continue
				}
				g, ok := errorExitGuard(f, i, func(c ssa.CallInstruction) bool { return isNextCall(d.Fn, c) })
				if !ok {
					continue
				}
				g.Desc = name
				gs = append(gs, g)
			}
		}
		return gs
	}

	for _, q := range reqs {
		fv := fieldOf(q)
		found := false
		var where string
		for _, d := range early {
			gs := shapeGuardsOf(d, func(i *ssa.If, sl *Slice) bool {
				if !sl.Has(func(v ssa.Value) bool { return fieldVar(v) == fv }) {
					return false
				}
				if q.needCall != nil && !sl.HasCall(*q.needCall) {
					return false
				}
				if q.eqOnly {
					if b, isB := i.Cond.(*ssa.BinOp); isB && b.Op != token.EQL && b.Op != token.NEQ {
						return false
					}
				}
				if q.needCall == nil {
					// "must be empty / zero": the test has to be exact for EVERY value of the field — (in)equality with the zero
					// value, or an ordering test that is equivalent to it (len(x) > 0, unsigned x > 0). An ordering test on a
					// value converted to a signed type (int64(timeout) > 0) lets the upper half of the range through.
					b, isB := i.Cond.(*ssa.BinOp)
					if !isB {
						return false
					}
					v, z := b.X, b.Y
					isZero := func(x ssa.Value) bool {
						c, ok := x.(*ssa.Const)
						if !ok {
							return false
						}
						if c.Value == nil {
							return true
						}
						if k, isK := constInt(x); isK {
							return k == 0
						}
						if sv, isS := constString(x); isS {
							return sv == ""
						}
						return false
					}
					op := b.Op
					if isZero(v) && !isZero(z) {
						v, z = z, v
						switch op {
						case token.LSS:
							op = token.GTR
						case token.GTR:
							op = token.LSS
						case token.LEQ:
							op = token.GEQ
						case token.GEQ:
							op = token.LEQ
						}
					}
					if !isZero(z) {
						return false
					}
					switch op {
					case token.EQL, token.NEQ:
					case token.GTR, token.LEQ: // x > 0 / x <= 0: exact only for values that cannot be negative
						nonNeg := false
						if c, _ := callOf(v); c != nil {
							if bi, isBi := c.Call.Value.(*ssa.Builtin); isBi && bi.Name() == "len" {
								nonNeg = true
							}
						}
						if bt, isBT := v.Type().Underlying().(*types.Basic); isBT && bt.Info()&types.IsUnsigned != 0 {
							nonNeg = true
						}
						if !nonNeg {
							return false
						}
					default:
						return false
					}
				}
				return true
			}, q.name)
			if len(gs) == 0 {
				continue
			}
			if ok, _ := guardedNext(d, gs); ok {
				found = true
				where = d.Name() + " at " + e.Pos(gs[0].If.Pos())
				break
			}
		}
		r.Check(found, "eth-shape › "+q.name, "", "guard dominates next() on the Ethereum lane in "+where,
			"no dual-lane decorator before fee deduction rejects an Ethereum-lane transaction violating: "+q.name+" (every path to next() must pass an error-returning guard on this field)")
	}
	// extension options: an IsEthereumTx guard
	found := false
	where := ""
	for _, d := range early {
		fn := d.Fn
		gs := boolCallGuards(fn, true, func(c *ssa.Call) bool { return isCallTo(c, specIsEthereumTx) })
		var egs []Guard
		for _, g := range gs {
			if eg, ok := errorExitGuard(fn, g.If, func(c ssa.CallInstruction) bool { return isNextCall(fn, c) }); ok && eg.Survive == g.Survive {
				egs = append(egs, eg)
			}
		}
		if ok, _ := guardedNext(d, egs); ok {
			found = true
			where = d.Name()
			break
		}
	}
	r.Check(found, "eth-shape › extension options (IsEthereumTx)", "", "IsEthereumTx guard dominates next() on the Ethereum lane in "+where,
		"no dual-lane decorator before fee deduction rejects an Ethereum-lane transaction with foreign extension options (IsEthereumTx guard missing)")
}

func checkAuthzScreen(e *Engine, r *Report) {
	const recvT = "CLRejectAuthzMsgsDecorator"
	const authzPkg = SDK + "/x/authz"
	fn := e.Fn(pkgCosmoLane, recvT+".checkDisabledMsgs")
	ante := e.Fn(pkgCosmoLane, recvT+".AnteHandle")
	pos := e.Pos(fn.Pos())
	lvl := fn.Params[len(fn.Params)-1]

	isDisabledCall := func(c ssa.CallInstruction) bool {
		return isCallTo(c, CallSpec{pkgCosmoLane, recvT, "isDisabledMsg"})
	}
	// type-switch arms
	typeArm := func(tname string) *ssa.If {
		want := types.NewPointer(e.Named(authzPkg, tname))
		for _, i := range ifs(fn) {
			ex, ok := i.Cond.(*ssa.Extract)
			if !ok || ex.Index != 1 {
				continue
			}
			ta, ok := ex.Tuple.(*ssa.TypeAssert)
			if ok && types.Identical(ta.AssertedType, want) {
				return i
			}
		}
		return nil
	}
	regionCalls := func(from *ssa.BasicBlock, stopAt map[*ssa.BasicBlock]bool) []ssa.CallInstruction {
		var out []ssa.CallInstruction
		seen := map[*ssa.BasicBlock]bool{}
		var walk func(b *ssa.BasicBlock)
		walk = func(b *ssa.BasicBlock) {
			if seen[b] || stopAt[b] {
				return
			}
			seen[b] = true
			for _, in := range b.Instrs {
				if c, ok := in.(ssa.CallInstruction); ok {
					out = append(out, c)
				}
			}
			for _, s := range b.Succs {
				walk(s)
			}
		}
		walk(from)
		return out
	}
	// loop header = block with the Next/range or index compare; we stop arm regions at blocks that dominate the arm's If (loop back edge)
	armRegion := func(i *ssa.If) []ssa.CallInstruction {
		stop := map[*ssa.BasicBlock]bool{}
		for _, b := range fn.Blocks {
			if b.Dominates(i.Block()) {
				stop[b] = true
			}
		}
		return regionCalls(i.Block().Succs[0], stop)
	}

	// (1) MsgExec arm recurses with level+1 and propagates the error
	if arm := typeArm("MsgExec"); arm == nil {
		r.Bad("checkDisabledMsgs › MsgExec arm", pos, "no type-switch arm for *authz.MsgExec: nested messages are not screened")
	} else {
		var rec *ssa.Call
		for _, c := range armRegion(arm) {
			if cc, ok := c.(*ssa.Call); ok && cc.Call.StaticCallee() == fn {
				rec = cc
			}
		}
		if rec == nil {
			r.Bad("checkDisabledMsgs › MsgExec arm", e.Pos(arm.Pos()), "MsgExec arm does not recurse into checkDisabledMsgs")
		} else {
			la := rec.Call.Args[len(rec.Call.Args)-1]
			b, ok := la.(*ssa.BinOp)
			inc := false
			if ok && b.Op == token.ADD {
				if c, ok2 := constInt(b.Y); ok2 && c >= 1 && b.X == ssa.Value(lvl) {
					inc = true
				}
				if c, ok2 := constInt(b.X); ok2 && c >= 1 && b.Y == ssa.Value(lvl) {
					inc = true
				}
			}
			r.Check(inc, "checkDisabledMsgs › MsgExec recursion level", e.Pos(rec.Pos()), "recursive call passes nestedLvl+1", "recursive call does not pass nestedLvl + const≥1: the depth limit and the nested-message test are defeated")
			// inner messages come from msg.GetMessages()
			sl := backSlice(rec.Call.Args[1], SliceOpts{})
			r.Check(sl.HasCall(CallSpec{authzPkg, "MsgExec", "GetMessages"}), "checkDisabledMsgs › MsgExec inner messages", e.Pos(rec.Pos()), "recursion receives MsgExec.GetMessages()", "recursion does not receive the messages of MsgExec.GetMessages()")
			// error propagated
			gs := errNilGuards(fn, func(c *ssa.Call) bool { return c == rec })
			okp := false
			for _, g := range gs {
				fb := g.failBlock()
				if len(fb.Instrs) > 0 {
					if ret, ok := fb.Instrs[len(fb.Instrs)-1].(*ssa.Return); ok && !isSuccessReturn(fn, ret) {
						okp = true
					}
				}
			}
			r.Check(okp, "checkDisabledMsgs › MsgExec error propagated", e.Pos(rec.Pos()), "non-nil result of the recursion is returned", "the error of the recursive screening is not returned")
		}
	}
	// (2) depth limit
	{
		ok := false
		var at token.Pos
		for _, i := range ifs(fn) {
			b, isB := i.Cond.(*ssa.BinOp)
			if !isB || !(b.Op == token.GTR || b.Op == token.GEQ || b.Op == token.LSS || b.Op == token.LEQ) {
				continue
			}
			if b.X != ssa.Value(lvl) && b.Y != ssa.Value(lvl) {
				continue
			}
			g, isG := errorExitGuard(fn, i, func(c ssa.CallInstruction) bool {
				cc, ok := c.(*ssa.Call)
				return ok && (cc.Call.StaticCallee() == fn || isDisabledCall(c))
			})
			if !isG {
				continue
			}
			// constant bound, and it dominates the loop: with the surviving edge removed no recursion / test is reachable
			var cst ssa.Value = b.Y
			if b.Y == ssa.Value(lvl) {
				cst = b.X
			}
			if _, isC := constInt(cst); !isC {
				continue
			}
			reach := reachable(fn, fn.Blocks[0], surviveEdges([]Guard{g}))
			dom := true
			for _, c := range callsIn(fn, false, func(c ssa.CallInstruction) bool {
				cc, ok := c.(*ssa.Call)
				return ok && cc.Call.StaticCallee() == fn
			}) {
				if reach[c.Block()] {
					dom = false
				}
			}
			if dom {
				ok = true
				at = i.Pos()
			}
		}
		r.Check(ok, "checkDisabledMsgs › depth limit", e.Pos(at), "nestedLvl compared with a constant bound; exceeding it returns a non-nil error before any recursion", "no error-returning depth guard on nestedLvl dominates the recursion: unbounded nesting (stack exhaustion) or silently accepted deep nesting")
	}
	// (3) MsgGrant arm
	if arm := typeArm("MsgGrant"); arm == nil {
		r.Bad("checkDisabledMsgs › MsgGrant arm", pos, "no type-switch arm for *authz.MsgGrant: grants for disabled messages are not refused")
	} else {
		var test *ssa.Call
		tfn := fn // the function holding the test: checkDisabledMsgs, or a single-site private helper called in the arm whose error is propagated
		reg := e.privateRegion(fn)
		for _, c := range armRegion(arm) {
			if isDisabledCall(c) {
				test, _ = c.(*ssa.Call)
			}
		}
		if test == nil {
			for _, c := range armRegion(arm) {
				h := c.Common().StaticCallee()
				if h == nil || h == fn || !reg.in[h] || !errorPropagated(fn, c, nil) {
					continue
				}
				for _, hc := range callsIn(h, false, isDisabledCall) {
					test, _ = hc.(*ssa.Call)
					tfn = h
				}
			}
		}
		if test == nil {
			r.Bad("checkDisabledMsgs › MsgGrant arm", e.Pos(arm.Pos()), "MsgGrant arm does not test the authorization's message type URL against the disabled list")
		} else {
			sl := reg.BackSlice(test.Call.Args[len(test.Call.Args)-1], SliceOpts{ThroughCallArgs: alwaysThrough})
			okURL := sl.Has(func(v ssa.Value) bool {
				c, ok := v.(*ssa.Call)
				return ok && isMethodNamed(c, "MsgTypeURL")
			}) && sl.HasCall(CallSpec{authzPkg, "MsgGrant", "GetAuthorization"})
			r.Check(okURL, "checkDisabledMsgs › MsgGrant url", e.Pos(test.Pos()), "tests GetAuthorization().MsgTypeURL()", "the tested URL does not derive from msg.GetAuthorization().MsgTypeURL()")
			gs := boolCallGuards(tfn, false, func(c *ssa.Call) bool { return c == test })
			okE := false
			for _, g := range gs {
				if eg, ok := errorExitGuard(tfn, g.If, func(ssa.CallInstruction) bool { return false }); ok && eg.Survive == g.Survive {
					okE = true
				}
			}
			r.Check(okE, "checkDisabledMsgs › MsgGrant rejects", e.Pos(test.Pos()), "disabled URL returns a non-nil error", "a disabled authorization URL does not lead to a non-nil error return")
		}
	}
	// (4) default arm: nested message URL test (in checkDisabledMsgs or in a single-site private helper whose error is propagated)
	{
		var test *ssa.Call
		tfn := fn
		reg4 := e.privateRegion(fn)
		for _, f := range reg4.Fns {
			if f != fn && !reg4.ErrorPropagated(reg4.site[f]) {
				continue
			}
			for _, c := range callsIn(f, false, isDisabledCall) {
				cc := c.(*ssa.Call)
				sl := backSlice(cc.Call.Args[len(cc.Call.Args)-1], SliceOpts{})
				if sl.HasCall(CallSpec{pkgSdkTypes, "", "MsgTypeURL"}) {
					test, tfn = cc, f
				}
			}
		}
		if test == nil {
			r.Bad("checkDisabledMsgs › nested url test", pos, "no test of sdk.MsgTypeURL(msg) against the disabled list for nested messages")
		} else {
			gs := boolCallGuards(tfn, false, func(c *ssa.Call) bool { return c == test })
			okE := false
			for _, g := range gs {
				if eg, ok := errorExitGuard(tfn, g.If, func(ssa.CallInstruction) bool { return false }); ok && eg.Survive == g.Survive {
					okE = true
				}
			}
			r.Check(okE, "checkDisabledMsgs › nested rejects", e.Pos(test.Pos()), "disabled nested URL returns a non-nil error", "a disabled nested message URL does not lead to a non-nil error return")
			// the only condition under which the test is skipped is nestedLvl <= 1 (top level)
			isLvl := func(v ssa.Value) bool { return reg4.Resolve(v) == ssa.Value(lvl) }
			okLvl := true
			for _, i := range ifs(tfn) {
				if !i.Block().Dominates(test.Block()) || i.Block() == test.Block() {
					continue
				}
				b, isB := i.Cond.(*ssa.BinOp)
				if !isB || !(isLvl(b.X) || isLvl(b.Y)) {
					continue
				}
				var cst ssa.Value = b.Y
				op := b.Op
				if isLvl(b.Y) {
					cst = b.X
					switch op { // c OP lvl ⇒ lvl OP' c
					case token.LSS:
						op = token.GTR
					case token.LEQ:
						op = token.GEQ
					case token.GTR:
						op = token.LSS
					case token.GEQ:
						op = token.LEQ
					}
				}
				c, isC := constInt(cst)
				if !isC {
					okLvl = false
					continue
				}
				// the test must run for every nested level (>= 2): which values of lvl reach it?
				bad := false
				testOnTrue := blockDominatedByEdge(tfn, test.Block(), Guard{If: i, Survive: 0})
				switch op {
				case token.GTR: // lvl > c
					bad = testOnTrue && c > 1 || !testOnTrue
				case token.GEQ: // lvl >= c
					bad = testOnTrue && c > 2 || !testOnTrue
				case token.LEQ: // lvl <= c: the test must be on the false side, and c <= 1
					bad = testOnTrue || c > 1
				case token.LSS: // lvl < c
					bad = testOnTrue || c > 2
				default:
					continue
				}
				if bad {
					// only the depth-limit guard may compare with a larger constant; it is not a skip of the test
					if _, isG := errorExitGuard(tfn, i, func(c ssa.CallInstruction) bool { return c == ssa.CallInstruction(test) }); !isG {
						okLvl = false
					}
				}
			}
			r.Check(okLvl, "checkDisabledMsgs › nested level threshold", e.Pos(test.Pos()), "URL test applies to every nested level ≥ 2", "the nested-message URL test is skipped for some nested level ≥ 2")
		}
	}
	// (4b) every message is inspected: a nil (success) return is possible only after the loop over msgs is exhausted
	{
		loops := loopsOf(fn)
		if len(loops) == 0 {
			r.Bad("checkDisabledMsgs › loop over messages", pos, "no loop over the message list")
		}
		for _, l := range loops {
			ok := true
			var at token.Pos
			for _, ret := range returnsFromInsideLoop(fn, l) {
				if isSuccessReturn(fn, ret) {
					ok = false
					at = ret.Pos()
				}
			}
			r.Check(ok, "checkDisabledMsgs › every message inspected", e.Pos(l.Header.Instrs[0].Pos()), "inside the loop only error returns; nil is returned after the loop is exhausted",
				"a return that may carry a nil error leaves the loop in the middle of the message list (at "+e.Pos(at)+"): messages listed after it are never screened")
		}
	}
	// (5) AnteHandle: next on the Cosmos lane only after checkDisabledMsgs(tx.GetMsgs(), 1) == nil
	{
		calls := callsIn(ante, false, func(c ssa.CallInstruction) bool {
			cc, ok := c.(*ssa.Call)
			return ok && cc.Call.StaticCallee() == fn
		})
		if len(calls) == 0 {
			r.Bad("AnteHandle › screen call", e.Pos(ante.Pos()), "AnteHandle does not call checkDisabledMsgs")
		}
		for _, c := range calls {
			cc := c.(*ssa.Call)
			gs := errNilGuards(ante, func(x *ssa.Call) bool { return x == cc })
			eth, _ := laneGuards(ante)
			del := surviveEdges(gs)
			for k := range surviveEdges(eth) {
				del[k] = true
			}
			reach := reachable(ante, ante.Blocks[0], del)
			ok := len(gs) > 0
			for _, n := range callsIn(ante, false, func(c ssa.CallInstruction) bool { return isNextCall(ante, c) }) {
				if reach[n.Block()] {
					ok = false
				}
			}
			r.Check(ok, "AnteHandle › next after screen", e.Pos(cc.Pos()), "Cosmos-lane next() only on the nil-error edge of checkDisabledMsgs", "Cosmos-lane next() is reachable without a nil result of checkDisabledMsgs")
			lv, isC := constInt(cc.Call.Args[len(cc.Call.Args)-1])
			r.Check(isC && lv == 1, "AnteHandle › initial level", e.Pos(cc.Pos()), "initial level 1", "initial nesting level is not the constant 1 (top-level messages would be treated as nested or the depth budget changes)")
			sl := backSlice(cc.Call.Args[1], SliceOpts{})
			r.Check(sl.Has(func(v ssa.Value) bool {
				c, ok := v.(*ssa.Call)
				return ok && isMethodNamed(c, "GetMsgs") && strip(c.Call.Value) == ssa.Value(anteParam(ante, 1))
			}), "AnteHandle › screens tx.GetMsgs()", e.Pos(cc.Pos()), "screens tx.GetMsgs()", "the screened messages are not tx.GetMsgs() of the transaction being handled")
		}
	}
	// (6) isDisabledMsg is a pure membership test on the decorator's set filled by the constructor from its argument
	{
		f := e.Fn(pkgCosmoLane, recvT+".isDisabledMsg")
		ok := false
		for _, ret := range returnsOf(f) {
			sl := backSlice(ret.Results[0], SliceOpts{})
			if sl.Has(func(v ssa.Value) bool {
				l, ok := v.(*ssa.Lookup)
				return ok && l.CommaOk && sliceHasField(backSlice(l.X, SliceOpts{}), "disabledNestedMsgs") && l.Index == ssa.Value(f.Params[len(f.Params)-1])
			}) {
				ok = true
			}
		}
		r.Check(ok, "isDisabledMsg › membership", e.Pos(f.Pos()), "returns presence of the URL in disabledNestedMsgs", "isDisabledMsg does not return the presence of its argument in the disabled set")
		ctor := e.Fn(pkgCosmoLane, "NewCosmosLaneRejectAuthzMsgsDecorator")
		okc := false
		allInstrs(ctor, false, func(_ *ssa.Function, _ *ssa.BasicBlock, i ssa.Instruction) {
			if mu, ok := i.(*ssa.MapUpdate); ok {
				ks := backSlice(mu.Key, SliceOpts{})
				if ks.HasValue(ctor.Params[0]) {
					okc = true
				}
			}
		})
		r.Check(okc, "constructor › fills set from argument", e.Pos(ctor.Pos()), "every element of the argument list is inserted", "constructor does not insert the elements of its argument into the disabled set")
	}
	// (7) TABLE-AGREE default list
	checkDisabledList(e, r)
}

func sliceHasField(s *Slice, name string) bool {
	return s.Has(func(v ssa.Value) bool {
		fv := fieldVar(v)
		return fv != nil && fv.Name() == name
	})
}

// checkDisabledList: WithDefaultDisabledNestedMsgs ⊇ {MsgEthereumTx} ∪ request types of vesting MsgServer; Validate refuses empty; app uses the default.
func checkDisabledList(e *Engine, r *Report) {
	fd, p := e.Decl(pkgAnte, "HandlerOptions.WithDefaultDisabledNestedMsgs")
	listed := map[string]bool{}
	ast.Inspect(fd, func(n ast.Node) bool {
		call, ok := n.(*ast.CallExpr)
		if !ok || len(call.Args) != 1 {
			return true
		}
		var id *ast.Ident
		switch f := ast.Unparen(call.Fun).(type) {
		case *ast.SelectorExpr:
			id = f.Sel
		case *ast.Ident:
			id = f
		}
		if id == nil {
			return true
		}
		fo := p.TypesInfo.Uses[id]
		if fo == nil || fo.Name() != "MsgTypeURL" || fo.Pkg() == nil || (fo.Pkg().Path() != pkgSdkTypes && fo.Pkg().Path() != SDK+"/codec/types") {
			return true
		}
		t := p.TypesInfo.TypeOf(call.Args[0])
		listed[namedTypePath(t)] = true
		return true
	})
	// the literal must be what is assigned to DisabledNestedMsgs and returned: check via SSA
	fn := e.Fn(pkgAnte, "HandlerOptions.WithDefaultDisabledNestedMsgs")
	assigned := false
	allInstrs(fn, false, func(_ *ssa.Function, _ *ssa.BasicBlock, i ssa.Instruction) {
		if st, ok := i.(*ssa.Store); ok {
			if fv := fieldVar(st.Addr); fv != nil && fv.Name() == "DisabledNestedMsgs" {
				assigned = true
			}
		}
	})
	r.Check(assigned, "default list › assigned", e.Pos(fn.Pos()), "list stored into DisabledNestedMsgs", "WithDefaultDisabledNestedMsgs does not store into DisabledNestedMsgs")

	want := []string{EV + "/x/evm/types.MsgEthereumTx"}
	ms := e.Iface(SDK+"/x/auth/vesting/types", "MsgServer")
	for i := 0; i < ms.NumMethods(); i++ {
		sig := ms.Method(i).Type().(*types.Signature)
		if sig.Params().Len() == 2 {
			want = append(want, namedTypePath(sig.Params().At(1).Type()))
		}
	}
	sort.Strings(want)
	for _, w := range want {
		r.Check(listed[w], "default list ∋ "+w[strings.LastIndex(w, "/")+1:], e.Pos(fd.Pos()), "listed", "message type is executable/grantable through authz: it is missing from the default disabled nested messages")
	}
	// Validate refuses an empty list
	val := e.Fn(pkgAnte, "HandlerOptions.Validate")
	okV := false
	for _, i := range ifs(val) {
		sl := backSlice(i.Cond, SliceOpts{ThroughCallArgs: alwaysThrough})
		if !sliceHasField(sl, "DisabledNestedMsgs") {
			continue
		}
		if g, ok := errorExitGuard(val, i, func(ssa.CallInstruction) bool { return false }); ok {
			_ = g
			okV = true
		}
	}
	r.Check(okV, "Validate › refuses empty list", e.Pos(val.Pos()), "empty DisabledNestedMsgs is an error", "HandlerOptions.Validate accepts an empty DisabledNestedMsgs")
	// wiring in app: the options passed to NewAnteHandler derive from WithDefaultDisabledNestedMsgs(), and NewAnteHandler passes options.DisabledNestedMsgs to the decorator
	wired := false
	var wpos token.Pos
	for _, f := range e.SrcFuncs(func(p string) bool { return p == EV+"/app" }) {
		for _, c := range callsTo(f, true, CallSpec{pkgAnte, "", "NewAnteHandler"}) {
			wpos = c.Pos()
			sl := backSlice(c.Common().Args[0], SliceOpts{})
			if sl.HasCall(CallSpec{pkgAnte, "HandlerOptions", "WithDefaultDisabledNestedMsgs"}) {
				wired = true
			}
		}
	}
	r.Check(wired, "app › default list wired", e.Pos(wpos), "app passes WithDefaultDisabledNestedMsgs() options to NewAnteHandler", "the options given to NewAnteHandler in app do not derive from WithDefaultDisabledNestedMsgs()")
	nah := e.Fn(pkgAnte, "NewAnteHandler")
	okArg := false
	for _, c := range callsTo(nah, true, CallSpec{pkgCosmoLane, "", "NewCosmosLaneRejectAuthzMsgsDecorator"}) {
		sl := backSlice(c.Common().Args[0], SliceOpts{})
		if sliceHasField(sl, "DisabledNestedMsgs") {
			okArg = true
		}
	}
	r.Check(okArg, "NewAnteHandler › passes options.DisabledNestedMsgs", e.Pos(nah.Pos()), "decorator built from options.DisabledNestedMsgs", "the authz screen is not built from options.DisabledNestedMsgs")
}

func listRouterReceivers(e *Engine, r *Report) {
	for _, f := range e.SrcFuncs(func(p string) bool { return p == EV+"/app" }) {
		for _, c := range callsIn(f, true, func(c ssa.CallInstruction) bool { return isMethodNamed(c, "MsgServiceRouter") }) {
			refs := c.Value().Referrers()
			if refs == nil {
				continue
			}
			for _, ref := range *refs {
				if rc, ok := ref.(ssa.CallInstruction); ok {
					r.Adv("router receiver › "+calleeName(rc), e.Pos(rc.Pos()), "receives the message service router (can dispatch nested messages)")
				}
				if mi, ok := ref.(*ssa.MakeInterface); ok {
					if rr := mi.Referrers(); rr != nil {
						for _, x := range *rr {
							if rc, ok := x.(ssa.CallInstruction); ok {
								r.Adv("router receiver › "+calleeName(rc), e.Pos(rc.Pos()), "receives the message service router (can dispatch nested messages)")
							}
						}
					}
				}
			}
		}
	}
}

// trueOrigins lists the blocks in which a boolean function's result may become true: blocks of returns with a
// non-false constant/computed result, and for phi results the predecessor of every edge that is not the constant false.
func trueOrigins(fn *ssa.Function) []*ssa.BasicBlock {
	var out []*ssa.BasicBlock
	var visit func(v ssa.Value, at *ssa.BasicBlock, depth int)
	visit = func(v ssa.Value, at *ssa.BasicBlock, depth int) {
		if b, ok := constBool(v); ok {
			if b {
				out = append(out, at)
			}
			return
		}
		if phi, ok := v.(*ssa.Phi); ok && depth < 6 {
			for k, ev := range phi.Edges {
				visit(ev, phi.Block().Preds[k], depth+1)
			}
			return
		}
		out = append(out, at)
	}
	for _, ret := range returnsOf(fn) {
		visit(ret.Results[0], ret.Block(), 0)
	}
	return out
}

func blockGuarded(fn *ssa.Function, b *ssa.BasicBlock, gs []Guard) bool {
	if len(gs) == 0 {
		return false
	}
	return !reachable(fn, fn.Blocks[0], surviveEdges(gs))[b]
}

func checkLanePredicates(e *Engine, r *Report) {
	hs := e.Fn(pkgAnteUtils, "HasSingleEthereumMessage")
	// (a) failed assertion returns false
	okAssert, okSecond := false, false
	for _, i := range ifs(hs) {
		if ex, ok := i.Cond.(*ssa.Extract); ok && ex.Index == 1 {
			if ta, isTA := ex.Tuple.(*ssa.TypeAssert); isTA && namedTypePath(ta.AssertedType) == pkgEvmTypes+".MsgEthereumTx" {
				fail := i.Block().Succs[1]
				if len(fail.Instrs) > 0 {
					if ret, isRet := fail.Instrs[len(fail.Instrs)-1].(*ssa.Return); isRet {
						if b, isK := constBool(ret.Results[0]); isK && !b {
							okAssert = true
						}
					}
				}
			}
		}
		// "already found one": a boolean flag carried round the loop, or the loop's induction variable being past its first value
		isSecond := false
		if _, isPhi := i.Cond.(*ssa.Phi); isPhi {
			isSecond = true
		}
		if bo, isB := i.Cond.(*ssa.BinOp); isB {
			if phi, isPhi := bo.X.(*ssa.Phi); isPhi && isInductionFromZero(phi) {
				k, isK := constInt(bo.Y)
				isSecond = isK && ((k == 0 && (bo.Op == token.GTR || bo.Op == token.NEQ)) || (k == 1 && bo.Op == token.GEQ))
			}
		}
		if isSecond {
			t := i.Block().Succs[0]
			if len(t.Instrs) > 0 {
				if ret, isRet := t.Instrs[len(t.Instrs)-1].(*ssa.Return); isRet {
					if b, isK := constBool(ret.Results[0]); isK && !b {
						okSecond = true
					}
				}
			}
		}
	}
	// alternative form without a loop: `if len(msgs) != 1 { return false }; _, ok := msgs[0].(*MsgEthereumTx); return ok`
	direct := func() bool {
		var gLen []Guard
		for _, i := range ifs(hs) {
			b, ok := i.Cond.(*ssa.BinOp)
			if !ok || (b.Op != token.EQL && b.Op != token.NEQ) {
				continue
			}
			k, isK := constInt(b.Y)
			lc, _ := callOf(b.X)
			if !isK || k != 1 || lc == nil {
				continue
			}
			if bi, isBi := lc.Call.Value.(*ssa.Builtin); !isBi || bi.Name() != "len" || !sliceFrom(lc.Call.Args[0]).Has(func(v ssa.Value) bool { c, ok := v.(*ssa.Call); return ok && isMethodNamed(c, "GetMsgs") }) {
				continue
			}
			sv := 0
			if b.Op == token.NEQ {
				sv = 1
			}
			gLen = append(gLen, Guard{If: i, Survive: sv})
		}
		if len(gLen) == 0 || len(loopsOf(hs)) != 0 {
			return false
		}
		n := 0
		for _, ret := range returnsOf(hs) {
			if b, isK := constBool(ret.Results[0]); isK && !b {
				continue
			}
			ex, ok := ret.Results[0].(*ssa.Extract)
			if !ok || ex.Index != 1 {
				return false
			}
			ta, ok := ex.Tuple.(*ssa.TypeAssert)
			if !ok || !ta.CommaOk || namedTypePath(ta.AssertedType) != pkgEvmTypes+".MsgEthereumTx" {
				return false
			}
			// the asserted value is element 0 of the message list
			elem := ta.X
			if u, isU := elem.(*ssa.UnOp); isU && u.Op == token.MUL {
				elem = u.X
			}
			ia, ok := elem.(*ssa.IndexAddr)
			if !ok {
				return false
			}
			if k, isK := constInt(ia.Index); !isK || k != 0 {
				return false
			}
			if !sliceFrom(ia.X).Has(func(v ssa.Value) bool { c, ok := v.(*ssa.Call); return ok && isMethodNamed(c, "GetMsgs") }) {
				return false
			}
			if !blockGuarded(hs, ret.Block(), gLen) {
				return false
			}
			n++
		}
		return n > 0
	}()
	if direct {
		r.OK("HasSingleEthereumMessage › non-Ethereum message ⇒ false", e.Pos(hs.Pos()), "result is the *MsgEthereumTx assertion of the only message")
		r.OK("HasSingleEthereumMessage › second message ⇒ false", e.Pos(hs.Pos()), "len(msgs) != 1 returns false")
		r.OK("HasSingleEthereumMessage › true only after all messages were inspected", e.Pos(hs.Pos()), "exactly one message, and it is inspected")
	}
	if !direct {
		r.Check(okAssert, "HasSingleEthereumMessage › non-Ethereum message ⇒ false", e.Pos(hs.Pos()), "failed *MsgEthereumTx assertion returns false", "a transaction mixing Ethereum and other messages can be classified as Ethereum lane")
		r.Check(okSecond, "HasSingleEthereumMessage › second message ⇒ false", e.Pos(hs.Pos()), "already-found flag returns false", "a transaction with several Ethereum messages can be classified as Ethereum lane")
		inLoop := false
		for _, l := range loopsOf(hs) {
			for _, ret := range returnsFromInsideLoop(hs, l) {
				if b, isK := constBool(ret.Results[0]); !(isK && !b) {
					inLoop = true // a return from the middle of an iteration that may be true
				}
			}
		}
		r.Check(!inLoop && len(loopsOf(hs)) == 1, "HasSingleEthereumMessage › true only after all messages were inspected", e.Pos(hs.Pos()), "no true result from inside the loop", "the predicate can answer true before all messages were inspected")
	}

	ie := e.Fn(pkgAnteUtils, "IsEthereumTx")
	gSingle := boolCallGuards(ie, true, func(c *ssa.Call) bool { return isCallTo(c, specHasSingleEth) })
	lenGuard := func(method string, want int64) []Guard {
		var gs []Guard
		for _, i := range ifs(ie) {
			b, ok := i.Cond.(*ssa.BinOp)
			if !ok || (b.Op != token.EQL && b.Op != token.NEQ) {
				continue
			}
			k, isK := constInt(b.Y)
			lc, _ := callOf(b.X)
			if !isK || k != want || lc == nil {
				continue
			}
			bi, isBi := lc.Call.Value.(*ssa.Builtin)
			if !isBi || bi.Name() != "len" {
				continue
			}
			if !sliceFrom(lc.Call.Args[0]).Has(func(v ssa.Value) bool { c, ok := v.(*ssa.Call); return ok && isMethodNamed(c, method) }) {
				continue
			}
			s := 0
			if b.Op == token.NEQ {
				s = 1
			}
			gs = append(gs, Guard{If: i, Survive: s})
		}
		return gs
	}
	gNoNC := lenGuard("GetNonCriticalExtensionOptions", 0)
	gNoOpt := lenGuard("GetExtensionOptions", 0)
	gOneOpt := lenGuard("GetExtensionOptions", 1)
	// the "tx exposes no extension options" escape
	var gNoIface []Guard
	for _, i := range ifs(ie) {
		if ex, ok := i.Cond.(*ssa.Extract); ok && ex.Index == 1 {
			if ta, isTA := ex.Tuple.(*ssa.TypeAssert); isTA && namedTypeName(ta.AssertedType) == "HasExtensionOptionsTx" {
				gNoIface = append(gNoIface, Guard{If: i, Survive: 1})
			}
		}
	}
	okS, okNC, okOpts := true, true, true
	origins := trueOrigins(ie)
	for _, b := range origins {
		if !blockGuarded(ie, b, gSingle) {
			okS = false
		}
		if blockGuarded(ie, b, gNoIface) {
			continue // not an extension-options transaction
		}
		if !blockGuarded(ie, b, gNoNC) {
			okNC = false
		}
		if !blockGuarded(ie, b, append(append([]Guard{}, gNoOpt...), gOneOpt...)) {
			okOpts = false
		}
	}
	r.Check(okS && len(origins) > 0, "IsEthereumTx › requires a single Ethereum message", e.Pos(ie.Pos()), "true only under HasSingleEthereumMessage", "IsEthereumTx can be true for a transaction that is not a single-Ethereum-message transaction")
	r.Check(okNC, "IsEthereumTx › no non-critical extension options", e.Pos(ie.Pos()), "true only if len(GetNonCriticalExtensionOptions()) == 0", "an Ethereum transaction carrying a foreign non-critical extension option is accepted on some path")
	// the one-option case must compare the type URL with the Ethereum extension constant
	okURL := false
	for _, b := range origins {
		_ = b
	}
	allInstrs(ie, false, func(_ *ssa.Function, _ *ssa.BasicBlock, i ssa.Instruction) {
		if bo, ok := i.(*ssa.BinOp); ok && bo.Op == token.EQL {
			c, _ := callOf(bo.X)
			if s, isK := constString(bo.Y); isK && c != nil && isMethodNamed(c, "GetTypeUrl") && s == constStringVal2(e, EV+"/constants", "EthermintExtensionOptionsEthereumTx") {
				okURL = true
			}
		}
	})
	r.Check(okOpts && okURL, "IsEthereumTx › critical options: none or exactly the Ethereum extension", e.Pos(ie.Pos()), "len(opts) == 0, or == 1 with the Ethereum extension type URL", "an Ethereum transaction with other/multiple critical extension options is accepted")
}

// isInductionFromZero: phi(0, phi+1) — the counter of `for i := 0; …; i++`.
func isInductionFromZero(phi *ssa.Phi) bool {
	zero, step := false, false
	for _, ev := range phi.Edges {
		if k, isK := constInt(ev); isK && k == 0 {
			zero = true
			continue
		}
		if b, ok := ev.(*ssa.BinOp); ok && b.Op == token.ADD && b.X == ssa.Value(phi) {
			if k, isK := constInt(b.Y); isK && k == 1 {
				step = true
				continue
			}
		}
		return false
	}
	return zero && step && len(phi.Edges) == 2
}

package main

import (
	"fmt"
	"go/constant"
	"go/token"
	"go/types"
	"sort"
	"strings"

	"golang.org/x/tools/go/ssa"
)

// ---------------------------------------------------------------- naming

// fnKey is a stable, type-resolved name of an SSA function: pkgpath.Recv.Name (anonymous: parent$N).
func fnKey(f *ssa.Function) string {
	if f == nil {
		return "<nil>"
	}
	if f.Parent() != nil {
		return fnKey(f.Parent()) + "$" + strings.TrimPrefix(f.Name(), f.Parent().Name()+"$")
	}
	if o := f.Origin(); o != nil && o != f {
		f = o
	}
	if fo, ok := f.Object().(*types.Func); ok && fo != nil {
		return funcObjKey(fo)
	}
	return f.String()
}

func funcObjKey(fo *types.Func) string {
	p := ""
	if fo.Pkg() != nil {
		p = shortPkg(fo.Pkg().Path())
	}
	if n := recvNamed(fo); n != nil {
		return p + "." + n.Obj().Name() + "." + fo.Name()
	}
	return p + "." + fo.Name()
}

func shortPkg(p string) string {
	p = strings.TrimPrefix(p, EV+"/")
	return p
}

// ---------------------------------------------------------------- call matching

// CallSpec identifies a callee by package path, receiver type name ("" = package function, "*" = any) and name.
type CallSpec struct {
	Pkg  string
	Recv string
	Name string
}

func (c CallSpec) String() string {
	if c.Recv != "" {
		return shortPkg(c.Pkg) + "." + c.Recv + "." + c.Name
	}
	return shortPkg(c.Pkg) + "." + c.Name
}

// calleeObj returns the *types.Func a call refers to: the static callee, or the interface method for invoke-mode calls.
func calleeObj(c ssa.CallInstruction) *types.Func {
	cc := c.Common()
	if cc.IsInvoke() {
		return cc.Method
	}
	if f := cc.StaticCallee(); f != nil {
		if o := f.Origin(); o != nil {
			f = o
		}
		if fo, ok := f.Object().(*types.Func); ok {
			return fo
		}
		// bound method closure / thunk wrappers
		if f.Synthetic != "" {
			if fo, ok := f.Object().(*types.Func); ok {
				return fo
			}
		}
	}
	return nil
}

func matchFuncObj(fo *types.Func, s CallSpec) bool {
	if fo == nil || fo.Name() != s.Name {
		return false
	}
	if fo.Pkg() == nil || fo.Pkg().Path() != s.Pkg {
		return false
	}
	rn := recvNamed(fo)
	sig := fo.Type().(*types.Signature)
	if s.Recv == "*" {
		return true
	}
	if s.Recv == "" {
		return sig.Recv() == nil
	}
	if rn != nil {
		return rn.Obj().Name() == s.Recv
	}
	// interface method declared in a named interface: receiver type is the interface itself
	if sig.Recv() != nil {
		if n, ok := types.Unalias(sig.Recv().Type()).(*types.Named); ok {
			return n.Obj().Name() == s.Recv
		}
	}
	return false
}

// isCallTo reports whether call refers to one of the specs (static callee or invoked interface method).
func isCallTo(c ssa.CallInstruction, specs ...CallSpec) bool {
	fo := calleeObj(c)
	if fo == nil {
		// call through a package-level function variable (e.g. sdk.MsgTypeURL = codectypes.MsgTypeURL)
		if g := calledGlobal(c); g != nil && g.Pkg != nil {
			for _, s := range specs {
				if s.Recv == "" && g.Name() == s.Name && g.Pkg.Pkg.Path() == s.Pkg {
					return true
				}
			}
		}
		return false
	}
	for _, s := range specs {
		if matchFuncObj(fo, s) {
			return true
		}
	}
	return false
}

// isMethodNamed matches a call by method name and (optionally) the name of the receiver's named type,
// whatever package declares the interface; used where the receiver is a repo-defined "expected keeper" interface.
func isMethodNamed(c ssa.CallInstruction, name string) bool {
	fo := calleeObj(c)
	if fo == nil || fo.Name() != name {
		return false
	}
	return fo.Type().(*types.Signature).Recv() != nil
}

// calledGlobal returns the package-level variable whose (function) value is called, if any.
func calledGlobal(c ssa.CallInstruction) *ssa.Global {
	cc := c.Common()
	if cc.IsInvoke() {
		return nil
	}
	if u, ok := cc.Value.(*ssa.UnOp); ok && u.Op == token.MUL {
		if g, ok := u.X.(*ssa.Global); ok {
			return g
		}
	}
	return nil
}

func calleeName(c ssa.CallInstruction) string {
	if fo := calleeObj(c); fo != nil {
		return funcObjKey(fo)
	}
	if g := calledGlobal(c); g != nil && g.Pkg != nil {
		return shortPkg(g.Pkg.Pkg.Path()) + "." + g.Name()
	}
	cc := c.Common()
	if b, ok := cc.Value.(*ssa.Builtin); ok {
		return "builtin." + b.Name()
	}
	return "dynamic:" + cc.Value.Name()
}

// allInstrs visits every instruction of fn (and, if anon, of its nested function literals).
func allInstrs(fn *ssa.Function, anon bool, visit func(f *ssa.Function, b *ssa.BasicBlock, i ssa.Instruction)) {
	for _, b := range fn.Blocks {
		for _, i := range b.Instrs {
			visit(fn, b, i)
		}
	}
	if anon {
		for _, a := range fn.AnonFuncs {
			allInstrs(a, true, visit)
		}
	}
}

// callsIn lists the call instructions (call, go, defer) of fn matching pred, sorted by position.
func callsIn(fn *ssa.Function, anon bool, pred func(ssa.CallInstruction) bool) []ssa.CallInstruction {
	var out []ssa.CallInstruction
	allInstrs(fn, anon, func(_ *ssa.Function, _ *ssa.BasicBlock, i ssa.Instruction) {
		if c, ok := i.(ssa.CallInstruction); ok && pred(c) {
			out = append(out, c)
		}
	})
	return out
}

func callsTo(fn *ssa.Function, anon bool, specs ...CallSpec) []ssa.CallInstruction {
	return callsIn(fn, anon, func(c ssa.CallInstruction) bool { return isCallTo(c, specs...) })
}

// ---------------------------------------------------------------- value stripping

// strip removes value-preserving wrappers (conversions, interface boxing, extract of single use …).
func strip(v ssa.Value) ssa.Value {
	for {
		switch x := v.(type) {
		case *ssa.ChangeType:
			v = x.X
		case *ssa.Convert:
			v = x.X
		case *ssa.ChangeInterface:
			v = x.X
		case *ssa.MakeInterface:
			v = x.X
		case *ssa.TypeAssert:
			v = x.X
		default:
			return v
		}
	}
}

func isNilConst(v ssa.Value) bool {
	c, ok := v.(*ssa.Const)
	return ok && c.Value == nil
}

func constInt(v ssa.Value) (int64, bool) {
	c, ok := strip(v).(*ssa.Const)
	if !ok || c.Value == nil || c.Value.Kind() != constant.Int {
		return 0, false
	}
	return c.Int64(), true
}

func constBool(v ssa.Value) (bool, bool) {
	c, ok := v.(*ssa.Const)
	if !ok || c.Value == nil || c.Value.Kind() != constant.Bool {
		return false, false
	}
	return constant.BoolVal(c.Value), true
}

func constString(v ssa.Value) (string, bool) {
	c, ok := strip(v).(*ssa.Const)
	if !ok || c.Value == nil || c.Value.Kind() != constant.String {
		return "", false
	}
	return constant.StringVal(c.Value), true
}

// callOf returns the call instruction that produced v (directly, or through Extract / wrappers).
func callOf(v ssa.Value) (*ssa.Call, int) {
	v = strip(v)
	switch x := v.(type) {
	case *ssa.Call:
		return x, -1
	case *ssa.Extract:
		if c, ok := x.Tuple.(*ssa.Call); ok {
			return c, x.Index
		}
	}
	return nil, -1
}

// ---------------------------------------------------------------- guards

// Guard is an If instruction with the index of the successor on which execution "survives" the guard.
type Guard struct {
	If      *ssa.If
	Survive int // 0 = true edge survives, 1 = false edge survives
	Desc    string
}

func (g Guard) failBlock() *ssa.BasicBlock { return g.If.Block().Succs[1-g.Survive] }
func (g Guard) okBlock() *ssa.BasicBlock   { return g.If.Block().Succs[g.Survive] }

// ifs lists all If instructions of fn.
func ifs(fn *ssa.Function) []*ssa.If {
	var out []*ssa.If
	for _, b := range fn.Blocks {
		if len(b.Instrs) == 0 {
			continue
		}
		if i, ok := b.Instrs[len(b.Instrs)-1].(*ssa.If); ok {
			out = append(out, i)
		}
	}
	return out
}

// errNilGuards: guards of the form `err != nil` / `err == nil` where err is a result of a call matching pred.
// Surviving edge: the one where err == nil.
func errNilGuards(fn *ssa.Function, pred func(*ssa.Call) bool) []Guard {
	var out []Guard
	for _, i := range ifs(fn) {
		b, ok := i.Cond.(*ssa.BinOp)
		if !ok || (b.Op != token.NEQ && b.Op != token.EQL) {
			continue
		}
		var other ssa.Value
		if isNilConst(b.Y) {
			other = b.X
		} else if isNilConst(b.X) {
			other = b.Y
		} else {
			continue
		}
		if !isErrorType(other.Type()) {
			continue
		}
		for _, c := range errSources(other, map[ssa.Value]bool{}) {
			if pred(c) {
				s := 1
				if b.Op == token.EQL {
					s = 0
				}
				out = append(out, Guard{If: i, Survive: s, Desc: "err==nil of " + calleeName(c)})
				break
			}
		}
	}
	return out
}

// errSources follows an error value back to the calls that may have produced it (through phis and alloc spills).
func errSources(v ssa.Value, seen map[ssa.Value]bool) []*ssa.Call {
	if seen[v] {
		return nil
	}
	seen[v] = true
	switch x := v.(type) {
	case *ssa.Call:
		return []*ssa.Call{x}
	case *ssa.Extract:
		if c, ok := x.Tuple.(*ssa.Call); ok {
			return []*ssa.Call{c}
		}
	case *ssa.Phi:
		var out []*ssa.Call
		for _, e := range x.Edges {
			out = append(out, errSources(e, seen)...)
		}
		return out
	case *ssa.UnOp:
		if x.Op == token.MUL {
			var out []*ssa.Call
			for _, s := range storesTo(x.X) {
				out = append(out, errSources(s.Val, seen)...)
			}
			return out
		}
	case *ssa.ChangeInterface:
		return errSources(x.X, seen)
	case *ssa.MakeInterface:
		return errSources(x.X, seen)
	}
	return nil
}

func isErrorType(t types.Type) bool {
	n, ok := types.Unalias(t).(*types.Named)
	return ok && n.Obj().Pkg() == nil && n.Obj().Name() == "error"
}

// storesTo lists Store instructions whose address is exactly addr (an Alloc, FieldAddr …) in addr's function.
func storesTo(addr ssa.Value) []*ssa.Store {
	var out []*ssa.Store
	refs := addr.Referrers()
	if refs == nil {
		return nil
	}
	for _, r := range *refs {
		if s, ok := r.(*ssa.Store); ok && s.Addr == addr {
			out = append(out, s)
		}
	}
	return out
}

// boolCallGuards: guards whose condition is (a possibly negated) boolean result of a call matching pred.
// surviveWhen is the boolean value on which the guarded code may proceed.
func boolCallGuards(fn *ssa.Function, surviveWhen bool, pred func(*ssa.Call) bool) []Guard {
	var out []Guard
	for _, i := range ifs(fn) {
		cond := i.Cond
		neg := false
		for {
			if u, ok := cond.(*ssa.UnOp); ok && u.Op == token.NOT {
				cond = u.X
				neg = !neg
				continue
			}
			break
		}
		// comparisons with constant booleans
		if b, ok := cond.(*ssa.BinOp); ok && (b.Op == token.EQL || b.Op == token.NEQ) {
			if cv, ok := constBool(b.Y); ok {
				cond = b.X
				if (b.Op == token.EQL) != cv {
					neg = !neg
				}
			}
		}
		c, _ := callOf(cond)
		if c == nil {
			// boolean spilled through a phi of the same call? not supported
			continue
		}
		if !pred(c) {
			continue
		}
		want := surviveWhen
		if neg {
			want = !want
		}
		s := 1
		if want {
			s = 0
		}
		out = append(out, Guard{If: i, Survive: s, Desc: fmt.Sprintf("%s()==%v", calleeName(c), surviveWhen)})
	}
	return out
}

// cmpGuards: guards `x OP y` where matchX/matchY accept the operands (either order for ==/!=).
// For EQL: survive on true when surviveOnEqual; NEQ accordingly.
func eqGuards(fn *ssa.Function, surviveOnEqual bool, matchA, matchB func(ssa.Value) bool) []Guard {
	var out []Guard
	for _, i := range ifs(fn) {
		b, ok := i.Cond.(*ssa.BinOp)
		if !ok || (b.Op != token.EQL && b.Op != token.NEQ) {
			continue
		}
		if !((matchA(b.X) && matchB(b.Y)) || (matchA(b.Y) && matchB(b.X))) {
			continue
		}
		eqEdge := 0
		if b.Op == token.NEQ {
			eqEdge = 1
		}
		s := eqEdge
		if !surviveOnEqual {
			s = 1 - eqEdge
		}
		out = append(out, Guard{If: i, Survive: s, Desc: "equality guard"})
	}
	return out
}

// ---------------------------------------------------------------- reachability inside a function

type edge struct{ from, to int }

// reachable computes the set of blocks reachable from `from` when the given edges are deleted.
func reachable(fn *ssa.Function, from *ssa.BasicBlock, deleted map[edge]bool) map[*ssa.BasicBlock]bool {
	seen := map[*ssa.BasicBlock]bool{from: true}
	work := []*ssa.BasicBlock{from}
	for len(work) > 0 {
		b := work[len(work)-1]
		work = work[:len(work)-1]
		for _, s := range b.Succs {
			if deleted[edge{b.Index, s.Index}] {
				continue
			}
			if !seen[s] {
				seen[s] = true
				work = append(work, s)
			}
		}
	}
	return seen
}

func surviveEdges(gs []Guard) map[edge]bool {
	m := map[edge]bool{}
	for _, g := range gs {
		b := g.If.Block()
		m[edge{b.Index, b.Succs[g.Survive].Index}] = true
	}
	return m
}

func failEdges(gs []Guard) map[edge]bool {
	m := map[edge]bool{}
	for _, g := range gs {
		b := g.If.Block()
		m[edge{b.Index, b.Succs[1-g.Survive].Index}] = true
	}
	return m
}

// mustPass: every path from entry to target's block passes one of the guards on its surviving edge
// (⇔ with all surviving edges deleted the target is unreachable). If a guard's two successors are identical the guard is void.
func mustPass(fn *ssa.Function, target ssa.Instruction, gs []Guard) bool {
	if len(gs) == 0 {
		return false
	}
	var eff []Guard
	for _, g := range gs {
		b := g.If.Block()
		if b.Succs[0] == b.Succs[1] {
			continue
		}
		eff = append(eff, g)
	}
	if len(eff) == 0 {
		return false
	}
	// A guard in the same block as the target that comes after it does not protect it; If is always last,
	// so a target in the guard's own block is never protected by that guard.
	r := reachable(fn, fn.Blocks[0], surviveEdges(eff))
	return !r[target.Block()]
}

// mustPassFrom is mustPass with an explicit start block.
func mustPassFrom(fn *ssa.Function, start *ssa.BasicBlock, target ssa.Instruction, gs []Guard) bool {
	if len(gs) == 0 {
		return false
	}
	r := reachable(fn, start, surviveEdges(gs))
	return !r[target.Block()]
}

// reachesFrom: can `to` be reached from instruction `from` (same function)? Same block counts if `to` is later.
func reachesFrom(fn *ssa.Function, from, to ssa.Instruction) bool {
	fb, tb := from.Block(), to.Block()
	if fb == tb {
		fi, ti := instrIndex(from), instrIndex(to)
		if ti > fi {
			return true
		}
	}
	seen := map[*ssa.BasicBlock]bool{}
	work := append([]*ssa.BasicBlock{}, fb.Succs...)
	for len(work) > 0 {
		b := work[len(work)-1]
		work = work[:len(work)-1]
		if seen[b] {
			continue
		}
		seen[b] = true
		if b == tb {
			return true
		}
		work = append(work, b.Succs...)
	}
	return false
}

func instrIndex(i ssa.Instruction) int {
	for k, x := range i.Block().Instrs {
		if x == i {
			return k
		}
	}
	return -1
}

// dominatesInstr: a executes before b on every path from entry to b.
func dominatesInstr(a, b ssa.Instruction) bool {
	if a.Block() == b.Block() {
		return instrIndex(a) < instrIndex(b)
	}
	return a.Block().Dominates(b.Block())
}

// normalReturns lists the Return instructions of fn.
func returnsOf(fn *ssa.Function) []*ssa.Return {
	var out []*ssa.Return
	for _, b := range fn.Blocks {
		if len(b.Instrs) == 0 {
			continue
		}
		if r, ok := b.Instrs[len(b.Instrs)-1].(*ssa.Return); ok {
			out = append(out, r)
		}
	}
	return out
}

// errResultIndex returns the index of the last result if it is of type error, else -1.
func errResultIndex(fn *ssa.Function) int {
	res := fn.Signature.Results()
	if res.Len() == 0 {
		return -1
	}
	if isErrorType(res.At(res.Len() - 1).Type()) {
		return res.Len() - 1
	}
	return -1
}

// isSuccessReturn: the error result of this return may be nil (constant nil, or not provably non-nil).
// provablyNonNil: fresh error constructors or values on the non-nil edge of an `err != nil` test.
func isSuccessReturn(fn *ssa.Function, r *ssa.Return) bool {
	k := errResultIndex(fn)
	if k < 0 || k >= len(r.Results) {
		return true
	}
	return !provablyNonNilErr(r.Results[k], r.Block(), map[ssa.Value]bool{})
}

func provablyNonNilErr(v ssa.Value, at *ssa.BasicBlock, seen map[ssa.Value]bool) bool {
	if seen[v] {
		return true
	}
	seen[v] = true
	if isNilConst(v) {
		return false
	}
	switch x := v.(type) {
	case *ssa.MakeInterface:
		return true // a concrete value boxed into error is non-nil interface
	case *ssa.Phi:
		for _, e := range x.Edges {
			if !provablyNonNilErr(e, at, seen) {
				return false
			}
		}
		return true
	case *ssa.ChangeInterface:
		return provablyNonNilErr(x.X, at, seen)
	}
	if c, _ := callOf(v); c != nil {
		if fo := calleeObj(c); fo != nil && fo.Pkg() != nil {
			switch fo.Pkg().Path() {
			case "fmt":
				if fo.Name() == "Errorf" {
					return true
				}
			case "errors":
				if fo.Name() == "New" {
					return true
				}
				if fo.Name() == "Join" && len(c.Call.Args) == 1 {
					// errors.Join(a, b, …) is non-nil iff some argument is: look through the variadic slice literal
					if sl, ok := c.Call.Args[0].(*ssa.Slice); ok {
						if al, ok := sl.X.(*ssa.Alloc); ok && al.Referrers() != nil {
							for _, rr := range *al.Referrers() {
								if ia, ok := rr.(*ssa.IndexAddr); ok {
									for _, st := range storesTo(ia) {
										if provablyNonNilErr(st.Val, at, seen) {
											return true
										}
									}
								}
							}
						}
					}
				}
			case "cosmossdk.io/errors":
				switch fo.Name() {
				case "Wrap", "Wrapf":
					// Wrap(nil) == nil: non-nil only if the wrapped value is; receiver form (*Error).Wrap is non-nil
					if recvNamed(fo) != nil {
						return true
					}
					if len(c.Call.Args) > 0 {
						return provablyNonNilErr(c.Call.Args[0], at, seen)
					}
				case "New", "Register":
					return true
				}
			case "github.com/pkg/errors":
				switch fo.Name() {
				case "New", "Errorf":
					return true
				case "Wrap", "Wrapf":
					if len(c.Call.Args) > 0 {
						return provablyNonNilErr(c.Call.Args[0], at, seen)
					}
				}
			}
		}
	}
	// loads of registered sentinel errors (package-level vars) are non-nil
	if u, ok := v.(*ssa.UnOp); ok && u.Op == token.MUL {
		if _, ok := u.X.(*ssa.Global); ok {
			return true
		}
		// defer-spilled result: `*t = x; rundefers; r = *t; return r` — the value is the last store in the same block
		if a, ok := u.X.(*ssa.Alloc); ok {
			if sv := lastStoreBefore(a, u); sv != nil {
				return provablyNonNilErr(sv, at, seen)
			}
		}
	}
	// value tested non-nil on every path to `at`
	if dominatedByNonNilTest(v, at) {
		return true
	}
	return false
}

// lastStoreBefore returns the value of the last store to alloc a that precedes instruction `at` in at's block, if any
// (deferred closures could overwrite a named result in between; callers use this only for unnamed, compiler-spilled results
// or accept the value as "what the statement returned").
func lastStoreBefore(a *ssa.Alloc, at ssa.Instruction) ssa.Value {
	var last ssa.Value
	for _, in := range at.Block().Instrs {
		if in == at {
			break
		}
		if st, ok := in.(*ssa.Store); ok && st.Addr == ssa.Value(a) {
			last = st.Val
		}
	}
	return last
}

// dominatedByNonNilTest: block `at` is dominated by the non-nil edge of a test `v != nil`.
func dominatedByNonNilTest(v ssa.Value, at *ssa.BasicBlock) bool {
	refs := v.Referrers()
	if refs == nil {
		return false
	}
	for _, r := range *refs {
		b, ok := r.(*ssa.BinOp)
		if !ok || (b.Op != token.NEQ && b.Op != token.EQL) {
			continue
		}
		if !(isNilConst(b.X) || isNilConst(b.Y)) {
			continue
		}
		brefs := b.Referrers()
		if brefs == nil {
			continue
		}
		for _, br := range *brefs {
			i, ok := br.(*ssa.If)
			if !ok {
				continue
			}
			nonNilEdge := 0
			if b.Op == token.EQL {
				nonNilEdge = 1
			}
			blk := i.Block()
			succ := blk.Succs[nonNilEdge]
			if succ == blk.Succs[1-nonNilEdge] {
				continue
			}
			// succ must have blk as its only predecessor for the edge to be identified with the block
			if len(succ.Preds) == 1 && (succ == at || succ.Dominates(at)) {
				return true
			}
		}
	}
	return false
}

// ---------------------------------------------------------------- backward slice

// Slice is the set of SSA values a value may derive from (intra-procedural, plus optional descent into static callees).
type Slice struct {
	Vals  map[ssa.Value]bool
	order []ssa.Value
}

type SliceOpts struct {
	// ThroughCallArgs: continue from a call's result into its arguments (and receiver).
	// nil = never; otherwise decides per call.
	ThroughCallArgs func(*ssa.Call) bool
	// IntoCallees: descend into static callee return values (depth-bounded).
	IntoCallees func(*ssa.Function) bool
	Depth       int
	// NoMemory: a load is a leaf; do not continue at the stores that may have written the loaded location.
	NoMemory bool
	// FieldSensitive: a read of field f of a local struct (Alloc) continues only at the stores to that same field,
	// not at the whole struct (so sibling fields of a composite literal do not taint each other).
	FieldSensitive bool
	// Params: when reaching a parameter of a callee entered through IntoCallees, continue at the actual argument.
}

func alwaysThrough(*ssa.Call) bool { return true }

func backSlice(v ssa.Value, opts SliceOpts) *Slice {
	s := &Slice{Vals: map[ssa.Value]bool{}}
	s.walk(v, opts, opts.Depth, nil)
	return s
}

type callCtx struct {
	call   *ssa.Call
	parent *callCtx
}

func (s *Slice) walk(v ssa.Value, o SliceOpts, depth int, cc *callCtx) {
	if v == nil || s.Vals[v] {
		return
	}
	s.Vals[v] = true
	s.order = append(s.order, v)
	switch x := v.(type) {
	case *ssa.Phi:
		for _, e := range x.Edges {
			s.walk(e, o, depth, cc)
		}
	case *ssa.Extract:
		s.walk(x.Tuple, o, depth, cc)
	case *ssa.ChangeType:
		s.walk(x.X, o, depth, cc)
	case *ssa.Convert:
		s.walk(x.X, o, depth, cc)
	case *ssa.ChangeInterface:
		s.walk(x.X, o, depth, cc)
	case *ssa.MakeInterface:
		s.walk(x.X, o, depth, cc)
	case *ssa.TypeAssert:
		s.walk(x.X, o, depth, cc)
	case *ssa.SliceToArrayPointer:
		s.walk(x.X, o, depth, cc)
	case *ssa.Slice:
		s.walk(x.X, o, depth, cc)
	case *ssa.Field:
		s.walk(x.X, o, depth, cc)
	case *ssa.FieldAddr:
		if _, isAlloc := x.X.(*ssa.Alloc); isAlloc && o.FieldSensitive {
			for _, st := range storesTo(x) {
				s.walk(st.Val, o, depth, cc)
			}
			for _, st := range fieldStores(x) {
				s.walk(st.Val, o, depth, cc)
			}
			return
		}
		s.walk(x.X, o, depth, cc)
	case *ssa.Index:
		s.walk(x.X, o, depth, cc)
	case *ssa.IndexAddr:
		s.walk(x.X, o, depth, cc)
	case *ssa.Lookup:
		s.walk(x.X, o, depth, cc)
		s.walk(x.Index, o, depth, cc)
	case *ssa.Next:
		s.walk(x.Iter, o, depth, cc)
	case *ssa.Range:
		s.walk(x.X, o, depth, cc)
	case *ssa.BinOp:
		s.walk(x.X, o, depth, cc)
		s.walk(x.Y, o, depth, cc)
	case *ssa.UnOp:
		s.walk(x.X, o, depth, cc)
		if x.Op == token.MUL && !o.NoMemory {
			// load: continue at the stores to the same address (flow-insensitive) and, for field addresses,
			// at stores to the same field of the same base
			for _, st := range storesTo(x.X) {
				s.walk(st.Val, o, depth, cc)
			}
			if fa, ok := x.X.(*ssa.FieldAddr); ok {
				for _, st := range fieldStores(fa) {
					s.walk(st.Val, o, depth, cc)
				}
			}
		}
	case *ssa.Alloc:
		for _, st := range storesTo(x) {
			s.walk(st.Val, o, depth, cc)
		}
		// composite literal initialisation through field addresses
		if refs := x.Referrers(); refs != nil {
			for _, r := range *refs {
				if fa, ok := r.(*ssa.FieldAddr); ok {
					for _, st := range storesTo(fa) {
						s.walk(st.Val, o, depth, cc)
					}
				}
				if ia, ok := r.(*ssa.IndexAddr); ok {
					for _, st := range storesTo(ia) {
						s.walk(st.Val, o, depth, cc)
					}
				}
			}
		}
	case *ssa.MakeClosure:
		for _, b := range x.Bindings {
			s.walk(b, o, depth, cc)
		}
	case *ssa.FreeVar:
		// continue at the binding in the enclosing function's MakeClosure
		fn := x.Parent()
		idx := -1
		for i, fv := range fn.FreeVars {
			if fv == x {
				idx = i
			}
		}
		if p := fn.Parent(); p != nil && idx >= 0 {
			allInstrs(p, true, func(_ *ssa.Function, _ *ssa.BasicBlock, i ssa.Instruction) {
				if mc, ok := i.(*ssa.MakeClosure); ok && mc.Fn == fn && idx < len(mc.Bindings) {
					s.walk(mc.Bindings[idx], o, depth, cc)
				}
			})
		}
	case *ssa.Parameter:
		if cc != nil {
			// map back to the actual argument of the call we descended through
			fn := x.Parent()
			for i, p := range fn.Params {
				if p == x {
					args := cc.call.Call.Args
					if cc.call.Call.IsInvoke() {
						// receiver is Value
						if i == 0 {
							s.walk(cc.call.Call.Value, o, depth+1, cc.parent)
						} else if i-1 < len(args) {
							s.walk(args[i-1], o, depth+1, cc.parent)
						}
					} else if i < len(args) {
						s.walk(args[i], o, depth+1, cc.parent)
					}
				}
			}
		}
	case *ssa.Call:
		if o.IntoCallees != nil && depth > 0 {
			if callee := x.Call.StaticCallee(); callee != nil && callee.Blocks != nil && o.IntoCallees(callee) {
				for _, r := range returnsOf(callee) {
					for _, rv := range r.Results {
						s.walk(rv, o, depth-1, &callCtx{call: x, parent: cc})
					}
				}
				return
			}
		}
		if o.ThroughCallArgs != nil && o.ThroughCallArgs(x) {
			if x.Call.IsInvoke() {
				s.walk(x.Call.Value, o, depth, cc)
			} else if _, isFn := x.Call.Value.(*ssa.Function); !isFn {
				s.walk(x.Call.Value, o, depth, cc)
			}
			for _, a := range x.Call.Args {
				s.walk(a, o, depth, cc)
			}
		}
	}
}

// fieldStores finds stores to the same field of the same base object as fa, elsewhere in the function
// (other FieldAddr instructions with an identical base value and field index).
func fieldStores(fa *ssa.FieldAddr) []*ssa.Store {
	var out []*ssa.Store
	refs := fa.X.Referrers()
	if refs == nil {
		return nil
	}
	for _, r := range *refs {
		if o, ok := r.(*ssa.FieldAddr); ok && o != fa && o.Field == fa.Field {
			out = append(out, storesTo(o)...)
		}
	}
	return out
}

func (s *Slice) Has(pred func(ssa.Value) bool) bool {
	for v := range s.Vals {
		if pred(v) {
			return true
		}
	}
	return false
}

func (s *Slice) HasCall(specs ...CallSpec) bool {
	return s.Has(func(v ssa.Value) bool {
		c, ok := v.(*ssa.Call)
		return ok && isCallTo(c, specs...)
	})
}

func (s *Slice) HasValue(t ssa.Value) bool { return s.Vals[t] }

func (s *Slice) Calls() []*ssa.Call {
	var out []*ssa.Call
	for _, v := range s.order {
		if c, ok := v.(*ssa.Call); ok {
			out = append(out, c)
		}
	}
	return out
}

// Leaves describes the sources of the slice for reports.
func (s *Slice) Describe() string {
	var parts []string
	for _, v := range s.order {
		switch x := v.(type) {
		case *ssa.Call:
			parts = append(parts, "call "+calleeName(x))
		case *ssa.Parameter:
			parts = append(parts, "param "+x.Name())
		case *ssa.Const:
			parts = append(parts, "const "+x.String())
		case *ssa.Global:
			parts = append(parts, "global "+x.Name())
		case *ssa.FieldAddr:
			parts = append(parts, "field "+fieldName(x))
		case *ssa.Field:
			parts = append(parts, "field "+fieldNameV(x))
		}
	}
	sort.Strings(parts)
	parts = dedup(parts)
	if len(parts) > 14 {
		parts = append(parts[:14], "…")
	}
	return strings.Join(parts, ", ")
}

func dedup(s []string) []string {
	var out []string
	for i, x := range s {
		if i == 0 || x != s[i-1] {
			out = append(out, x)
		}
	}
	return out
}

func fieldName(fa *ssa.FieldAddr) string {
	t := fa.X.Type()
	if p, ok := t.Underlying().(*types.Pointer); ok {
		t = p.Elem()
	}
	if st, ok := t.Underlying().(*types.Struct); ok && fa.Field < st.NumFields() {
		return st.Field(fa.Field).Name()
	}
	return fmt.Sprintf("#%d", fa.Field)
}

func fieldNameV(f *ssa.Field) string {
	if st, ok := f.X.Type().Underlying().(*types.Struct); ok && f.Field < st.NumFields() {
		return st.Field(f.Field).Name()
	}
	return fmt.Sprintf("#%d", f.Field)
}

// fieldVar returns the *types.Var of the field addressed / selected by v (FieldAddr or Field), else nil.
func fieldVar(v ssa.Value) *types.Var {
	switch x := v.(type) {
	case *ssa.FieldAddr:
		t := x.X.Type()
		if p, ok := t.Underlying().(*types.Pointer); ok {
			t = p.Elem()
		}
		if st, ok := t.Underlying().(*types.Struct); ok && x.Field < st.NumFields() {
			return st.Field(x.Field)
		}
	case *ssa.Field:
		if st, ok := x.X.Type().Underlying().(*types.Struct); ok && x.Field < st.NumFields() {
			return st.Field(x.Field)
		}
	}
	return nil
}

// loadsField reports whether v is (after stripping) a load of / selection of the named field of a struct
// whose named type is typeName (any package): e.g. d.currentCtx.
func isFieldRead(v ssa.Value, typeName, field string) bool {
	v = strip(v)
	if u, ok := v.(*ssa.UnOp); ok && u.Op == token.MUL {
		v = u.X
	}
	fv := fieldVar(v)
	if fv == nil || fv.Name() != field {
		return false
	}
	var base types.Type
	switch x := v.(type) {
	case *ssa.FieldAddr:
		base = x.X.Type()
	case *ssa.Field:
		base = x.X.Type()
	}
	if p, ok := base.Underlying().(*types.Pointer); ok {
		base = p.Elem()
	}
	if n, ok := types.Unalias(base).(*types.Named); ok {
		return typeName == "" || n.Obj().Name() == typeName
	}
	return typeName == ""
}

// paramIndex returns the index of parameter p in its function, or -1.
func paramIndex(p *ssa.Parameter) int {
	for i, q := range p.Parent().Params {
		if q == p {
			return i
		}
	}
	return -1
}

// namedTypeName returns the name of the (pointer to) named type of t, or "".
func namedTypeName(t types.Type) string {
	if p, ok := types.Unalias(t).(*types.Pointer); ok {
		t = p.Elem()
	}
	if n, ok := types.Unalias(t).(*types.Named); ok {
		return n.Obj().Name()
	}
	return ""
}

func namedTypePath(t types.Type) string {
	if p, ok := types.Unalias(t).(*types.Pointer); ok {
		t = p.Elem()
	}
	if n, ok := types.Unalias(t).(*types.Named); ok {
		if n.Obj().Pkg() != nil {
			return n.Obj().Pkg().Path() + "." + n.Obj().Name()
		}
		return n.Obj().Name()
	}
	return ""
}

// blockEndsInPanic: the block's terminator is a Panic.
func endsInPanic(b *ssa.BasicBlock) bool {
	if len(b.Instrs) == 0 {
		return false
	}
	_, ok := b.Instrs[len(b.Instrs)-1].(*ssa.Panic)
	return ok
}

// ---------------------------------------------------------------- loops

// Loop is a natural loop: header plus the blocks that can reach a back edge source without leaving through the header.
type Loop struct {
	Header *ssa.BasicBlock
	Body   map[*ssa.BasicBlock]bool // includes Header
}

// loopsOf finds natural loops by back edges (b→h with h dominating b); loops sharing a header are merged.
func loopsOf(fn *ssa.Function) []*Loop {
	by := map[*ssa.BasicBlock]*Loop{}
	var out []*Loop
	for _, b := range fn.Blocks {
		for _, h := range b.Succs {
			if !h.Dominates(b) {
				continue
			}
			l := by[h]
			if l == nil {
				l = &Loop{Header: h, Body: map[*ssa.BasicBlock]bool{h: true}}
				by[h] = l
				out = append(out, l)
			}
			// body: all blocks that reach b backwards without passing h
			work := []*ssa.BasicBlock{b}
			for len(work) > 0 {
				x := work[len(work)-1]
				work = work[:len(work)-1]
				if l.Body[x] {
					continue
				}
				l.Body[x] = true
				work = append(work, x.Preds...)
			}
		}
	}
	return out
}

// exitsInsideLoop lists Return instructions reachable from a loop-body block without passing through the loop header
// again, i.e. returns taken in the middle of an iteration (the normal exit leaves through the header).
func returnsFromInsideLoop(fn *ssa.Function, l *Loop) []*ssa.Return {
	seen := map[*ssa.BasicBlock]bool{l.Header: true}
	var work []*ssa.BasicBlock
	for b := range l.Body {
		if b != l.Header {
			work = append(work, b)
		}
	}
	var out []*ssa.Return
	for len(work) > 0 {
		b := work[len(work)-1]
		work = work[:len(work)-1]
		if seen[b] {
			continue
		}
		seen[b] = true
		if len(b.Instrs) > 0 {
			if r, ok := b.Instrs[len(b.Instrs)-1].(*ssa.Return); ok {
				out = append(out, r)
			}
		}
		work = append(work, b.Succs...)
	}
	return out
}

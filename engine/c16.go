package main

import (
	"go/token"
	"go/types"
	"strings"

	"golang.org/x/tools/go/ssa"
)

func init() { registry["C16"] = checkC16 }

const (
	pkgVauthKeeper = EV + "/x/vauth/keeper"
	pkgVauthTypes  = EV + "/x/vauth/types"
	pkgVauthUtils  = EV + "/x/vauth/utils"
	pkgVesting     = SDK + "/x/auth/vesting/types"
)

func checkC16(e *Engine, r *Report) {
	e.BuildSSA()
	r.NotDecided("unforgeability of secp256k1 signatures / preimage resistance of Keccak (cryptographic assumptions)")
	r.NotDecided("that proofs survive genesis export/import (C18, known finding F18d)")
	r.Assumption("the SDK's vesting message server creates vesting accounts only for the ToAddress of the three request types enumerated from vestingtypes.MsgServer")

	sub := e.Fn(pkgVauthKeeper, "msgServer.SubmitProofExternalOwnedAccount")
	save := e.Fn(pkgVauthKeeper, "Keeper.SaveProofExternalOwnedAccount")
	specSave := CallSpec{pkgVauthKeeper, "Keeper", "SaveProofExternalOwnedAccount"}
	specHas := CallSpec{pkgVauthKeeper, "Keeper", "HasProofExternalOwnedAccount"}
	specKey := CallSpec{pkgVauthTypes, "", "KeyProofExternalOwnedAccountByAddress"}
	specVerify := CallSpec{pkgVauthUtils, "", "VerifySignature"}

	r.Rule("R1", "MUST-PASS+WHO-MAY-CALL", "a proof is stored only after msg.ValidateBasic() succeeded, no proof exists yet for msg.Account, and the fee (constant cost × EVM denom) was moved from the submitter to the module and burnt as the same coins value; the stored proof is for msg.Account with msg.Signature; proofs are written only by the message server's save path and never deleted", 9, func() {
		msgP := ssa.Value(sub.Params[2])
		saves := callsTo(sub, false, specSave)
		if len(saves) != 1 {
			r.Bad("SubmitProof › one save", e.Pos(sub.Pos()), "not exactly one SaveProofExternalOwnedAccount call")
			return
		}
		sv := saves[0]
		notSave := func(i ssa.Instruction) bool { return i == sv.(ssa.Instruction) }
		fromMsgField := func(v ssa.Value, f string) bool {
			sl := sliceFrom(v)
			return hasFieldLoad(sl, "MsgSubmitProofExternalOwnedAccount", f) && sl.HasValue(msgP)
		}
		// ValidateBasic
		var gV []Guard
		for _, g := range errNilGuards(sub, func(c *ssa.Call) bool {
			return isCallTo(c, CallSpec{pkgVauthTypes, "MsgSubmitProofExternalOwnedAccount", "ValidateBasic"}) && resolveLocal(c.Call.Args[0]) == msgP
		}) {
			if failEdgeReturnsError(sub, g, notSave) {
				gV = append(gV, g)
			}
		}
		r.Check(mustPass(sub, sv, gV), "SubmitProof › message validated", e.Pos(sv.Pos()), "msg.ValidateBasic() == nil dominates the save", "a proof is stored without the message (signature!) having been validated")
		// no existing proof
		var gH []Guard
		for _, g := range boolCallGuards(sub, false, func(c *ssa.Call) bool { return isCallTo(c, specHas) && fromMsgField(argOf(c, 1), "Account") }) {
			if failEdgeReturnsError(sub, g, notSave) {
				gH = append(gH, g)
			}
		}
		r.Check(mustPass(sub, sv, gH), "SubmitProof › proofs are final", e.Pos(sv.Pos()), "HasProof(msg.Account) ⇒ error", "an existing proof can be overwritten")
		// fee
		send := callsIn(sub, false, func(c ssa.CallInstruction) bool {
			return isBankCall(c, map[string]bool{"SendCoinsFromAccountToModule": true})
		})
		burn := callsIn(sub, false, func(c ssa.CallInstruction) bool { return isBankCall(c, map[string]bool{"BurnCoins": true}) })
		if len(send) != 1 || len(burn) != 1 {
			r.Bad("SubmitProof › fee", e.Pos(sub.Pos()), "the handler does not move the fee to the module and burn it (one SendCoinsFromAccountToModule, one BurnCoins)")
		} else {
			sa, ba := send[0].Common().Args, burn[0].Common().Args
			okFee := sameLocal(sa[3], ba[2]) && sameLocal(sa[2], ba[1]) && fromMsgField(sa[1], "Submitter")
			fs := sliceFrom(sa[3])
			okFee = okFee && hasFieldLoad(fs, "Params", "EvmDenom") && fs.Has(func(v ssa.Value) bool {
				k, ok := constInt(v)
				return ok && k == constUint(e, pkgVauthKeeper, "CostSubmitProofExternalOwnedAccount") && k > 0
			})
			r.Check(okFee, "SubmitProof › fee = constant cost in the EVM denom, burnt as one value", e.Pos(send[0].Pos()), "submitter → module → burn, same coins", "the fee is not the constant cost in the EVM denomination taken from the submitter and burnt")
			for name, c := range map[string]ssa.CallInstruction{"fee deducted": send[0], "fee burnt": burn[0]} {
				cc := c
				var gs []Guard
				for _, g := range errNilGuards(sub, func(x *ssa.Call) bool { return ssa.CallInstruction(x) == cc }) {
					if failEdgeReturnsError(sub, g, notSave) {
						gs = append(gs, g)
					}
				}
				r.Check(mustPass(sub, sv, gs), "SubmitProof › "+name+" before the proof is stored", e.Pos(c.Pos()), "error ⇒ no proof", "a proof is stored although the fee could not be taken/burnt")
			}
		}
		// stored proof content
		pf := resolveLocal(argOf(sv, 1))
		var fields map[string]ssa.Value
		if u, ok := pf.(*ssa.UnOp); ok {
			fields = literalFields(u.X)
		} else {
			fields = literalFields(pf)
		}
		r.Check(fields["Account"] != nil && fromMsgField(fields["Account"], "Account") && fields["Signature"] != nil && fromMsgField(fields["Signature"], "Signature"),
			"SubmitProof › stored proof = (msg.Account, msg.Signature)", e.Pos(sv.Pos()), "Account: msg.Account, Signature: msg.Signature", "the proof stored is not for the account/signature that was validated")
		// save validates the proof and writes under the account's key
		ws := callsIn(save, false, func(c ssa.CallInstruction) bool { return isMethodNamed(c, "Set") && c.Common().IsInvoke() })
		okS := len(ws) == 1
		if okS {
			var gs []Guard
			for _, g := range errNilGuards(save, func(c *ssa.Call) bool {
				return isCallTo(c, CallSpec{pkgVauthTypes, "ProofExternalOwnedAccount", "ValidateBasic"})
			}) {
				if failEdgeReturnsError(save, g, nil) {
					gs = append(gs, g)
				}
			}
			ks := backSlice(ws[0].Common().Args[0], SliceOpts{ThroughCallArgs: alwaysThrough, IntoCallees: privHelper(pkgVauthKeeper), Depth: 2})
			okS = mustPass(save, ws[0], gs) && ks.HasCall(specKey) && hasFieldLoad(ks, "ProofExternalOwnedAccount", "Account")
		}
		r.Check(okS, "SaveProof › validated proof under the account's key", e.Pos(save.Pos()), "proof.ValidateBasic() == nil; key = KeyProof…(proof.Account)", "SaveProofExternalOwnedAccount writes an unvalidated proof or under a key not derived from the proof's account")
		// HasProof answers "is there a record under this account's key" and nothing else: the finality guard of the message server
		// and the vesting gate both rely on it, so a further condition (comparing stored text with the queried address, say)
		// makes an existing proof invisible — and overwritable
		{
			has := e.Fn(pkgVauthKeeper, "Keeper.HasProofExternalOwnedAccount")
			okHas := len(returnsOf(has)) > 0
			for _, ret := range returnsOf(has) {
				v := resolveLocal(ret.Results[0])
				exact := false
				keySlice := func(x ssa.Value) bool {
					ks := backSlice(x, SliceOpts{ThroughCallArgs: alwaysThrough, IntoCallees: privHelper(pkgVauthKeeper), Depth: 2})
					for _, kc := range ks.Calls() {
						if isCallTo(kc, specKey) && argReaches(ks, kc, 0, ssa.Value(has.Params[2]), 2) {
							return true
						}
					}
					return false
				}
				if c, isC := v.(*ssa.Call); isC && c.Call.IsInvoke() && c.Call.Method.Name() == "Has" && len(c.Call.Args) == 1 && keySlice(c.Call.Args[0]) {
					exact = true // store.Has(key)
				}
				if b, isB := v.(*ssa.BinOp); isB && (b.Op == token.NEQ || b.Op == token.GTR) {
					// Get…(ctx, addr) != nil   |   len(store.Get(key)) > 0
					x := b.X
					if lc, _ := callOf(x); lc != nil {
						if bi, isBi := lc.Call.Value.(*ssa.Builtin); isBi && bi.Name() == "len" {
							x = lc.Call.Args[0]
						}
					}
					if gc, _ := callOf(x); gc != nil {
						zero := isNilConst(b.Y)
						if k, isK := constInt(b.Y); isK && k == 0 {
							zero = true
						}
						if zero && gc.Call.IsInvoke() && gc.Call.Method.Name() == "Get" && len(gc.Call.Args) == 1 && keySlice(gc.Call.Args[0]) {
							exact = true
						}
						if zero && isCallTo(gc, CallSpec{pkgVauthKeeper, "Keeper", "GetProofExternalOwnedAccount"}) && resolveLocal(argOf(gc, 1)) == ssa.Value(has.Params[2]) {
							exact = true
						}
					}
				}
				if !exact {
					okHas = false
				}
			}
			r.Check(okHas, "HasProof › true exactly when a record exists under the account's key", e.Pos(has.Pos()), "store.Has(KeyProof…(accAddr))", "HasProofExternalOwnedAccount is not simply the existence of the record under the account's key (an extra condition can hide an existing proof): a proven address can be proved again and its proof overwritten, burning the fee again")
		}
		// who may call / key users
		for _, cs := range e.repoCallSites(func(c ssa.CallInstruction) bool { return isCallTo(c, specSave) }) {
			r.Check(topFn(cs.Fn) == sub, "who stores proofs › "+fnKey(cs.Fn), e.Pos(cs.Call.Pos()), "only the message server", "a proof is stored from code that does not run the fee/validation path")
		}
		for _, cs := range e.repoCallSites(func(c ssa.CallInstruction) bool { return isCallTo(c, specKey) }) {
			t := topFn(cs.Fn)
			isAccessor := func(f *ssa.Function) bool {
				return pkgPathOf(f) == pkgVauthKeeper && (f.Name() == "SaveProofExternalOwnedAccount" || f.Name() == "GetProofExternalOwnedAccount" || f.Name() == "HasProofExternalOwnedAccount")
			}
			ok := isAccessor(t)
			if !ok && privHelper(pkgVauthKeeper)(t) {
				// an unexported helper shared by the three accessors (and by nobody else)
				n := 0
				ok = true
				for _, hs := range e.repoCallSites(func(c ssa.CallInstruction) bool { return c.Common().StaticCallee() == t }) {
					n++
					if !isAccessor(topFn(hs.Fn)) {
						ok = false
					}
				}
				ok = ok && n > 0
			}
			r.Check(ok, "proof key user › "+fnKey(cs.Fn), e.Pos(cs.Call.Pos()), "save/get/has only", "the proof store key is used outside the keeper's save/get/has (second writer or a deleter)")
		}
		// no Delete on the vauth store
		nDel := 0
		for _, f := range e.SrcFuncs(func(p string) bool { return strings.HasPrefix(p, EV+"/x/vauth") }) {
			if IsGenerated(e.File(f.Pos())) {
				continue
			}
			nDel += len(callsIn(f, false, func(c ssa.CallInstruction) bool { return isMethodNamed(c, "Delete") && c.Common().IsInvoke() }))
		}
		r.Check(nDel == 0, "vauth store › no deletion", e.Pos(save.Pos()), "no store.Delete in x/vauth", "x/vauth deletes store entries: proofs are not final")
	})

	r.Rule("R2", "MUST-PASS", "both ValidateBasic methods return nil only through VerifySignature(BytesToAddress(acc), sig, MessageToSign) == (true, nil) with acc = AccAddressFromBech32(m.Account) of exactly 20 bytes and sig decoded from m.Signature; VerifySignature compares the given address with the address of the key recovered over Keccak256(message)", 7, func() {
		for _, tn := range []string{"MsgSubmitProofExternalOwnedAccount", "ProofExternalOwnedAccount"} {
			fn := e.Fn(pkgVauthTypes, tn+".ValidateBasic")
			recv := ssa.Value(fn.Params[0])
			vcs := callsTo(fn, false, specVerify)
			key := "x/vauth/types." + tn + ".ValidateBasic"
			if len(vcs) != 1 {
				r.Bad(key+" › signature verified", e.Pos(fn.Pos()), "not exactly one VerifySignature call")
				continue
			}
			vc := vcs[0].(*ssa.Call)
			a := vc.Call.Args
			// address derives from AccAddressFromBech32(m.Account)
			helperSlice := func(v ssa.Value) *Slice {
				return backSlice(v, SliceOpts{ThroughCallArgs: alwaysThrough, IntoCallees: privHelper(pkgVauthTypes), Depth: 2})
			}
			as := helperSlice(a[0])
			var accCall *ssa.Call
			for _, c := range as.Calls() {
				if isCallTo(c, CallSpec{pkgSdkTypes, "", "AccAddressFromBech32"}) && hasFieldLoad(sliceFrom(c.Call.Args[0]), tn, "Account") && sliceFrom(c.Call.Args[0]).HasValue(recv) {
					accCall = c
				}
			}
			okAddr := accCall != nil && as.HasCall(CallSpec{GETH + "/common", "", "BytesToAddress"})
			ss := helperSlice(a[1])
			okSig := hasFieldLoad(ss, tn, "Signature") && ss.HasCall(CallSpec{"encoding/hex", "", "DecodeString"})
			mg, isG := resolveLocal(a[2]).(*ssa.Const)
			okMsg := isG && mg.Value != nil
			if okMsg {
				c, isC := e.Obj(pkgVauthTypes, "MessageToSign").(*types.Const)
				okMsg = isC && constStringVal(c) == func() string { s, _ := constString(a[2]); return s }()
			}
			r.Check(okAddr && okSig && okMsg, key+" › verifies (m.Account, m.Signature, MessageToSign)", e.Pos(vc.Pos()), "VerifySignature(BytesToAddress(AccAddressFromBech32(m.Account)), hex(m.Signature), MessageToSign)", "the signature is not verified against the message's own account / signature / the fixed message")
			// gates
			var gErr, gOk []Guard
			for _, g := range errNilGuards(fn, func(c *ssa.Call) bool { return c == vc }) {
				if failEdgeReturnsError(fn, g, nil) {
					gErr = append(gErr, g)
				}
			}
			for _, i := range ifs(fn) {
				c := i.Cond
				neg := false
				if u, ok := c.(*ssa.UnOp); ok && u.Op == token.NOT {
					c, neg = u.X, true
				}
				ex, ok := c.(*ssa.Extract)
				if !ok || ex.Index != 0 || ex.Tuple != ssa.Value(vc) {
					continue
				}
				g := Guard{If: i, Survive: 0}
				if neg {
					g.Survive = 1
				}
				if failEdgeReturnsError(fn, g, nil) {
					gOk = append(gOk, g)
				}
			}
			okGate := len(successReturns(fn)) > 0
			for _, ret := range successReturns(fn) {
				if !mustPass(fn, ret, gErr) || !mustPass(fn, ret, gOk) {
					okGate = false
				}
			}
			r.Check(okGate, key+" › accepted only if verified", e.Pos(vc.Pos()), "nil only via err == nil ∧ verified", "ValidateBasic can return nil although the signature did not verify (or verification failed)")
			// 20-byte account
			okLen := false
			if accCall != nil {
				var gs []Guard
				for _, i := range ifs(fn) {
					b, isB := i.Cond.(*ssa.BinOp)
					if !isB || (b.Op != token.NEQ && b.Op != token.EQL) {
						continue
					}
					lc, _ := callOf(b.X)
					k, isK := constInt(b.Y)
					if lc == nil || !isK || k != 20 {
						continue
					}
					bi, isBi := lc.Call.Value.(*ssa.Builtin)
					if !isBi || bi.Name() != "len" || !sliceFrom(lc.Call.Args[0]).HasValue(accCall) {
						continue
					}
					g := Guard{If: i, Survive: 1}
					if b.Op == token.EQL {
						g.Survive = 0
					}
					if failEdgeReturnsError(fn, g, nil) {
						gs = append(gs, g)
					}
				}
				okLen = len(gs) > 0
				for _, ret := range successReturns(fn) {
					if !mustPass(fn, ret, gs) {
						okLen = false
					}
				}
			}
			r.Check(okLen, key+" › account is a 20-byte address", e.Pos(fn.Pos()), "len(acc) == 20 else error", "common.BytesToAddress keeps only the last 20 bytes: a longer (e.g. 32-byte module/interchain) account address is 'proven' to be an EOA by the key of its last 20 bytes, although no key controls that account")
		}
		vf := e.Fn(pkgVauthUtils, "VerifySignature")
		addrP, sigP, msgP := ssa.Value(vf.Params[0]), ssa.Value(vf.Params[1]), ssa.Value(vf.Params[2])
		ecs := callsTo(vf, false, CallSpec{GETH + "/crypto", "", "Ecrecover"})
		okV := len(ecs) == 1
		if okV {
			ec := ecs[0].(*ssa.Call)
			h := sliceFrom(ec.Call.Args[0])
			okV = h.HasCall(CallSpec{GETH + "/crypto", "", "Keccak256"}) && h.HasValue(msgP) && resolveLocal(ec.Call.Args[1]) == sigP
			okCmp := false
			allInstrs(vf, false, func(_ *ssa.Function, _ *ssa.BasicBlock, i ssa.Instruction) {
				b, ok := i.(*ssa.BinOp)
				if !ok || b.Op != token.EQL {
					return
				}
				x, y := b.X, b.Y
				if resolveLocal(y) == addrP {
					x, y = y, x
				}
				if resolveLocal(x) != addrP {
					return
				}
				ys := sliceFrom(y)
				if ys.HasValue(ec) && ys.HasCall(CallSpec{GETH + "/crypto", "", "Keccak256"}) && ys.HasCall(CallSpec{GETH + "/common", "", "BytesToAddress"}) {
					for _, ret := range returnsOf(vf) {
						if sliceFrom(ret.Results[0]).HasValue(b) {
							okCmp = true
						}
					}
				}
			})
			okV = okV && okCmp
			// any other true-return?
			for _, ret := range returnsOf(vf) {
				if b, isK := constBool(ret.Results[0]); isK && b {
					okV = false
				}
			}
		}
		r.Check(okV, "x/vauth/utils.VerifySignature › address == address(Ecrecover(Keccak256(message), sig))", e.Pos(vf.Pos()), "true only when the recovered key's address equals the given address", "VerifySignature can report true for a signature not made by the key of the given address")
	})

	r.Rule("R3", "TABLE-AGREE+MUST-PASS", "the vesting authorisation decorator handles every request type of the SDK's vesting MsgServer, takes the ToAddress of the message, and lets a transaction through only if HasProofExternalOwnedAccount(ToAddress) holds for every such message; vesting messages nested in authz are refused by the authz screen (C07-R4, re-checked here)", 5, func() {
		dec := e.Fn(pkgCosmoLane, "CLVestingMessagesAuthorizationDecorator.AnteHandle")
		msi := e.Iface(pkgVesting, "MsgServer")
		handled := map[string]bool{}
		decReg := e.privateRegion(dec) // the type dispatch may live in a single-site private helper
		decReg.AllInstrs(func(i ssa.Instruction) {
			if ta, ok := i.(*ssa.TypeAssert); ok {
				handled[namedTypePath(ta.AssertedType)] = true
			}
		})
		for i := 0; i < msi.NumMethods(); i++ {
			sig := msi.Method(i).Type().(*types.Signature)
			if sig.Params().Len() != 2 {
				continue
			}
			tp := namedTypePath(sig.Params().At(1).Type())
			r.Check(handled[tp], "vesting message covered › "+tp[strings.LastIndex(tp, ".")+1:], e.Pos(dec.Pos()), "type arm present", "the SDK vesting message "+tp+" is not screened: a vesting account can be created for an unproven address")
		}
		// every path to next() on the cosmos lane passes HasProof(ToAddress) == true for each vesting message:
		// structurally: the loop's back edge / exit is reached from a vesting arm only through the true edge of HasProof
		has := callsTo(dec, false, CallSpec{pkgVauthKeeper, "Keeper", "HasProofExternalOwnedAccount"})
		if len(has) == 0 {
			has = callsIn(dec, false, func(c ssa.CallInstruction) bool { return isMethodNamed(c, "HasProofExternalOwnedAccount") })
		}
		if len(has) != 1 {
			r.Bad("993c › proof lookup", e.Pos(dec.Pos()), "not exactly one HasProofExternalOwnedAccount call")
			return
		}
		hc := has[0].(*ssa.Call)
		acc := backSlice(hc.Call.Args[len(hc.Call.Args)-1], SliceOpts{ThroughCallArgs: alwaysThrough, IntoCallees: func(f *ssa.Function) bool { return decReg.in[f] }, Depth: 2})
		r.Check(hasFieldLoad(acc, "", "ToAddress") && !hasFieldLoad(acc, "", "FromAddress"), "993c › proof looked up for ToAddress", e.Pos(hc.Pos()), "HasProof(msg.ToAddress)", "the proof is looked up for an address other than the account that becomes a vesting account")
		// from each vesting arm (block after successful type assertion) the loop header / next() is reachable only via the true edge of HasProof
		gHas := boolCallGuards(dec, true, func(c *ssa.Call) bool { return c == hc })
		okGate := len(gHas) == 1
		if okGate {
			del := surviveEdges(gHas)
			// edges that skip the proof lookup legitimately: the "not a vesting message" path (all assertions failed) —
			// identified as the path from entry to the loop latch that does not pass the block of the lookup
			var starts []*ssa.BasicBlock
			for _, i := range ifs(dec) {
				ex, ok := i.Cond.(*ssa.Extract)
				if !ok || ex.Index != 1 {
					continue
				}
				if ta, isTA := ex.Tuple.(*ssa.TypeAssert); isTA && strings.HasPrefix(namedTypePath(ta.AssertedType), pkgVesting+".") {
					starts = append(starts, i.Block().Succs[0])
				}
			}
			// a helper `target, isVesting := h(msg)`: if every return of h that follows a successful vesting-type assertion reports
			// true, the true edge of `isVesting` in the decorator is where a vesting message continues
			for _, h := range decReg.Fns {
				if h == dec {
					continue
				}
				site, _ := decReg.site[h].(*ssa.Call)
				if site == nil || site.Parent() != dec {
					continue
				}
				res := h.Signature.Results()
				for k := 0; k < res.Len(); k++ {
					if b, isB := res.At(k).Type().Underlying().(*types.Basic); !isB || b.Kind() != types.Bool {
						continue
					}
					var arms []*ssa.BasicBlock
					for _, i := range ifs(h) {
						ex, ok := i.Cond.(*ssa.Extract)
						if !ok || ex.Index != 1 {
							continue
						}
						if ta, isTA := ex.Tuple.(*ssa.TypeAssert); isTA && strings.HasPrefix(namedTypePath(ta.AssertedType), pkgVesting+".") {
							arms = append(arms, i.Block().Succs[0])
						}
					}
					okSum := len(arms) > 0
					for _, arm := range arms {
						for b := range reachable(h, arm, nil) {
							if len(b.Instrs) == 0 {
								continue
							}
							if ret, isRet := b.Instrs[len(b.Instrs)-1].(*ssa.Return); isRet {
								if v, isK := constBool(ret.Results[k]); !isK || !v {
									okSum = false
								}
							}
						}
					}
					if !okSum {
						continue
					}
					for _, i := range ifs(dec) {
						cond, neg := i.Cond, false
						if u, isU := cond.(*ssa.UnOp); isU && u.Op == token.NOT {
							cond, neg = u.X, true
						}
						if ex, ok := cond.(*ssa.Extract); ok && ex.Tuple == ssa.Value(site) && ex.Index == k {
							if neg {
								starts = append(starts, i.Block().Succs[1])
							} else {
								starts = append(starts, i.Block().Succs[0])
							}
						}
					}
				}
			}
			if len(starts) == 0 {
				okGate = false
			}
			nexts := callsIn(dec, false, func(c ssa.CallInstruction) bool { return isNextCall(dec, c) })
			var loopHdr *ssa.BasicBlock
			for _, l := range loopsOf(dec) {
				loopHdr = l.Header
			}
			for _, s := range starts {
				reach := reachable(dec, s, del)
				for _, nc := range nexts {
					if reach[nc.Block()] {
						okGate = false
					}
				}
				if loopHdr != nil && reach[loopHdr] {
					okGate = false
				}
			}
			// with a proof the scan must continue with the next message: next() is reachable from the has-proof edge only through the loop header
			if loopHdr != nil {
				delH := map[edge]bool{}
				for _, p := range loopHdr.Preds {
					delH[edge{p.Index, loopHdr.Index}] = true
				}
				if gHas[0].okBlock() != loopHdr { // jumping straight to the header is the `continue`
					reach := reachable(dec, gHas[0].okBlock(), delH)
					for _, nc := range nexts {
						if reach[nc.Block()] {
							okGate = false
						}
					}
				}
			} else {
				okGate = false
			}
			if !failEdgeReturnsError(dec, gHas[0], func(i ssa.Instruction) bool {
				c, ok := i.(ssa.CallInstruction)
				return ok && isNextCall(dec, c)
			}) {
				okGate = false
			}
		}
		// every message is inspected: next() is reached only through the exit edge of the message loop (a `return next(…)` from
		// inside the loop — e.g. for the first non-vesting message — leaves the messages after it unchecked)
		{
			okAll := false
			nexts := callsIn(dec, false, func(c ssa.CallInstruction) bool { return isNextCall(dec, c) })
			for _, l := range loopsOf(dec) {
				hi, isIf := lastIf(l.Header)
				if !isIf {
					continue
				}
				exit := -1
				for k, sc := range l.Header.Succs {
					if !l.Body[sc] {
						exit = k
					}
				}
				if exit < 0 {
					continue
				}
				okAll = len(nexts) > 0
				ethG, _ := laneGuards(dec)
				for _, nc := range nexts {
					// next() calls of the foreign (Ethereum) lane fall straight through and are not subject to the scan
					if len(ethG) > 0 && mustPass(dec, nc, ethG) {
						continue
					}
					if !mustPass(dec, nc, []Guard{{If: hi, Survive: exit}}) {
						okAll = false
					}
				}
			}
			r.Check(okAll, "993c › every message inspected before next()", e.Pos(dec.Pos()), "next() only after the message loop is exhausted", "the vesting authorisation decorator can hand the transaction to next() from inside its message loop: a vesting-account creation message placed after another message is never checked against the proof store")
		}
		r.Check(okGate, "993c › vesting message passes only with a proof", e.Pos(hc.Pos()), "no proof ⇒ error; next()/next message only after HasProof == true", "a vesting-account creation message can pass the ante handler without an EOA proof for its target")
		// authz screen inspects every message (shared with C07-R4)
		ok, why := authzScreenInspectsAll(e)
		r.Check(ok, "992c › nested vesting messages screened", e.Pos(dec.Pos()), "checkDisabledMsgs inspects every message and recurses into MsgExec", why)
	})

	r.Rule("R4", "KEY-INJECTIVE", "a proof is stored and looked up under a key that is injective in the account address (prefix ‖ the full address bytes): HasProof(a) can hold only for the very address whose proof was stored; the keeper's Save/Has/Get build their key with that one builder from their address argument", 2, func() {
		e.checkKeyBuilders(r, pkgVauthTypes, []string{"KeyProofExternalOwnedAccountByAddress"}, "HasProofExternalOwnedAccount answers true for an address that never proved ownership (any address sharing the truncated bytes of a proven one): a vesting account can be created for it")
		spec := CallSpec{pkgVauthTypes, "", "KeyProofExternalOwnedAccountByAddress"}
		n := 0
		for _, cs := range e.repoCallSites(func(c ssa.CallInstruction) bool { return isCallTo(c, spec) }) {
			f := topFn(cs.Fn)
			if pkgPathOf(f) != pkgVauthKeeper {
				continue
			}
			n++
			arg := resolveLocal(cs.Call.Common().Args[0])
			okArg := false
			// the address argument of the keeper method, or a field of its proof argument decoded with AccAddressFromBech32
			if p, isP := arg.(*ssa.Parameter); isP && p.Parent() == f {
				okArg = true
			}
			sl := backSlice(cs.Call.Common().Args[0], SliceOpts{ThroughCallArgs: alwaysThrough})
			if sl.Has(func(v ssa.Value) bool {
				c, ok := v.(*ssa.Call)
				return ok && (isCallTo(c, CallSpec{pkgSdkTypes, "", "AccAddressFromBech32"}) || isCallTo(c, CallSpec{pkgSdkTypes, "", "MustAccAddressFromBech32"}))
			}) && (hasFieldLoad(sl, "ProofExternalOwnedAccount", "Account") || hasFieldLoad(sl, "ProofExternalOwnedAccount", "Address")) {
				okArg = true
			}
			r.Check(okArg, "proof key argument › "+fnKey(cs.Fn), e.Pos(cs.Call.Pos()), "key built from the method's own address (or the proof's account)", "the proof record is addressed by something other than the account it is about")
		}
		if n == 0 {
			r.Bad("proof key users", e.Pos(e.Fn(pkgVauthTypes, "KeyProofExternalOwnedAccountByAddress").Pos()), "no keeper function builds the proof key with KeyProofExternalOwnedAccountByAddress")
		}
	})
}

// authzScreenInspectsAll: in checkDisabledMsgs no return that may carry a nil error leaves the message loop in the
// middle of the list, and the recursive call's error is propagated (necessary for nested vesting messages to be refused).
func authzScreenInspectsAll(e *Engine) (bool, string) {
	fn := e.TryFn(pkgCosmoLane, "CLRejectAuthzMsgsDecorator.checkDisabledMsgs")
	if fn == nil {
		return false, "checkDisabledMsgs not found"
	}
	for _, l := range loopsOf(fn) {
		for _, ret := range returnsFromInsideLoop(fn, l) {
			if l.Body[ret.Block()] || true {
				if isSuccessReturn(fn, ret) && ret.Block() != nil {
					// a success return reachable from inside the loop body without going back through the header
					// is fine only if it is the function's final return (after the loop was exhausted)
					if l.Body[ret.Block()] {
						return false, "a return that may carry a nil error leaves the message loop in the middle of the list: messages after it are never screened"
					}
					// outside the body: reachable only via header exit? check that every path from body to ret passes the header
					del := map[edge]bool{}
					for _, p := range l.Header.Preds {
						del[edge{p.Index, l.Header.Index}] = true
					}
					for b := range l.Body {
						if b == l.Header {
							continue
						}
						if reachable(fn, b, del)[ret.Block()] {
							return false, "a return that may carry a nil error leaves the message loop in the middle of the list: messages after it are never screened"
						}
					}
				}
			}
		}
	}
	rec := callsIn(fn, false, func(c ssa.CallInstruction) bool { return c.Common().StaticCallee() == fn })
	if len(rec) == 0 {
		return false, "checkDisabledMsgs does not recurse into nested messages"
	}
	for _, rc := range rec {
		ok := false
		for _, g := range errNilGuards(fn, func(c *ssa.Call) bool { return ssa.CallInstruction(c) == rc }) {
			if failEdgeReturnsError(fn, g, nil) {
				ok = true
			}
		}
		if !ok {
			return false, "the error of the recursive screening is not returned"
		}
	}
	return true, ""
}

package main

import (
	"go/constant"
	"go/token"
	"go/types"
	"strings"

	"golang.org/x/tools/go/ssa"
)

func init() { registry["C09"] = checkC09 }

const (
	pkgFmKeeper   = EV + "/x/feemarket/keeper"
	pkgFmTypes    = EV + "/x/feemarket/types"
	pkgFm         = EV + "/x/feemarket"
	pkgGethMisc   = GETH + "/consensus/misc"
	pkgGethParams = GETH + "/params"
	pkgApp        = EV + "/app"
	pkgSdkMath    = "cosmossdk.io/math"
)

// literalFields returns field name → stored value for a composite literal allocated as `a` (stores through FieldAddr).
func literalFields(a ssa.Value) map[string]ssa.Value {
	out := map[string]ssa.Value{}
	refs := a.Referrers()
	if refs == nil {
		return out
	}
	for _, rr := range *refs {
		if fa, ok := rr.(*ssa.FieldAddr); ok {
			for _, st := range storesTo(fa) {
				out[fieldName(fa)] = st.Val
			}
		}
	}
	return out
}

// geProof decides "v >= t holds on every path" for sdkmath.Int values combined by the idiom `if r.LT(x) { r = x }`.
func geProof(v, t ssa.Value, depth int) bool {
	if depth > 12 {
		return false
	}
	if v == t || samePath(v, t) {
		return true
	}
	phi, ok := v.(*ssa.Phi)
	if !ok {
		return false
	}
	for k, ev := range phi.Edges {
		pred := phi.Block().Preds[k]
		if geProof(ev, t, depth+1) {
			continue
		}
		// edge taken from the false side of `ev.LT(t)` ⇒ ev >= t
		if ltIf(pred, ev, t) && pred.Succs[1] == phi.Block() {
			continue
		}
		// edge value assigned under the true side of `o.LT(ev)` with o >= t ⇒ ev > o >= t
		if len(pred.Preds) == 1 {
			q := pred.Preds[0]
			if i, ok := lastIf(q); ok && q.Succs[0] == pred && q.Succs[0] != q.Succs[1] {
				if c, _ := callOf(i.Cond); c != nil && isCallTo(c, CallSpec{pkgSdkMath, "Int", "LT"}) && len(c.Call.Args) == 2 {
					if (c.Call.Args[1] == ev || samePath(c.Call.Args[1], ev)) && geProof(c.Call.Args[0], t, depth+1) {
						continue
					}
				}
			}
		}
		return false
	}
	return true
}

func lastIf(b *ssa.BasicBlock) (*ssa.If, bool) {
	if len(b.Instrs) == 0 {
		return nil, false
	}
	i, ok := b.Instrs[len(b.Instrs)-1].(*ssa.If)
	return i, ok
}

// ltIf: block b ends in `if a.LT(t)`.
func ltIf(b *ssa.BasicBlock, a, t ssa.Value) bool {
	i, ok := lastIf(b)
	if !ok {
		return false
	}
	c, _ := callOf(i.Cond)
	if c == nil || !isCallTo(c, CallSpec{pkgSdkMath, "Int", "LT"}) || len(c.Call.Args) != 2 {
		return false
	}
	return (c.Call.Args[0] == a || samePath(c.Call.Args[0], a)) && (c.Call.Args[1] == t || samePath(c.Call.Args[1], t))
}

func checkC09(e *Engine, r *Report) {
	e.BuildSSA()
	r.NotDecided("the numeric result of misc.CalcBaseFee (upstream go-ethereum, trusted) and the base-fee trajectory over block sequences")
	r.NotDecided("arithmetic of effective gas price / fee (BigMin(tip+base, cap) × gas): only that the value checked against the minimum is the value charged")
	r.Assumption("the SDK's DeductFeeDecorator deducts exactly the coins its TxFeeChecker returns (x/auth/ante, trusted)")

	calc := e.Fn(pkgFmKeeper, "Keeper.CalculateBaseFee")
	upd := e.Fn(pkgFmKeeper, "Keeper.updateBaseFeeForNextBlock")
	specCalc := CallSpec{pkgFmKeeper, "Keeper", "CalculateBaseFee"}
	specCalcBaseFee := CallSpec{pkgGethMisc, "", "CalcBaseFee"}
	ctxP := ssa.Value(calc.Params[1])

	cbf := callsTo(calc, false, specCalcBaseFee)
	var hdr map[string]ssa.Value
	if len(cbf) == 1 {
		hdr = literalFields(resolveLocal(cbf[0].Common().Args[1]))
	}

	r.Rule("R1", "INTERVAL", "the GasLimit handed to misc.CalcBaseFee is >= params.ElasticityMultiplier on every path (so the gas target, limit/multiplier, is never zero and CalcBaseFee cannot divide by zero inside EndBlock)", 1, func() {
		if len(cbf) != 1 || hdr["GasLimit"] == nil {
			r.Bad("CalculateBaseFee › CalcBaseFee header", e.Pos(calc.Pos()), "CalculateBaseFee does not call misc.CalcBaseFee exactly once with a header literal that sets GasLimit")
			return
		}
		em, ok := e.Obj(pkgGethParams, "ElasticityMultiplier").(*types.Const)
		if !ok {
			undecidedf("params.ElasticityMultiplier is not a constant")
		}
		mult, _ := constant.Int64Val(constant.ToInt(em.Val()))
		key := "x/feemarket/keeper.Keeper.CalculateBaseFee › gas-limit operand of CalcBaseFee"
		okAll, why := e.provesGE(hdr["GasLimit"], mult, cbf[0].Block(), 0)
		r.Check(okAll, key, e.Pos(cbf[0].Pos()), "every alternative of the gas limit is >= "+itoa(int(mult)), "the block gas limit handed to CalcBaseFee can be below the elasticity multiplier (consensus MaxGas 0 or 1): gas target 0, division by zero in EndBlock, chain halt — "+why)
	})

	r.Rule("R2", "PROVENANCE+MUST-PASS", "CalcBaseFee is fed GasUsed ← ctx.BlockGasMeter().GasConsumedToLimit(), BaseFee ← GetParams(ctx).BaseFee, Number ← ctx.BlockHeight(), chain config of the same ctx; every non-test call of CalculateBaseFee is dominated by the nil test of ctx.BlockGasMeter()", 5, func() {
		if hdr == nil {
			r.Bad("CalculateBaseFee › header", e.Pos(calc.Pos()), "no header literal")
			return
		}
		onCtx := func(c *ssa.Call) bool {
			return len(c.Call.Args) > 0 && resolveLocal(c.Call.Args[0]) == ctxP || c.Call.IsInvoke() && len(c.Call.Args) > 0 && resolveLocal(c.Call.Args[0]) == ctxP
		}
		gu := sliceFrom(hdr["GasUsed"])
		okGU := gu.Has(func(v ssa.Value) bool { c, ok := v.(*ssa.Call); return ok && isMethodNamed(c, "GasConsumedToLimit") }) &&
			gu.Has(func(v ssa.Value) bool {
				c, ok := v.(*ssa.Call)
				return ok && isCallTo(c, CallSpec{pkgSdkTypes, "Context", "BlockGasMeter"}) && onCtx(c)
			}) && !gu.HasCall(CallSpec{pkgSdkTypes, "Context", "GasMeter"})
		r.Check(okGU, "CalculateBaseFee › GasUsed", e.Pos(cbf[0].Pos()), "ctx.BlockGasMeter().GasConsumedToLimit()", "the parent gas used is not the block gas meter's consumption of the current context")
		bf := sliceFrom(hdr["BaseFee"])
		okBF := hasFieldLoad(bf, "Params", "BaseFee") && bf.Has(func(v ssa.Value) bool {
			c, ok := v.(*ssa.Call)
			return ok && isCallTo(c, CallSpec{pkgFmKeeper, "Keeper", "GetParams"}) && resolveLocal(c.Call.Args[1]) == ctxP
		})
		r.Check(okBF, "CalculateBaseFee › BaseFee", e.Pos(cbf[0].Pos()), "GetParams(ctx).BaseFee", "the parent base fee is not the stored fee-market parameter of the current context")
		nb := sliceFrom(hdr["Number"])
		r.Check(nb.Has(func(v ssa.Value) bool {
			c, ok := v.(*ssa.Call)
			return ok && isCallTo(c, CallSpec{pkgSdkTypes, "Context", "BlockHeight"}) && onCtx(c)
		}), "CalculateBaseFee › Number", e.Pos(cbf[0].Pos()), "ctx.BlockHeight()", "the header number is not the current block height (London activation test)")
		cfg := sliceFrom(cbf[0].Common().Args[0])
		r.Check(cfg.Has(func(v ssa.Value) bool { c, ok := v.(*ssa.Call); return ok && isMethodNamed(c, "GetChainConfig") }) && cfg.HasValue(ctxP), "CalculateBaseFee › chain config", e.Pos(cbf[0].Pos()), "evmKeeper.GetChainConfig(ctx)", "chain config does not come from the EVM keeper on the current context")
		// nil-meter guard at every caller
		n := 0
		for _, cs := range e.repoCallSites(func(c ssa.CallInstruction) bool { return isCallTo(c, specCalc) }) {
			n++
			fn := cs.Fn
			var gs []Guard
			for _, i := range ifs(fn) {
				b, ok := i.Cond.(*ssa.BinOp)
				if !ok {
					continue
				}
				var other ssa.Value
				if isNilConst(b.Y) {
					other = b.X
				} else if isNilConst(b.X) {
					other = b.Y
				} else {
					continue
				}
				c, _ := callOf(other)
				if c == nil || !isCallTo(c, CallSpec{pkgSdkTypes, "Context", "BlockGasMeter"}) {
					continue
				}
				if !sameLocal(c.Call.Args[0], argOf(cs.Call, 0)) {
					continue
				}
				s := 0
				if b.Op == token.EQL {
					s = 1
				}
				gs = append(gs, Guard{If: i, Survive: s})
			}
			r.Check(mustPass(fn, cs.Call, gs), "nil block gas meter guard › "+fnKey(fn), e.Pos(cs.Call.Pos()), "call dominated by ctx.BlockGasMeter() != nil", "CalculateBaseFee is called where the block gas meter of that context may be nil (nil dereference in EndBlock / query)")
		}
		if n == 0 {
			r.Bad("callers of CalculateBaseFee", e.Pos(calc.Pos()), "CalculateBaseFee has no caller: the base fee is never updated")
		}
	})

	r.Rule("R3", "PROVENANCE", "CalculateBaseFee returns BigMax(CalcBaseFee(…), MinGasPrice.TruncateInt()) — the global minimum gas price is a floor of the next base fee", 1, func() {
		ok := false
		for _, ret := range returnsOf(calc) {
			sl := sliceFrom(ret.Results[0])
			hasMax := false
			for _, c := range sl.Calls() {
				if isCallTo(c, CallSpec{GETH + "/common/math", "", "BigMax"}) && len(c.Call.Args) == 2 {
					a, b := sliceFrom(c.Call.Args[0]), sliceFrom(c.Call.Args[1])
					isNext := func(s *Slice) bool { return len(cbf) == 1 && s.HasValue(cbf[0].(ssa.Value)) }
					isMin := func(s *Slice) bool {
						return hasFieldLoad(s, "Params", "MinGasPrice") && s.Has(func(v ssa.Value) bool { c, ok := v.(*ssa.Call); return ok && isMethodNamed(c, "TruncateInt") })
					}
					if (isNext(a) && isMin(b)) || (isNext(b) && isMin(a)) {
						hasMax = true
					}
				}
			}
			ok = hasMax
			if !hasMax {
				break
			}
		}
		r.Check(ok, "CalculateBaseFee › clamp", e.Pos(calc.Pos()), "BigMax(next, trunc(MinGasPrice))", "the next base fee is not clamped from below by the integer part of the global minimum gas price")
	})

	r.Rule("R4", "PAIR+TYPES", "feemarket.AppModule is an end-blocker whose EndBlock reaches updateBaseFeeForNextBlock; past the nil-meter guard every path stores the result of CalculateBaseFee with SetBaseFee and emits the fee_market event carrying that same value; feemarket is in the end-blocker order", 6, func() {
		am := e.Named(pkgFm, "AppModule")
		heb := e.Iface("cosmossdk.io/core/appmodule", "HasEndBlocker")
		r.Check(types.Implements(am, heb) || types.Implements(types.NewPointer(am), heb), "feemarket.AppModule › HasEndBlocker", e.Pos(am.Obj().Pos()), "implements appmodule.HasEndBlocker", "the fee market module no longer has an end-blocker: the base fee is never recomputed")
		eb := e.Fn(pkgFm, "AppModule.EndBlock")
		keb := e.Fn(pkgFmKeeper, "Keeper.EndBlock")
		r.Check(len(callsTo(eb, false, CallSpec{pkgFmKeeper, "Keeper", "EndBlock"})) == 1 && len(callsTo(keb, false, CallSpec{pkgFmKeeper, "Keeper", "updateBaseFeeForNextBlock"})) == 1,
			"feemarket EndBlock › reaches updateBaseFeeForNextBlock", e.Pos(eb.Pos()), "AppModule.EndBlock → Keeper.EndBlock → updateBaseFeeForNextBlock", "the module end-blocker does not reach the base fee update")
		cs := callsTo(upd, false, specCalc)
		sets := callsTo(upd, false, CallSpec{pkgFmKeeper, "Keeper", "SetBaseFee"})
		if len(cs) != 1 || len(sets) != 1 {
			r.Bad("updateBaseFeeForNextBlock › one CalculateBaseFee and one SetBaseFee", e.Pos(upd.Pos()), "not exactly one CalculateBaseFee and one SetBaseFee call")
			return
		}
		r.Check(sameLocal(argOf(sets[0], 1), cs[0].(ssa.Value)) && sameLocal(argOf(sets[0], 0), argOf(cs[0], 0)), "updateBaseFeeForNextBlock › stores the computed value", e.Pos(sets[0].Pos()), "SetBaseFee(ctx, CalculateBaseFee(ctx))", "the value stored as base fee is not the value just computed (or is stored under another context)")
		okPaths := true
		for _, ret := range returnsOf(upd) {
			if reachesFrom(upd, cs[0].(ssa.Instruction), ret) && !passesOr(upd, ret, sets[0], nil) {
				// returns before the calculation (nil-meter path) are exempt: passesOr is entry-based, so test from calc
				del := map[edge]bool{}
				for _, p := range sets[0].Block().Preds {
					del[edge{p.Index, sets[0].Block().Index}] = true
				}
				if sets[0].Block() != cs[0].Block() && reachable(upd, cs[0].Block(), del)[ret.Block()] {
					okPaths = false
				}
			}
		}
		r.Check(okPaths, "updateBaseFeeForNextBlock › every path after the calculation stores it", e.Pos(sets[0].Pos()), "SetBaseFee post-dominates CalculateBaseFee", "a path computes the next base fee but returns without storing it")
		emits := callsIn(upd, false, func(c ssa.CallInstruction) bool {
			return isMethodNamed(c, "EmitEvents") || isMethodNamed(c, "EmitEvent")
		})
		okEv := false
		for _, em := range emits {
			sl := sliceFrom(em.Common().Args[len(em.Common().Args)-1])
			if sl.HasValue(cs[0].(ssa.Value)) || sl.Has(func(v ssa.Value) bool { return sameLocal(v, cs[0].(ssa.Value)) }) {
				okEv = true
			}
		}
		r.Check(okEv, "updateBaseFeeForNextBlock › event carries the stored value", e.Pos(upd.Pos()), "fee_market event attribute derives from the computed base fee", "the fee_market event does not carry the value that was stored (indexers/JSON-RPC read the base fee from this event)")
		// module order
		oe := e.Fn(pkgApp, "orderEndBlockers")
		names := map[string]bool{}
		allInstrs(oe, false, func(_ *ssa.Function, _ *ssa.BasicBlock, i ssa.Instruction) {
			if st, ok := i.(*ssa.Store); ok {
				if s, ok := constString(st.Val); ok {
					names[s] = true
				}
			}
		})
		fmName := constant.StringVal(e.Obj(pkgFmTypes, "ModuleName").(*types.Const).Val())
		r.Check(names[fmName], "app.orderEndBlockers › feemarket listed", e.Pos(oe.Pos()), "feemarket in the end-blocker order", "feemarket is not in orderEndBlockers")
		// ordered list
		order := map[string]int{}
		allInstrs(oe, false, func(_ *ssa.Function, _ *ssa.BasicBlock, i ssa.Instruction) {
			if st, ok := i.(*ssa.Store); ok {
				if ia, isIA := st.Addr.(*ssa.IndexAddr); isIA {
					if k, isK := constInt(ia.Index); isK {
						if s, isS := constString(st.Val); isS {
							order[s] = int(k)
						}
					}
				}
			}
		})
		// modules whose keeper dispatches messages through the message service router and that have an end-blocker
		// (they can execute a fee-market MsgUpdateParams at end of block) must run before the fee market's end-blocker,
		// otherwise the parameters they write are neither adjusted nor clamped for the next block
		var late []string
		nDisp := 0
		for _, f := range e.SrcFuncs(func(p string) bool { return p == pkgApp+"/keepers" || p == pkgApp }) {
			for _, c := range callsIn(f, false, func(c ssa.CallInstruction) bool {
				for _, a := range c.Common().Args {
					if cc, _ := callOf(a); cc != nil && isMethodNamed(cc, "MsgServiceRouter") {
						return true
					}
				}
				return false
			}) {
				fo := calleeObj(c)
				if fo == nil || fo.Pkg() == nil || !strings.HasSuffix(fo.Pkg().Path(), "/keeper") {
					continue
				}
				modPkg := strings.TrimSuffix(fo.Pkg().Path(), "/keeper")
				var modName string
				for _, cand := range []string{modPkg + "/types", modPkg} {
					if o, ok := e.TryObj(cand, "ModuleName").(*types.Const); ok {
						modName = constStringVal(o)
					}
				}
				am, _ := e.TryObj(modPkg, "AppModule").(*types.TypeName)
				if modName == "" || am == nil {
					continue
				}
				hasEnd := false
				for _, t := range []types.Type{am.Type(), types.NewPointer(am.Type())} {
					ms := types.NewMethodSet(t)
					for i := 0; i < ms.Len(); i++ {
						if ms.At(i).Obj().Name() == "EndBlock" {
							hasEnd = true
						}
					}
				}
				if !hasEnd {
					continue
				}
				nDisp++
				if idx, listed := order[modName]; listed && idx > order[fmName] {
					late = append(late, modName)
				}
			}
		}
		r.Check(nDisp > 0 && len(late) == 0, "app.orderEndBlockers › message-dispatching end-blockers run before feemarket", e.Pos(oe.Pos()), itoa(nDisp)+" dispatching module(s) with an end-blocker (gov), all before feemarket", "a module whose end-blocker executes messages ("+strings.Join(late, ",")+", e.g. a passed fee-market MsgUpdateParams proposal) runs after the fee market's end-blocker: the base fee it writes is used for the next block un-adjusted and un-clamped (below the global minimum gas price)")
	})

	r.Rule("R5", "MUST-PASS+SHAPE", "admission: getTxPriority errors when fee/gas < minimum; getMinGasPricesAllowed >= base fee and >= trunc(global MinGasPrice) on every path; in both fee checkers the coins RETURNED (deducted) are the very value whose price passed getTxPriority against getMinGasPricesAllowed of the same fee-market params; the checker is wired into the SDK DeductFeeDecorator", 9, func() {
		gtp := e.Fn(pkgDual, "getTxPriority")
		gmin := e.Fn(pkgDual, "getMinGasPricesAllowed")
		specGtp := CallSpec{pkgDual, "", "getTxPriority"}
		specGmin := CallSpec{pkgDual, "", "getMinGasPricesAllowed"}
		// getTxPriority
		feesP, gasP, minP := ssa.Value(gtp.Params[0]), ssa.Value(gtp.Params[1]), ssa.Value(gtp.Params[2])
		gs := boolCallGuards(gtp, false, func(c *ssa.Call) bool {
			if !isCallTo(c, CallSpec{pkgSdkMath, "Int", "LT"}) {
				return false
			}
			a := sliceFrom(c.Call.Args[0])
			quo := a.Has(func(v ssa.Value) bool {
				q, ok := v.(*ssa.Call)
				return ok && (isCallTo(q, CallSpec{pkgSdkMath, "Int", "QuoRaw"}) || isCallTo(q, CallSpec{pkgSdkMath, "Int", "Quo"}))
			})
			return quo && a.HasValue(feesP) && a.HasValue(gasP) && resolveLocal(c.Call.Args[1]) == minP
		})
		var good []Guard
		for _, g := range gs {
			if failEdgeReturnsError(gtp, g, nil) {
				good = append(good, g)
			}
		}
		okT := len(good) > 0
		for _, ret := range successReturns(gtp) {
			if !mustPass(gtp, ret, good) {
				okT = false
			}
		}
		r.Check(okT, "getTxPriority › price below minimum is an error", e.Pos(gtp.Pos()), "fee/gas < min → error on every path", "getTxPriority can return without error although fee/gas is below the minimum allowed gas price")
		// getMinGasPricesAllowed monotone max
		fpP := gmin.Params[1]
		var baseFee, globalMin ssa.Value
		allInstrs(gmin, false, func(_ *ssa.Function, _ *ssa.BasicBlock, i ssa.Instruction) {
			v, ok := i.(ssa.Value)
			if !ok {
				return
			}
			if fv := fieldVar(v); fv != nil {
				if f, ok := v.(*ssa.Field); ok && f.X == ssa.Value(fpP) && fv.Name() == "BaseFee" {
					baseFee = v
				}
			}
			if c, ok := v.(*ssa.Call); ok && isMethodNamed(c, "TruncateInt") {
				if hasFieldLoad(sliceFrom(c.Call.Args[0]), "Params", "MinGasPrice") && sliceFrom(c.Call.Args[0]).HasValue(fpP) {
					globalMin = v
				}
			}
		})
		if baseFee == nil {
			// params passed by value are spilled: look for loads of fp.BaseFee through an alloc
			allInstrs(gmin, false, func(_ *ssa.Function, _ *ssa.BasicBlock, i ssa.Instruction) {
				if u, ok := i.(*ssa.UnOp); ok {
					if fa, ok := u.X.(*ssa.FieldAddr); ok && fieldName(fa) == "BaseFee" && sliceFrom(fa.X).HasValue(fpP) {
						baseFee = u
					}
				}
			})
		}
		okM := baseFee != nil && globalMin != nil
		if okM {
			for _, ret := range returnsOf(gmin) {
				rv := ret.Results[0]
				if !geProof(rv, baseFee, 0) || !geProof(rv, globalMin, 0) {
					okM = false
				}
			}
		}
		r.Check(okM, "getMinGasPricesAllowed › max(base fee, global minimum, …)", e.Pos(gmin.Pos()), "result >= fp.BaseFee and >= fp.MinGasPrice.TruncateInt() on every path", "the minimum allowed gas price can be below the base fee or below the integer part of the global minimum gas price")
		// fee checkers
		for _, name := range []string{"CosmosTxFeeChecker", "EthereumTxFeeChecker"} {
			outer := e.Fn(pkgDual, name)
			if len(outer.AnonFuncs) != 1 {
				r.Undec(name+" › closure", e.Pos(outer.Pos()), "expected exactly one function literal")
				continue
			}
			fn := outer.AnonFuncs[0]
			fctx := ssa.Value(fn.Params[0])
			n := 0
			ok := true
			why := ""
			// checkedIn: in function f, the success return `ret` hands back coins that passed
			// getTxPriority(coins, gas, getMinGasPricesAllowed(ctx, feeMarketParams, denom)) with ctx / params accepted by the two
			// predicates. The check may sit in a shared private helper whose (coins, priority, error) result is returned as is:
			// then the helper is judged on its own parameters and the predicates on the arguments of the call.
			var checkedIn func(f *ssa.Function, ret *ssa.Return, ctxOK, paramsOK func(ssa.Value) bool, depth int) bool
			checkedIn = func(f *ssa.Function, ret *ssa.Return, ctxOK, paramsOK func(ssa.Value) bool, depth int) bool {
				coins := ret.Results[0]
				if ex, isEx := coins.(*ssa.Extract); isEx && ex.Index == 0 && depth < 2 {
					if wc, _ := callOf(ex.Tuple); wc != nil {
						if w := wc.Call.StaticCallee(); privHelper(pkgDual)(w) {
							argFor := func(v ssa.Value) ssa.Value {
								if p, isP := resolveLocal(v).(*ssa.Parameter); isP && p.Parent() == w {
									if k := paramIndex(p); k >= 0 && k < len(wc.Call.Args) {
										return wc.Call.Args[k]
									}
								}
								return nil
							}
							okW := len(successReturns(w)) > 0
							for _, wr := range successReturns(w) {
								// the coins the helper returns are one of its own parameters (the fee it was given)
								if _, isP := resolveLocal(wr.Results[0]).(*ssa.Parameter); !isP {
									okW = false
									continue
								}
								if !checkedIn(w, wr, func(v ssa.Value) bool { a := argFor(v); return a != nil && ctxOK(a) }, func(v ssa.Value) bool { a := argFor(v); return a != nil && paramsOK(a) }, depth+1) {
									okW = false
								}
							}
							return okW
						}
					}
				}
				for _, pc := range callsTo(f, false, specGtp) {
					if !sameLocal(pc.Common().Args[0], coins) {
						continue
					}
					mc, idx := callOf(pc.Common().Args[2])
					if mc == nil || idx != 0 || !isCallTo(mc, specGmin) {
						continue
					}
					if !(ctxOK(mc.Call.Args[0]) && paramsOK(mc.Call.Args[1])) {
						continue
					}
					eg := errNilGuards(f, func(x *ssa.Call) bool { return ssa.CallInstruction(x) == pc })
					var conf []Guard
					for _, g := range eg {
						if failEdgeReturnsError(f, g, nil) {
							conf = append(conf, g)
						}
					}
					if mustPass(f, ret, conf) {
						return true
					}
				}
				return false
			}
			baseCtx := func(v ssa.Value) bool { return resolveLocal(v) == fctx }
			baseParams := func(v ssa.Value) bool {
				return sliceFrom(v).Has(func(x ssa.Value) bool {
					c, ok := x.(*ssa.Call)
					return ok && isMethodNamed(c, "GetParams") && namedTypeName(c.Call.Value.Type()) == "FeeMarketKeeperForFeeChecker" && resolveLocal(c.Call.Args[0]) == fctx
				})
			}
			for _, ret := range successReturns(fn) {
				coins := ret.Results[0]
				// genesis fallback: `return checkTxFeeWithValidatorMinGasPrices(ctx, feeTx)` under BlockHeight()==0
				if c, _ := callOf(coins); c != nil && isCallTo(c, CallSpec{pkgDual, "", "checkTxFeeWithValidatorMinGasPrices"}) {
					hg := eqGuards(fn, true, func(v ssa.Value) bool {
						c, _ := callOf(v)
						return c != nil && isCallTo(c, CallSpec{pkgSdkTypes, "Context", "BlockHeight"})
					}, func(v ssa.Value) bool { k, ok := constInt(v); return ok && k == 0 })
					if !mustPass(fn, ret, hg) {
						ok, why = false, "the validator-min-gas-prices fallback is used outside the genesis block"
					}
					continue
				}
				n++
				if !checkedIn(fn, ret, baseCtx, baseParams, 0) {
					ok, why = false, "a success return hands back fee coins that did not pass getTxPriority(coins, gas, getMinGasPricesAllowed(ctx, feeMarketParams, denom)) — the price that is checked is not the price that is charged"
				}
			}
			r.Check(ok && n > 0, "app/antedl/duallane."+name+" › charged fee is the fee that was checked", e.Pos(fn.Pos()), "returned coins == coins checked against the minimum", why)
		}
		// Ethereum lane: effective fee priced with the fee-market base fee of the same params
		{
			fn := e.Fn(pkgDual, "EthereumTxFeeChecker").AnonFuncs[0]
			cs := callsTo(fn, false, CallSpec{pkgEvmUtils, "", "EthTxEffectiveFee"})
			ok := len(cs) == 1
			if ok {
				ok = hasFieldLoad(sliceFrom(cs[0].Common().Args[1]), "Params", "BaseFee")
			}
			r.Check(ok, "EthereumTxFeeChecker › effective fee priced with params.BaseFee", e.Pos(fn.Pos()), "EthTxEffectiveFee(ethTx, feeMarketParams.BaseFee)", "the Ethereum effective fee is not priced with the fee-market base fee")
		}
		// dispatch + wiring
		dl := e.Fn(pkgDual, "DualLaneFeeChecker")
		okD := len(dl.AnonFuncs) == 1
		if okD {
			fn := dl.AnonFuncs[0]
			// every return hands back the result of calling a checker built by EthereumTxFeeChecker / CosmosTxFeeChecker
			// (directly, or through a local that is one of the two), and both occur; the Ethereum one only under the lane predicate
			seen := map[string]bool{}
			ethG, _ := laneGuards(fn)
			okD = len(returnsOf(fn)) > 0
			for _, ret := range returnsOf(fn) {
				c, _ := callOf(ret.Results[0])
				if c == nil {
					okD = false
					continue
				}
				var makers []*ssa.Call
				var collect func(v ssa.Value, d int)
				collect = func(v ssa.Value, d int) {
					v = resolveLocal(v)
					if phi, isPhi := v.(*ssa.Phi); isPhi && d < 3 {
						for _, ev := range phi.Edges {
							collect(ev, d+1)
						}
						return
					}
					if cc, _ := callOf(v); cc != nil && cc.Call.StaticCallee() != nil {
						makers = append(makers, cc)
						return
					}
					makers = append(makers, nil)
				}
				collect(c.Call.Value, 0)
				for _, mk := range makers {
					if mk == nil {
						okD = false
						continue
					}
					nm := mk.Call.StaticCallee().Name()
					if nm != "EthereumTxFeeChecker" && nm != "CosmosTxFeeChecker" {
						okD = false
					}
					seen[nm] = true
					if nm == "EthereumTxFeeChecker" && !(mustPass(fn, mk, ethG) || mustPass(fn, c, ethG)) {
						okD = false
					}
				}
			}
			okD = okD && seen["EthereumTxFeeChecker"] && seen["CosmosTxFeeChecker"]
		}
		r.Check(okD, "DualLaneFeeChecker › dispatches to the two lane checkers", e.Pos(dl.Pos()), "fc = Ethereum… | Cosmos… ; return fc(ctx, tx)", "the dual-lane fee checker does not return the result of one of the two lane checkers")
		nah := e.Fn(pkgAnte, "NewAnteHandler")
		okW := false
		for _, c := range callsTo(nah, true, CallSpec{pkgSdkAnte, "", "NewDeductFeeDecorator"}) {
			a := c.Common().Args
			if hasFieldLoad(sliceFrom(a[len(a)-1]), "HandlerOptions", "TxFeeChecker") {
				okW = true
			}
		}
		r.Check(okW, "NewAnteHandler › DeductFeeDecorator uses options.TxFeeChecker", e.Pos(nah.Pos()), "NewDeductFeeDecorator(…, options.TxFeeChecker)", "the SDK fee decorator is built without the configured fee checker (SDK default: no base-fee admission)")
		// app.go passes DualLaneFeeChecker
		okA := false
		for _, f := range e.SrcFuncs(func(p string) bool { return p == pkgApp }) {
			allInstrs(f, false, func(_ *ssa.Function, _ *ssa.BasicBlock, i ssa.Instruction) {
				st, ok := i.(*ssa.Store)
				if !ok {
					return
				}
				fa, ok := st.Addr.(*ssa.FieldAddr)
				if !ok || fieldName(fa) != "TxFeeChecker" {
					return
				}
				if c, _ := callOf(st.Val); c != nil && isCallTo(c, CallSpec{pkgDual, "", "DualLaneFeeChecker"}) {
					okA = true
				}
			})
		}
		r.Check(okA, "app › HandlerOptions.TxFeeChecker = DualLaneFeeChecker", e.Pos(nah.Pos()), "app.go wires DualLaneFeeChecker(evmKeeper, feeMarketKeeper)", "the application does not configure the dual-lane fee checker")
		vf := e.Fn(pkgAnte, "HandlerOptions.Validate")
		okV := false
		for _, i := range ifs(vf) {
			b, ok := i.Cond.(*ssa.BinOp)
			if ok && (isNilConst(b.X) || isNilConst(b.Y)) {
				if hasFieldLoad(sliceFrom(b.X), "HandlerOptions", "TxFeeChecker") || hasFieldLoad(sliceFrom(b.Y), "HandlerOptions", "TxFeeChecker") {
					okV = true
				}
			}
		}
		r.Check(okV, "HandlerOptions.Validate › nil fee checker refused", e.Pos(vf.Pos()), "TxFeeChecker == nil → error", "a nil fee checker is accepted")
	})
}

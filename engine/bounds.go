package main

import (
	"go/token"
	"go/types"

	"golang.org/x/tools/go/ssa"
)

// BOUNDS: an index expression s[i] with a non-constant index is in range if the guards that dominate it entail i < len(s).
// The prover is a tiny difference-constraint closure over integer terms (SSA values and len(<access path>)): each dominating
// comparison contributes a fact a < b or a <= b on the edge through which the access is reached (range loops contribute
// idx < len(ranged) through their header test), and the query is answered by reachability with at least one strict step.
// Lower bounds are not needed: every index considered is a range index or a counter starting at 0.

type bterm string

func boundTerm(v ssa.Value) bterm {
	v = stripConv(v)
	if c, ok := v.(*ssa.Call); ok {
		if b, isB := c.Call.Value.(*ssa.Builtin); isB && b.Name() == "len" && len(c.Call.Args) == 1 {
			return bterm("len(" + bpath(c.Call.Args[0]) + ")")
		}
	}
	if k, ok := constInt(v); ok {
		return bterm("#" + itoa(int(k)))
	}
	return bterm(v.Name() + "@" + v.Parent().Name())
}

func stripConv(v ssa.Value) ssa.Value {
	for i := 0; i < 4; i++ {
		switch x := v.(type) {
		case *ssa.Convert:
			if isWideInt(x.Type()) && isWideInt(x.X.Type()) {
				v = x.X
				continue
			}
		case *ssa.ChangeType:
			v = x.X
			continue
		}
		break
	}
	return v
}

type bfact struct {
	a, b   bterm
	strict bool
}

// boundFactsAt collects the ordering facts that hold in block at because of dominating branch edges.
func boundFactsAt(fn *ssa.Function, at *ssa.BasicBlock) []bfact {
	var out []bfact
	for _, i := range ifs(fn) {
		b, ok := i.Cond.(*ssa.BinOp)
		if !ok {
			continue
		}
		switch b.Op {
		case token.LSS, token.LEQ, token.GTR, token.GEQ:
		default:
			continue
		}
		if bt, isB := b.X.Type().Underlying().(*types.Basic); !isB || bt.Info()&types.IsInteger == 0 {
			continue
		}
		var onTrue bool
		switch {
		case i.Block().Succs[0] != i.Block().Succs[1] && blockDominatedByEdge(fn, at, Guard{If: i, Survive: 0}):
			onTrue = true
		case i.Block().Succs[0] != i.Block().Succs[1] && blockDominatedByEdge(fn, at, Guard{If: i, Survive: 1}):
			onTrue = false
		default:
			continue
		}
		x, y := boundTerm(b.X), boundTerm(b.Y)
		op := b.Op
		if !onTrue { // negate
			switch op {
			case token.LSS:
				op = token.GEQ
			case token.LEQ:
				op = token.GTR
			case token.GTR:
				op = token.LEQ
			case token.GEQ:
				op = token.LSS
			}
		}
		switch op {
		case token.LSS:
			out = append(out, bfact{x, y, true})
		case token.LEQ:
			out = append(out, bfact{x, y, false})
		case token.GTR:
			out = append(out, bfact{y, x, true})
		case token.GEQ:
			out = append(out, bfact{y, x, false})
		}
	}
	return out
}

// entailsLess: facts ⊢ a < b.
func entailsLess(facts []bfact, a, b bterm) bool {
	type st struct {
		t      bterm
		strict bool
	}
	seen := map[st]bool{}
	work := []st{{a, false}}
	for len(work) > 0 {
		s := work[len(work)-1]
		work = work[:len(work)-1]
		if seen[s] {
			continue
		}
		seen[s] = true
		if s.t == b && s.strict {
			return true
		}
		for _, f := range facts {
			if f.a == s.t {
				work = append(work, st{f.b, s.strict || f.strict})
			}
		}
	}
	return false
}

// indexInBounds decides the IndexAddr (or Index) instruction.
func indexInBounds(fn *ssa.Function, idx ssa.Value, coll ssa.Value, at *ssa.BasicBlock) bool {
	if _, isK := constInt(idx); isK {
		return false // constant indices are judged by the caller (they need len >= k+1)
	}
	facts := boundFactsAt(fn, at)
	target := bterm("len(" + bpath(coll) + ")")
	if mk, isMk := coll.(*ssa.MakeSlice); isMk {
		target = boundTerm(mk.Len) // len(make([]T, n)) == n
	}
	return entailsLess(facts, boundTerm(idx), target)
}

// bpath: access path of a collection value; loads through addresses that have no path of their own (an element of another
// slice: `log := logs[i]`) are identified by the loaded SSA value itself.
func bpath(v ssa.Value) string {
	switch x := v.(type) {
	case *ssa.UnOp:
		if x.Op == token.MUL {
			switch a := x.X.(type) {
			case *ssa.FieldAddr:
				return bpath(a.X) + "." + fieldName(a) + "*"
			case *ssa.Alloc, *ssa.Global, *ssa.FreeVar, *ssa.Parameter:
				if p := accessPath(x); p != "" {
					return p
				}
			}
			return "@" + x.Name() + "#" + x.Parent().Name()
		}
	case *ssa.ChangeType:
		return bpath(x.X)
	case *ssa.Field:
		return bpath(x.X) + "." + fieldNameV(x)
	}
	if p := accessPath(v); p != "" {
		return p
	}
	if v.Parent() != nil {
		return "@" + v.Name() + "#" + v.Parent().Name()
	}
	return "@" + v.Name()
}

package main

import (
	"fmt"
	"go/ast"
	"go/token"
	"go/types"
	"os"
	"path/filepath"
	"sort"
	"strings"
	"time"

	"golang.org/x/tools/go/callgraph"
	"golang.org/x/tools/go/callgraph/cha"
	"golang.org/x/tools/go/callgraph/vta"
	"golang.org/x/tools/go/packages"
	"golang.org/x/tools/go/ssa"
	"golang.org/x/tools/go/ssa/ssautil"
)

// Import path roots used by the production bindings.
const (
	EV   = "github.com/EscanBE/evermint/v12"
	GETH = "github.com/ethereum/go-ethereum"
	SDK  = "github.com/cosmos/cosmos-sdk"
)

// Engine holds the loaded, type-checked program of the repository under analysis.
type Engine struct {
	Repo  string
	Tier  string
	Roots []*packages.Package
	All   map[string]*packages.Package
	Fset  *token.FileSet

	Prog    *ssa.Program
	ssaDone bool

	chaG *callgraph.Graph
	vtaG *callgraph.Graph

	timings map[string]float64

	declIndex map[*types.Func]*ast.FuncDecl
	declPkg   map[*types.Func]*packages.Package
}

type undecided struct{ msg string }

func undecidedf(format string, a ...interface{}) {
	panic(undecided{fmt.Sprintf(format, a...)})
}

func (e *Engine) timed(name string, f func()) {
	t := time.Now()
	f()
	if e.timings == nil {
		e.timings = map[string]float64{}
	}
	e.timings[name] += time.Since(t).Seconds()
}

// Load type-checks ./... of the repository (all dependencies from source).
func Load(repo, tier string) (*Engine, error) {
	os.Unsetenv("GOWORK")
	os.Setenv("GOWORK", "off")
	e := &Engine{Repo: repo, Tier: tier, All: map[string]*packages.Package{}}
	cfg := &packages.Config{
		Mode:  packages.LoadAllSyntax,
		Dir:   repo,
		Tests: false,
		Env: append(os.Environ(),
			"GOFLAGS=-mod=mod", "GOPROXY=off", "GOSUMDB=off", "GOTOOLCHAIN=local", "GOWORK=off"),
	}
	var pkgs []*packages.Package
	var err error
	e.timed("load", func() { pkgs, err = packages.Load(cfg, "./...") })
	if err != nil {
		return nil, fmt.Errorf("packages.Load: %w", err)
	}
	if len(pkgs) < 80 {
		return nil, fmt.Errorf("only %d root packages loaded from %s (expected >= 80)", len(pkgs), repo)
	}
	nerr := 0
	var firstErr string
	packages.Visit(pkgs, nil, func(p *packages.Package) {
		e.All[p.PkgPath] = p
		if strings.HasPrefix(p.PkgPath, EV) {
			for _, pe := range p.Errors {
				nerr++
				if firstErr == "" {
					firstErr = pe.Error()
				}
			}
		}
	})
	if nerr > 0 {
		return nil, fmt.Errorf("%d load/type errors in repository packages, first: %s", nerr, firstErr)
	}
	e.Roots = pkgs
	if len(pkgs) > 0 {
		e.Fset = pkgs[0].Fset
	}
	return e, nil
}

// BuildSSA builds SSA for the whole program (all packages loaded from source).
func (e *Engine) BuildSSA() {
	if e.ssaDone {
		return
	}
	e.timed("ssa", func() {
		prog, _ := ssautil.AllPackages(e.Roots, ssa.InstantiateGenerics)
		prog.Build()
		e.Prog = prog
	})
	e.ssaDone = true
}

// CHA returns the whole-program class-hierarchy call graph.
func (e *Engine) CHA() *callgraph.Graph {
	e.BuildSSA()
	if e.chaG == nil {
		e.timed("cha", func() { e.chaG = cha.CallGraph(e.Prog) })
	}
	return e.chaG
}

// VTA returns the whole-program VTA call graph (refining CHA).
func (e *Engine) VTA() *callgraph.Graph {
	if e.vtaG == nil {
		c := e.CHA()
		e.timed("vta", func() { e.vtaG = vta.CallGraph(ssautil.AllFunctions(e.Prog), c) })
	}
	return e.vtaG
}

// ---------------------------------------------------------------- lookups

func (e *Engine) Pkg(path string) *packages.Package {
	p := e.All[path]
	if p == nil || p.Types == nil {
		undecidedf("package %s not found in the loaded program", path)
	}
	return p
}

func (e *Engine) HasPkg(path string) bool { return e.All[path] != nil }

// Obj resolves a package-level object.
func (e *Engine) Obj(pkg, name string) types.Object {
	o := e.Pkg(pkg).Types.Scope().Lookup(name)
	if o == nil {
		undecidedf("object %s.%s not found", pkg, name)
	}
	return o
}

func (e *Engine) TryObj(pkg, name string) types.Object {
	p := e.All[pkg]
	if p == nil || p.Types == nil {
		return nil
	}
	return p.Types.Scope().Lookup(name)
}

func (e *Engine) Named(pkg, name string) *types.Named {
	o := e.Obj(pkg, name)
	tn, ok := o.(*types.TypeName)
	if !ok {
		undecidedf("%s.%s is not a type", pkg, name)
	}
	n, ok := types.Unalias(tn.Type()).(*types.Named)
	if !ok {
		undecidedf("%s.%s is not a named type", pkg, name)
	}
	return n
}

func (e *Engine) Iface(pkg, name string) *types.Interface {
	n := e.Named(pkg, name)
	i, ok := n.Underlying().(*types.Interface)
	if !ok {
		undecidedf("%s.%s is not an interface", pkg, name)
	}
	return i
}

// MethodObj resolves method `name` on type pkg.recv (value or pointer receiver).
func (e *Engine) MethodObj(pkg, recv, name string) *types.Func {
	n := e.Named(pkg, recv)
	for _, t := range []types.Type{n, types.NewPointer(n)} {
		ms := types.NewMethodSet(t)
		for i := 0; i < ms.Len(); i++ {
			if f, ok := ms.At(i).Obj().(*types.Func); ok && f.Name() == name {
				return f
			}
		}
	}
	undecidedf("method %s.%s.%s not found", pkg, recv, name)
	return nil
}

func (e *Engine) TryMethodObj(pkg, recv, name string) (f *types.Func) {
	defer func() {
		if r := recover(); r != nil {
			f = nil
		}
	}()
	return e.MethodObj(pkg, recv, name)
}

// FuncObj resolves "Name" or "Recv.Name" in pkg.
func (e *Engine) FuncObj(pkg, qual string) *types.Func {
	if i := strings.Index(qual, "."); i >= 0 {
		return e.MethodObj(pkg, qual[:i], qual[i+1:])
	}
	f, ok := e.Obj(pkg, qual).(*types.Func)
	if !ok {
		undecidedf("%s.%s is not a function", pkg, qual)
	}
	return f
}

// Fn resolves the SSA function for "Name" or "Recv.Name" in pkg.
func (e *Engine) Fn(pkg, qual string) *ssa.Function {
	e.BuildSSA()
	fo := e.FuncObj(pkg, qual)
	fn := e.Prog.FuncValue(fo)
	if fn == nil || fn.Blocks == nil {
		undecidedf("no SSA body for %s.%s", pkg, qual)
	}
	return fn
}

func (e *Engine) TryFn(pkg, qual string) (fn *ssa.Function) {
	defer func() {
		if r := recover(); r != nil {
			if _, ok := r.(undecided); ok {
				fn = nil
				return
			}
			panic(r)
		}
	}()
	return e.Fn(pkg, qual)
}

// ---------------------------------------------------------------- AST access

func (e *Engine) buildDeclIndex() {
	if e.declIndex != nil {
		return
	}
	e.declIndex = map[*types.Func]*ast.FuncDecl{}
	e.declPkg = map[*types.Func]*packages.Package{}
	for _, p := range e.All {
		if !e.Owned(p.PkgPath) {
			continue
		}
		for _, f := range p.Syntax {
			for _, d := range f.Decls {
				if fd, ok := d.(*ast.FuncDecl); ok {
					if o, ok := p.TypesInfo.Defs[fd.Name].(*types.Func); ok {
						e.declIndex[o] = fd
						e.declPkg[o] = p
					}
				}
			}
		}
	}
}

// Decl returns the AST declaration (and its package) of a function in an owned package.
func (e *Engine) Decl(pkg, qual string) (*ast.FuncDecl, *packages.Package) {
	e.buildDeclIndex()
	fo := e.FuncObj(pkg, qual)
	fd := e.declIndex[fo]
	if fd == nil {
		undecidedf("no declaration for %s.%s", pkg, qual)
	}
	return fd, e.declPkg[fo]
}

func (e *Engine) DeclOf(fo *types.Func) (*ast.FuncDecl, *packages.Package) {
	e.buildDeclIndex()
	return e.declIndex[fo], e.declPkg[fo]
}

// Owned reports whether a package path is repository-owned code or one of the fork packages
// whose evermint-specific files are analysed.
func (e *Engine) Owned(path string) bool {
	return strings.HasPrefix(path, EV+"/") || path == EV || strings.HasPrefix(path, GETH+"/") || path == GETH
}

func (e *Engine) RepoOwned(path string) bool {
	return strings.HasPrefix(path, EV+"/") || path == EV
}

// IsGenerated reports files excluded from reports.
func IsGenerated(file string) bool {
	b := filepath.Base(file)
	return strings.HasSuffix(b, ".pb.go") || strings.HasSuffix(b, ".pb.gw.go") || strings.HasSuffix(b, "_test.go") || strings.HasSuffix(b, ".pulsar.go")
}

// Pos renders a position relative to the repository (or module cache for the fork).
func (e *Engine) Pos(p token.Pos) string {
	if !p.IsValid() {
		return "?"
	}
	pp := e.Fset.Position(p)
	f := pp.Filename
	if rel, err := filepath.Rel(e.Repo, f); err == nil && !strings.HasPrefix(rel, "..") {
		f = rel
	} else if i := strings.Index(f, "/pkg/mod/"); i >= 0 {
		f = f[i+len("/pkg/mod/"):]
	}
	return fmt.Sprintf("%s:%d", f, pp.Line)
}

func (e *Engine) File(p token.Pos) string {
	if !p.IsValid() {
		return ""
	}
	return e.Fset.Position(p).Filename
}

// RepoPackages lists repository-owned root packages sorted by path.
func (e *Engine) RepoPackages() []*packages.Package {
	var out []*packages.Package
	for _, p := range e.All {
		if e.RepoOwned(p.PkgPath) {
			out = append(out, p)
		}
	}
	sort.Slice(out, func(i, j int) bool { return out[i].PkgPath < out[j].PkgPath })
	return out
}

// SrcFuncs returns every SSA function (including anonymous ones) whose package satisfies pred.
func (e *Engine) SrcFuncs(pred func(pkgPath string) bool) []*ssa.Function {
	e.BuildSSA()
	var out []*ssa.Function
	var addAnon func(f *ssa.Function)
	addAnon = func(f *ssa.Function) {
		out = append(out, f)
		for _, a := range f.AnonFuncs {
			addAnon(a)
		}
	}
	for _, sp := range e.Prog.AllPackages() {
		if sp.Pkg == nil || !pred(sp.Pkg.Path()) {
			continue
		}
		for _, m := range sp.Members {
			switch m := m.(type) {
			case *ssa.Function:
				if m.Blocks != nil {
					addAnon(m)
				}
			case *ssa.Type:
				n, ok := m.Type().(*types.Named)
				if !ok {
					continue
				}
				for _, t := range []types.Type{n, types.NewPointer(n)} {
					ms := e.Prog.MethodSets.MethodSet(t)
					for i := 0; i < ms.Len(); i++ {
						fo, ok := ms.At(i).Obj().(*types.Func)
						if !ok || fo.Pkg() != sp.Pkg {
							continue
						}
						// only methods declared on this type (not promoted)
						if recvNamed(fo) != n {
							continue
						}
						if _, isPtr := t.(*types.Pointer); isPtr {
							// skip if also in value method set (already added)
							if vs := e.Prog.MethodSets.MethodSet(n); vs.Lookup(fo.Pkg(), fo.Name()) != nil {
								continue
							}
						}
						if fn := e.Prog.FuncValue(fo); fn != nil && fn.Blocks != nil {
							addAnon(fn)
						}
					}
				}
			}
		}
	}
	sort.Slice(out, func(i, j int) bool {
		if out[i].Pos() != out[j].Pos() {
			return out[i].Pos() < out[j].Pos()
		}
		return out[i].String() < out[j].String()
	})
	return out
}

func recvNamed(fo *types.Func) *types.Named {
	sig, ok := fo.Type().(*types.Signature)
	if !ok || sig.Recv() == nil {
		return nil
	}
	t := sig.Recv().Type()
	if p, ok := t.(*types.Pointer); ok {
		t = p.Elem()
	}
	n, _ := types.Unalias(t).(*types.Named)
	if n != nil {
		return n.Origin()
	}
	return nil
}

// LoadCanary loads the tiny canary module (seeded violations for zero-count rules) and builds its SSA form.
func LoadCanary(verifDir string) *Engine {
	dir := filepath.Join(verifDir, "engine", "canary")
	cfg := &packages.Config{
		Mode: packages.LoadSyntax,
		Dir:  dir,
		Env:  append(os.Environ(), "GOFLAGS=-mod=mod", "GOPROXY=off", "GOSUMDB=off", "GOTOOLCHAIN=local", "GOWORK=off"),
	}
	pkgs, err := packages.Load(cfg, "./...")
	if err != nil || len(pkgs) == 0 || len(pkgs[0].Errors) > 0 {
		undecidedf("CHECKER-BROKEN: canary module does not load from %s: %v", dir, err)
	}
	c := &Engine{Repo: dir, Tier: "canary", All: map[string]*packages.Package{}, Roots: pkgs, Fset: pkgs[0].Fset}
	for _, p := range pkgs {
		c.All[p.PkgPath] = p
	}
	prog, _ := ssautil.Packages(pkgs, ssa.InstantiateGenerics)
	prog.Build()
	c.Prog = prog
	c.ssaDone = true
	return c
}

// CanaryFn returns a function of the canary package.
func (c *Engine) CanaryFn(name string) *ssa.Function {
	for _, sp := range c.Prog.AllPackages() {
		if sp.Pkg.Path() == "canary" {
			if f := sp.Func(name); f != nil {
				return f
			}
		}
	}
	undecidedf("CHECKER-BROKEN: canary function %s not found", name)
	return nil
}

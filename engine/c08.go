package main

import (
	"go/token"
	"go/types"
	"sort"
	"strings"

	"golang.org/x/tools/go/ssa"
)

func init() {
	registry["C08"] = checkC08
	needsL4["C08"] = true
}

// executing queries: they run the EVM on the (discarded) query context and legitimately write to it
var evmExecutingQueries = map[string]bool{"EthCall": true, "EstimateGas": true, "TraceTx": true, "TraceBlock": true}

func checkC08(e *Engine, r *Report) {
	e.BuildSSA()
	r.NotDecided("that a simulated result equals the result of delivering the same call next (behavioural prediction); only the search-bound/sentinel structure of EstimateGas is decided")
	r.NotDecided("equality of store hashes before/after a query as values")
	r.Assumption("gRPC query contexts are discarded cache branches (baseapp.CreateQueryContext): writes made by EthCall/EstimateGas/TraceTx/TraceBlock on the query context never reach committed state")
	r.Assumption("SimulateTx (baseapp) runs on a branched state that is never written back")

	ee := e.Effects()

	type qsrv struct{ typesPkg, keeperPkg, recv string }
	servers := []qsrv{
		{pkgEvmTypes, pkgEvmKeeper, "Keeper"},
		{pkgCpcTypes, pkgCpcKeeper, "queryServer"},
		{pkgFmTypes, pkgFmKeeper, "Keeper"},
		{pkgVauthTypes, pkgVauthKeeper, "queryServer"},
	}

	r.Rule("R1", "EFFECT", "every non-executing gRPC query handler of x/evm, x/cpc, x/feemarket and x/vauth reaches no store write, no event emission, and (in repository code) no store to a package-level variable", 15, func() {
		for _, s := range servers {
			qi := e.Iface(s.typesPkg, "QueryServer")
			// find the implementing receiver: the configured name, else any named type of the keeper package implementing the interface
			recvName := s.recv
			if e.TryMethodObj(s.keeperPkg, recvName, qi.Method(0).Name()) == nil {
				sc := e.Pkg(s.keeperPkg).Types.Scope()
				recvName = ""
				for _, n := range sc.Names() {
					if tn, ok := sc.Lookup(n).(*types.TypeName); ok {
						if nt, ok := tn.Type().(*types.Named); ok {
							if _, isI := nt.Underlying().(*types.Interface); !isI && (types.Implements(nt, qi) || types.Implements(types.NewPointer(nt), qi)) {
								recvName = n
							}
						}
					}
				}
				if recvName == "" {
					r.Undec("query server › "+shortPkg(s.keeperPkg), "", "no implementer of QueryServer found")
					continue
				}
			}
			for i := 0; i < qi.NumMethods(); i++ {
				mn := qi.Method(i).Name()
				if s.keeperPkg == pkgEvmKeeper && evmExecutingQueries[mn] {
					continue
				}
				fn := e.Fn(s.keeperPkg, recvName+"."+mn)
				key := "query › " + shortPkg(s.keeperPkg) + "." + mn
				hits := ee.Reach(fn, EffectOpts{Kinds: map[string]bool{EffStore: true, EffEvent: true}})
				if len(hits) > 0 {
					d, path := describeHits(hits)
					r.Bad(key, e.Pos(fn.Pos()), "a query handler can write state / emit events: "+d, path...)
					continue
				}
				// package-level variable writes in repository code reachable from the handler
				var gw []string
				for f := range ee.ReachSet([]*ssa.Function{fn}, EffectOpts{}) {
					if !ownedForReports(e, f) || f.Blocks == nil {
						continue
					}
					allInstrs(f, false, func(ff *ssa.Function, _ *ssa.BasicBlock, in ssa.Instruction) {
						if st, ok := in.(*ssa.Store); ok {
							if g, isG := st.Addr.(*ssa.Global); isG {
								gw = append(gw, fnKey(ff)+" writes "+g.Name()+" at "+e.Pos(st.Pos()))
							}
						}
					})
				}
				sort.Strings(gw)
				if len(gw) > 0 {
					r.Bad(key, e.Pos(fn.Pos()), "a query handler reaches a write of a package-level variable: "+gw[0])
				} else {
					r.OK(key, e.Pos(fn.Pos()), "no store write / event / global write reachable")
				}
			}
		}
	})

	amwc := e.Fn(pkgEvmKeeper, "Keeper.ApplyMessageWithConfig")
	specAMWC := CallSpec{pkgEvmKeeper, "Keeper", "ApplyMessageWithConfig"}

	r.Rule("R2", "CONST+MUST-PASS", "EthCall and EstimateGas (including its probe closure) pass the constant commit=false; ApplyMessageWithConfig / ApplyMessage reach CommitMultiStore only under the commit parameter; the committing trace handlers are reached only through gRPC registration", 5, func() {
		for _, nm := range []string{"EthCall", "EstimateGas"} {
			fn := e.Fn(pkgEvmKeeper, "Keeper."+nm)
			cs := callsTo(fn, true, specAMWC)
			ok := len(cs) > 0
			for _, c := range cs {
				b, isK := constBool(argOf(c, 3))
				if !isK || b {
					ok = false
				}
			}
			// no other route to a committing call: ApplyMessage(..., commit) wrapper
			for _, c := range callsTo(fn, true, CallSpec{pkgEvmKeeper, "Keeper", "ApplyMessage"}) {
				b, isK := constBool(argOf(c, 3))
				if !isK || b {
					ok = false
				}
			}
			for _, c := range callsIn(fn, true, func(c ssa.CallInstruction) bool { return isMethodNamed(c, "CommitMultiStore") }) {
				_ = c
				ok = false
			}
			r.Check(ok, "x/evm/keeper.Keeper."+nm+" › commit = false", e.Pos(fn.Pos()), "ApplyMessageWithConfig(…, commit=false, …)", nm+" can commit the StateDB (query/simulation path writes account state)")
		}
		commits := callsIn(amwc, false, func(c ssa.CallInstruction) bool { return isMethodNamed(c, "CommitMultiStore") })
		var gC []Guard
		for _, i := range ifs(amwc) {
			if resolveLocal(i.Cond) == ssa.Value(amwc.Params[4]) {
				gC = append(gC, Guard{If: i, Survive: 0})
			}
		}
		ok := len(commits) == 1 && mustPass(amwc, commits[0], gC)
		r.Check(ok, "ApplyMessageWithConfig › commit only when asked", e.Pos(amwc.Pos()), "CommitMultiStore under `if commit`", "the StateDB is committed although commit=false was requested")
		am := e.Fn(pkgEvmKeeper, "Keeper.ApplyMessage")
		okA := false
		for _, c := range callsTo(am, false, specAMWC) {
			okA = resolveLocal(argOf(c, 3)) == ssa.Value(am.Params[4])
		}
		r.Check(okA, "Keeper.ApplyMessage › forwards its commit flag", e.Pos(am.Pos()), "ApplyMessageWithConfig(…, commit, …)", "ApplyMessage does not forward the caller's commit flag")
		// who calls the committing trace handlers
		n := 0
		for _, nm := range []string{"TraceTx", "TraceBlock", "traceTx"} {
			fo := e.TryMethodObj(pkgEvmKeeper, "Keeper", nm)
			if fo == nil {
				continue
			}
			for _, cs := range e.repoCallSites(func(c ssa.CallInstruction) bool { return calleeObj(c) == fo }) {
				t := topFn(cs.Fn)
				n++
				okC := pkgPathOf(t) == pkgEvmKeeper && (t.Name() == "TraceTx" || t.Name() == "TraceBlock")
				r.Check(okC, "who calls the trace replays › "+fnKey(cs.Fn)+" → "+nm, e.Pos(cs.Call.Pos()), "only the gRPC trace handlers", "a committing trace replay is called from code that may run on a live context")
			}
		}
		_ = n
	})

	r.Rule("R3", "PROVENANCE+EFFECT", "the mempool trial execution (ELExecWithoutErrorDecorator) works only on ctx.CacheContext() whose write closure is discarded: every context-taking call uses that branch, or uses the original context only for write-free callees and for next()", 8, func() {
		fn := e.Fn(pkgEvmLane, "ELExecWithoutErrorDecorator.AnteHandle")
		ctxP := ssa.Value(fn.Params[1])
		var sim ssa.Value
		for _, c := range callsTo(fn, false, CallSpec{pkgSdkTypes, "Context", "CacheContext"}) {
			cc := c.(*ssa.Call)
			if cc.Referrers() == nil {
				continue
			}
			for _, rr := range *cc.Referrers() {
				if ex, ok := rr.(*ssa.Extract); ok && ex.Index == 0 {
					sim = ex
				}
			}
			r.Check(isDiscardedCacheCtx(sim), "993e › simulation context's write closure discarded", e.Pos(c.Pos()), "simulationCtx, _ := ctx.CacheContext()", "the write closure of the simulation branch is kept: the trial execution can be written back into check state")
		}
		if sim == nil {
			r.Bad("993e › simulation context", e.Pos(fn.Pos()), "the trial execution does not branch the context with CacheContext()")
			return
		}
		for _, f := range append([]*ssa.Function{fn}, fn.AnonFuncs...) {
			for _, c := range callsIn(f, false, func(c ssa.CallInstruction) bool { return true }) {
				cc := c.Common()
				var ops []ssa.Value
				if cc.IsInvoke() {
					ops = append(ops, cc.Value)
				}
				ops = append(ops, cc.Args...)
				for _, a := range ops {
					// keepers of SDK 0.50 take context.Context: look through the interface boxing
					if mi, ok := a.(*ssa.MakeInterface); ok && isSdkContext(mi.X.Type()) {
						a = mi.X
					}
					if !isSdkContext(a.Type()) {
						continue
					}
					name := calleeName(c)
					key := "993e › ctx of " + name
					av := resolveLocal(a)
					if f != fn && av != sim && av != ctxP {
						// inside a function literal the context is a captured variable: map it back to its binding
						sl := sliceFrom(av)
						if sl.HasValue(sim) { // sim itself derives from ctx through CacheContext(): test it first
							av = sim
						} else if sl.HasValue(ctxP) {
							av = ctxP
						}
					}
					switch {
					case av == sim:
						r.OK(key, e.Pos(c.Pos()), "simulation branch")
					case isNextCall(fn, c):
						r.Check(av == ctxP, key, e.Pos(c.Pos()), "next(ctx, …) with the untouched context", "next() is called with a context other than the original one")
					case av == ctxP:
						// must be write-free
						if isCallTo(c, CallSpec{pkgSdkTypes, "Context", "CacheContext"}) || isCallTo(c, CallSpec{pkgSdkTypes, "Context", "IsCheckTx"}) || isCallTo(c, CallSpec{pkgSdkTypes, "Context", "IsReCheckTx"}) {
							r.OK(key, e.Pos(c.Pos()), "context accessor")
							continue
						}
						var hits []EffectHit
						for _, callee := range calleesAt(ee, f, c) {
							hits = append(hits, ee.Reach(callee, EffectOpts{Kinds: map[string]bool{EffStore: true, EffEvent: true}})...)
							if k := ee.sinkKind(callee); k == EffStore || k == EffEvent {
								hits = append(hits, EffectHit{Kind: k, Sink: callee})
							}
						}
						d, path := describeHits(hits)
						if len(hits) == 0 {
							r.OK(key, e.Pos(c.Pos()), "original context, write-free callee")
						} else {
							r.Bad(key, e.Pos(c.Pos()), "the trial execution calls a state-writing function on the live check/simulate context instead of the discarded branch: "+d, path...)
						}
					default:
						r.Bad(key, e.Pos(c.Pos()), "a context that is neither the original nor the discarded simulation branch is used ("+describeValue(av)+")")
					}
				}
			}
		}
	})

	r.Rule("R4", "SHAPE", "EstimateGas: the value compared with the search result to detect 'no probed limit succeeded' is the very upper bound handed to BinSearch; in that case the bound is re-executed and a failure is returned as an error; a gas estimate is returned only if the search ended below the bound or the bound itself executed successfully", 3, func() {
		fn := e.Fn(pkgEvmKeeper, "Keeper.EstimateGas")
		bs := callsTo(fn, false, CallSpec{pkgEvmTypes, "", "BinSearch"})
		if len(bs) != 1 {
			r.Bad("EstimateGas › BinSearch", e.Pos(fn.Pos()), "not exactly one BinSearch call")
			return
		}
		b := bs[0].(*ssa.Call)
		ub, exec := b.Call.Args[1], b.Call.Args[2]
		var res ssa.Value
		if b.Referrers() != nil {
			for _, rr := range *b.Referrers() {
				if ex, ok := rr.(*ssa.Extract); ok && ex.Index == 0 {
					res = ex
				}
			}
		}
		if res == nil {
			r.Bad("EstimateGas › search result", e.Pos(b.Pos()), "the result of BinSearch is not used")
			return
		}
		var gNeq []Guard // surviving edge: result != bound
		var eqIf *ssa.If
		okSame := false
		for _, i := range ifs(fn) {
			bo, ok := i.Cond.(*ssa.BinOp)
			if !ok || (bo.Op != token.EQL && bo.Op != token.NEQ) {
				continue
			}
			var other ssa.Value
			if resolveLocal(bo.X) == res {
				other = bo.Y
			} else if resolveLocal(bo.Y) == res {
				other = bo.X
			} else {
				continue
			}
			eqIf = i
			okSame = sameLocal(other, ub)
			s := 1
			if bo.Op == token.NEQ {
				s = 0
			}
			gNeq = append(gNeq, Guard{If: i, Survive: s})
		}
		r.Check(eqIf != nil && okSame, "x/evm/keeper.Keeper.EstimateGas › sentinel is the search's upper bound", e.Pos(b.Pos()), "`hi == gasCap` compares with the bound given to BinSearch", "the value used to detect that the search never found a passing gas limit is not the upper bound actually searched: an un-tested bound is returned as the estimate (running the call with it runs out of gas)")
		if eqIf == nil {
			return
		}
		// on the equal edge: re-execution with the bound, failure → error
		var gNotFailed []Guard
		for _, c := range callsIn(fn, false, func(c ssa.CallInstruction) bool { return c.Common().Value == exec || sameLocal(c.Common().Value, exec) }) {
			cc, ok := c.(*ssa.Call)
			if !ok || len(cc.Call.Args) != 1 || resolveLocal(cc.Call.Args[0]) != res {
				continue
			}
			for _, i := range ifs(fn) {
				ex, isEx := i.Cond.(*ssa.Extract)
				if !isEx || ex.Index != 0 || ex.Tuple != ssa.Value(cc) {
					continue
				}
				g := Guard{If: i, Survive: 1}
				if failEdgeReturnsError(fn, g, nil) {
					gNotFailed = append(gNotFailed, g)
				}
			}
		}
		r.Check(len(gNotFailed) > 0, "EstimateGas › bound re-executed, failure is an error", e.Pos(eqIf.Pos()), "executable(hi) failed ⇒ error", "when the search ends at its upper bound the bound is not re-executed (or its failure is not reported)")
		okRet := false
		for _, ret := range successReturns(fn) {
			if !sliceFrom(ret.Results[0]).HasValue(res) {
				continue
			}
			okRet = mustPass(fn, ret, append(append([]Guard{}, gNeq...), gNotFailed...))
			if !okRet {
				break
			}
		}
		r.Check(okRet, "EstimateGas › estimate returned only if it executed successfully", e.Pos(fn.Pos()), "result < bound (a passing probe) or bound passed", "a gas estimate can be returned that was never executed successfully")
	})

	r.Rule("R5", "PROVENANCE", "request fields that select the block context reach it by data flow: the proposer override of GetCoinbaseAddress is the address that is resolved (not merely tested); TraceTx/TraceBlock hand req.ProposerAddress to EVMConfig; EthCall/EstimateGas price with cfg.BaseFee of the query context and disable the base-fee check", 4, func() {
		gc := e.Fn(pkgEvmKeeper, "Keeper.GetCoinbaseAddress")
		ovr := ssa.Value(gc.Params[2])
		ok := false
		for _, c := range callsIn(gc, false, func(c ssa.CallInstruction) bool { return isMethodNamed(c, "GetValidatorByConsAddr") }) {
			a := c.Common().Args
			ok = sliceFrom(a[len(a)-1]).HasValue(ovr)
		}
		r.Check(ok, "x/evm/keeper.Keeper.GetCoinbaseAddress › override is the address resolved", e.Pos(gc.Pos()), "GetValidatorByConsAddr(ctx, override-or-header proposer)", "the proposer-address override influences no value (only a branch): traces run with the wrong coinbase")
		for _, nm := range []string{"TraceTx", "TraceBlock"} {
			fn := e.Fn(pkgEvmKeeper, "Keeper."+nm)
			okT := false
			for _, c := range callsTo(fn, false, CallSpec{pkgEvmKeeper, "Keeper", "EVMConfig"}) {
				okT = hasFieldLoad(sliceFrom(argOf(c, 1)), "", "ProposerAddress")
			}
			r.Check(okT, "Keeper."+nm+" › EVMConfig(ctx, req.ProposerAddress)", e.Pos(fn.Pos()), "proposer override handed on", nm+" does not hand the request's proposer address to the EVM config")
		}
		fn := e.Fn(pkgEvmKeeper, "Keeper.EthCall")
		okB := false
		for _, c := range callsIn(fn, false, func(c ssa.CallInstruction) bool { return isMethodNamed(c, "ToMessage") }) {
			a := c.Common().Args
			okB = hasFieldLoad(sliceFrom(a[len(a)-1]), "EVMConfig", "BaseFee") && hasFieldLoad(sliceFrom(a[len(a)-2]), "EthCallRequest", "GasCap")
		}
		r.Check(okB, "Keeper.EthCall › message built with (req.GasCap, cfg.BaseFee)", e.Pos(fn.Pos()), "args.ToMessage(req.GasCap, cfg.BaseFee)", "eth_call does not cap gas with the request's gas cap / price with the context's base fee")
	})
	_ = strings.HasPrefix

	r.Rule("R8", "PROVENANCE", "a gas estimate is a limit that was actually probed: in the bisection BinSearch the value returned (hi) is only ever the initial upper bound or a midpoint whose probe executable(mid) reported success — never a number derived from a probe's result (gas USED with spare gas is below the gas REQUIRED: refunds, the 63/64 rule)", 2, func() {
		bs := e.Fn(pkgEvmTypes, "BinSearch")
		hiP := ssa.Value(bs.Params[1])
		execP := ssa.Value(bs.Params[2])
		var probes []*ssa.Call
		for _, c := range callsIn(bs, false, func(c ssa.CallInstruction) bool { return c.Common().Value == execP }) {
			if cc, ok := c.(*ssa.Call); ok {
				probes = append(probes, cc)
			}
		}
		okRet := len(probes) == 1 && len(returnsOf(bs)) > 0
		var visit func(v ssa.Value, at *ssa.BasicBlock, seen map[ssa.Value]bool) bool
		visit = func(v ssa.Value, at *ssa.BasicBlock, seen map[ssa.Value]bool) bool {
			if seen[v] {
				return true
			}
			seen[v] = true
			if v == hiP {
				return true
			}
			if phi, ok := v.(*ssa.Phi); ok {
				for k, ev := range phi.Edges {
					if !visit(ev, phi.Block().Preds[k], seen) {
						return false
					}
				}
				return true
			}
			// the probed midpoint, arriving from the success side of its probe
			if len(probes) == 1 && v == probes[0].Call.Args[0] {
				for _, i := range ifs(bs) {
					cond, neg := i.Cond, false
					if u, isU := cond.(*ssa.UnOp); isU && u.Op == token.NOT {
						cond, neg = u.X, true
					}
					ex, isEx := cond.(*ssa.Extract)
					if !isEx || ex.Tuple != ssa.Value(probes[0]) || ex.Index != 0 {
						continue
					}
					surv := 1 // `failed` false ⇒ success
					if neg {
						surv = 0
					}
					if at == i.Block().Succs[surv] || blockDominatedByEdge(bs, at, Guard{If: i, Survive: surv}) {
						return true
					}
				}
			}
			return false
		}
		for _, ret := range successReturns(bs) {
			if !visit(ret.Results[0], ret.Block(), map[ssa.Value]bool{}) {
				okRet = false
			}
		}
		r.Check(okRet, "x/evm/types.BinSearch › the estimate is the initial bound or a successfully probed midpoint", e.Pos(bs.Pos()), "hi ∈ {hi₀} ∪ {mid : executable(mid) succeeded}", "the bisection can return a limit it never executed successfully (e.g. a probe's gas used): delivering the call with the estimate as gas limit runs out of gas")
		// the midpoint lies strictly between the bounds
		okMid := false
		if len(probes) == 1 {
			sl := sliceFrom(probes[0].Call.Args[0])
			okMid = sl.Has(func(v ssa.Value) bool { b, ok := v.(*ssa.BinOp); return ok && b.Op == token.QUO }) && sl.Has(func(v ssa.Value) bool { b, ok := v.(*ssa.BinOp); return ok && b.Op == token.ADD })
		}
		r.Check(okMid, "x/evm/types.BinSearch › probes the midpoint", e.Pos(bs.Pos()), "mid = (hi + lo) / 2", "the probe is not the midpoint of the current bounds")
	})

	r.Rule("R7", "PROVENANCE+EFFECT", "simulations run on the StateDB's cache branch only: every sdk.Context a StateDB method passes on is the current cache context, and the caller's original context (the committed state a query was given) reaches only write-free callees — a write through it would persist although CommitMultiStore is never called for commit=false (shared with C03-R2)", 30, func() {
		stateDbCtxDiscipline(e, r)
	})

	r.Rule("R6", "SIBLING-SCOPE", "simulated and delivered executions run the same state transition: the flag that only the delivery path raises (SenderPaidTheFee, set by the fee-deduction ante decorator) conditions nothing in the copied state transition except the credit of the unused-gas refund to the sender — in particular not the refund counter, the gas accounting or the gas pool (eth_call / tracing report the gas a delivery would use)", 1, func() {
		off, n := deliveryFlagScope(e)
		r.Check(len(off) == 0 && n > 0, "x/evm/keeper.StateTransition › only the sender credit depends on SenderPaidTheFee", e.Pos(e.Fn(pkgEvmKeeper, "StateTransition.refundGas").Pos()), itoa(n)+" statement(s) under the flag, all of them the credit or pure local computation", "gas accounting differs between simulation (flag unset) and delivery (flag set): "+strings.Join(off, "; "))
	})
}

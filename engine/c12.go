package main

import (
	"fmt"
	"go/constant"
	"go/token"
	"go/types"
	"sort"

	"golang.org/x/tools/go/ssa"
)

func init() {
	registry["C12"] = checkC12
	needsL4["C12"] = true
}

const pkgGethVM = GETH + "/core/vm"

// Executor is one implementer of the precompile method executor interface.
type Executor struct {
	Type     *types.Named
	Execute  *ssa.Function
	ReadOnly *ssa.Function
	Gas      *ssa.Function
	Sig      *ssa.Function
}

func (x *Executor) Name() string { return x.Type.Obj().Name() }

// executorCensus enumerates every named type of x/cpc/keeper implementing ExtendedCustomPrecompiledContractMethodExecutorI.
func executorCensus(e *Engine) []*Executor {
	e.BuildSSA()
	iface := e.Iface(pkgCpcKeeper, "ExtendedCustomPrecompiledContractMethodExecutorI")
	sc := e.Pkg(pkgCpcKeeper).Types.Scope()
	var out []*Executor
	for _, n := range sc.Names() {
		tn, ok := sc.Lookup(n).(*types.TypeName)
		if !ok {
			continue
		}
		named, ok := types.Unalias(tn.Type()).(*types.Named)
		if !ok {
			continue
		}
		if _, isI := named.Underlying().(*types.Interface); isI {
			continue
		}
		if !types.Implements(named, iface) && !types.Implements(types.NewPointer(named), iface) {
			continue
		}
		x := &Executor{Type: named}
		get := func(m string) *ssa.Function {
			fo := e.MethodObj(pkgCpcKeeper, n, m)
			f := e.Prog.FuncValue(fo)
			if f == nil || f.Blocks == nil {
				undecidedf("no SSA body for %s.%s", n, m)
			}
			return f
		}
		x.Execute, x.ReadOnly, x.Gas, x.Sig = get("Execute"), get("ReadOnly"), get("RequireGas"), get("Method4BytesSignatures")
		out = append(out, x)
	}
	sort.Slice(out, func(i, j int) bool { return out[i].Name() < out[j].Name() })
	return out
}

// constResult: the single constant every return of fn yields (following delegation to other in-repo functions), if any.
func constResult(fn *ssa.Function, depth int) (constant.Value, bool) {
	if fn == nil || fn.Blocks == nil {
		return nil, false
	}
	var val constant.Value
	for _, ret := range returnsOf(fn) {
		if len(ret.Results) != 1 {
			return nil, false
		}
		v, ok := constValue(ret.Results[0], depth)
		if !ok {
			return nil, false
		}
		if val != nil && !constant.Compare(val, token.EQL, v) {
			return nil, false
		}
		val = v
	}
	return val, val != nil
}

func constValue(v ssa.Value, depth int) (constant.Value, bool) {
	switch x := v.(type) {
	case *ssa.Const:
		if x.Value == nil {
			return nil, false
		}
		return x.Value, true
	case *ssa.Convert:
		return constValue(x.X, depth)
	case *ssa.ChangeType:
		return constValue(x.X, depth)
	case *ssa.Call:
		if depth > 0 {
			if c := x.Call.StaticCallee(); c != nil {
				return constResult(c, depth-1)
			}
		}
	case *ssa.BinOp:
		a, ok1 := constValue(x.X, depth)
		b, ok2 := constValue(x.Y, depth)
		if ok1 && ok2 {
			switch x.Op {
			case token.ADD, token.SUB, token.MUL, token.QUO:
				if a.Kind() == constant.Int && b.Kind() == constant.Int {
					if x.Op == token.QUO {
						if constant.Sign(b) == 0 {
							return nil, false
						}
						return constant.BinaryOp(a, token.QUO_ASSIGN, b), true
					}
					return constant.BinaryOp(a, x.Op, b), true
				}
			}
		}
	}
	return nil, false
}

func checkC12(e *Engine, r *Report) {
	e.BuildSSA()
	r.NotDecided("gas amounts beyond 'state-changing methods charge a non-zero constant'")
	r.NotDecided("standard (non-custom) precompiles and opcode-level write protection of the interpreter (upstream go-ethereum, trusted)")
	r.Assumption("a call on a CacheContext branch whose write closure is discarded cannot change committed or frame state (isolation exemption)")
	xs := executorCensus(e)
	ee := e.Effects()

	type effInfo struct {
		hits []EffectHit
	}
	eff := map[*Executor]effInfo{}
	for _, x := range xs {
		eff[x] = effInfo{hits: ee.Reach(x.Execute, EffectOpts{MaxHits: 2})}
	}

	r.Rule("R1", "PROVENANCE(fork)", "the read-only flag handed to CustomPrecompiledContract.RunCustom by EVMInterpreter.RunPrecompiledContract depends on the interpreter's inherited read-only state, not only on the call opcode's parameter", 1, func() {
		fn := e.Fn(pkgGethVM, "EVMInterpreter.RunPrecompiledContract")
		calls := callsTo(fn, false, CallSpec{pkgGethVM, "CustomPrecompiledContract", "RunCustom"})
		if len(calls) == 0 {
			undecidedf("RunCustom is not called from RunPrecompiledContract")
		}
		for _, c := range calls {
			args := c.Common().Args
			ro := args[3] // recv, caller, input, readOnly, evm
			sl := backSlice(ro, SliceOpts{})
			inherits := sl.Has(func(v ssa.Value) bool {
				fv := fieldVar(v)
				return fv != nil && fv.Name() == "readOnly"
			})
			r.Check(inherits, "core/vm.EVMInterpreter.RunPrecompiledContract › RunCustom readOnly argument", e.Pos(c.Pos()), "argument derives from in.readOnly",
				"RunCustom receives only the opcode's readOnly parameter ("+sl.Describe()+"); EVM.Call/CallCode/DelegateCall pass false, so inside a STATICCALL frame a nested CALL to a state-changing precompile method is executed")
		}
	})

	r.Rule("R2", "EFFECT", "every executor whose ReadOnly() is (or may be) true reaches no store write, event emission or EVM log from Execute, over the VTA call graph (calls on a discarded cache context are write-free)", 20, func() {
		for _, x := range xs {
			ro, isConst := constResult(x.ReadOnly, 2)
			if isConst && !constant.BoolVal(ro) {
				continue
			}
			hits := eff[x].hits
			key := "x/cpc/keeper." + x.Name() + ".Execute"
			if len(hits) == 0 {
				r.OK(key, e.Pos(x.Execute.Pos()), "no effect sink reachable")
			} else {
				d, p := describeHits(hits)
				r.Bad(key, e.Pos(x.Execute.Pos()), "declared read-only but can reach: "+d, p...)
			}
		}
	})

	r.Rule("R6", "EFFECT", "the method dispatcher itself (customPrecompiledContractMethodExecutorImpl.Execute, run for read-only and state-changing methods alike) reaches no store write, event or log apart from the executor it dispatches to — a bookkeeping write placed there happens inside STATICCALL and for every view", 1, func() {
		disp := e.Fn(pkgCpcKeeper, "customPrecompiledContractMethodExecutorImpl.Execute")
		var hits []EffectHit
		n := 0
		for _, c := range callsIn(disp, true, func(ssa.CallInstruction) bool { return true }) {
			cc := c.Common()
			if _, isB := cc.Value.(*ssa.Builtin); isB {
				continue
			}
			if cc.IsInvoke() && cc.Method.Name() == "Execute" {
				continue // the dispatch to the executor: judged per executor by R2/R3
			}
			n++
			for _, callee := range calleesAt(ee, c.Parent(), c) {
				if k := ee.sinkKind(callee); k != "" {
					hits = append(hits, EffectHit{Kind: k, Sink: callee})
					continue
				}
				hits = append(hits, ee.Reach(callee, EffectOpts{MaxHits: 1})...)
			}
		}
		key := "x/cpc/keeper.customPrecompiledContractMethodExecutorImpl.Execute › dispatcher writes nothing"
		if len(hits) == 0 && n > 0 {
			r.OK(key, e.Pos(disp.Pos()), itoa(n)+" calls besides the dispatch, none reaches an effect sink")
		} else {
			d, p := describeHits(hits)
			r.Bad(key, e.Pos(disp.Pos()), "the dispatcher, which also runs for read-only methods and inside STATICCALL, can reach: "+d, p...)
		}
	})

	r.Rule("R3", "EFFECT+CONST", "every executor that can reach an effect sink declares ReadOnly() == false (constant) and RequireGas() is a constant > 0; RequireGas of every non-read-only executor is a non-zero constant", 10, func() {
		for _, x := range xs {
			ro, roConst := constResult(x.ReadOnly, 2)
			gas, gasConst := constResult(x.Gas, 3)
			writes := len(eff[x].hits) > 0
			key := "x/cpc/keeper." + x.Name()
			declaredRW := roConst && !constant.BoolVal(ro)
			if !writes && !declaredRW {
				continue
			}
			if writes {
				d, _ := describeHits(eff[x].hits)
				r.Check(declaredRW, key+" › writer declares ReadOnly()==false", e.Pos(x.ReadOnly.Pos()), "constant false", "executor can reach "+d+" but ReadOnly() is not the constant false")
			}
			if declaredRW || writes {
				okGas := gasConst && gas.Kind() == constant.Int && constant.Sign(gas) > 0
				// the not-supported stub computes gas from its flag: non-constant but guarded
				r.Check(okGas, key+" › non-zero gas", e.Pos(x.Gas.Pos()), fmt.Sprintf("RequireGas() = %v", gas), "state-changing method does not charge a non-zero constant gas (RequireGas() not a positive constant)")
			}
		}
		// non-constant ReadOnly(): RequireGas must be non-zero on the path where ReadOnly is false (the stub): checked structurally
		for _, x := range xs {
			if _, roConst := constResult(x.ReadOnly, 2); roConst {
				continue
			}
			// every return of RequireGas yielding 0 must be dominated by the true edge of the same flag ReadOnly() returns
			okStub := true
			roField := returnedField(x.ReadOnly)
			for _, ret := range returnsOf(x.Gas) {
				v, isC := constValue(ret.Results[0], 0)
				if !isC {
					okStub = false
					continue
				}
				if constant.Sign(v) == 0 {
					gs := fieldFlagGuards(x.Gas, roField, true)
					if roField == nil || !mustPass(x.Gas, ret, gs) {
						okStub = false
					}
				}
			}
			r.Check(okStub, "x/cpc/keeper."+x.Name()+" › zero gas only when read-only", e.Pos(x.Gas.Pos()), "RequireGas()==0 only under the flag ReadOnly() returns", "executor with a run-time ReadOnly() flag can report zero gas while not read-only")
		}
	})

	r.Rule("R4", "MUST-PASS(fork)", "dispatch: in RunCustom the executor is invoked only if !(readOnly && !method.ReadOnly); RunPrecompiledContract rejects inputs shorter than 4 bytes and insufficient gas before dispatch and refuses disabled contracts", 4, func() {
		rc := e.Fn(pkgGethVM, "CustomPrecompiledContract.RunCustom")
		var exec []ssa.CallInstruction
		for _, c := range callsIn(rc, false, func(c ssa.CallInstruction) bool { return isMethodNamed(c, "Execute") }) {
			exec = append(exec, c)
		}
		if len(exec) == 0 {
			undecidedf("no Execute call in RunCustom")
		}
		roParam := rc.Params[3]
		var gs []Guard
		for _, i := range ifs(rc) {
			if strip(i.Cond) == ssa.Value(roParam) {
				gs = append(gs, Guard{If: i, Survive: 1, Desc: "!readOnly"})
			}
			if fv := fieldVarOfLoad(i.Cond); fv != nil && fv.Name() == "ReadOnly" {
				gs = append(gs, Guard{If: i, Survive: 0, Desc: "method.ReadOnly"})
			}
		}
		for _, c := range exec {
			r.Check(mustPass(rc, c, gs), "core/vm.CustomPrecompiledContract.RunCustom › write protection", e.Pos(c.Pos()), "Execute dominated by !(readOnly && !method.ReadOnly)", "a method that is not read-only can be executed although the readOnly argument is set")
		}
		rp := e.Fn(pkgGethVM, "EVMInterpreter.RunPrecompiledContract")
		run := callsTo(rp, false, CallSpec{pkgGethVM, "CustomPrecompiledContract", "RunCustom"})
		gasCalls := callsTo(rp, false, CallSpec{pkgGethVM, "CustomPrecompiledContract", "RequiredGas"})
		inputP := rp.Params[3]
		var lenG, gasG, disG []Guard
		for _, i := range ifs(rp) {
			b, ok := i.Cond.(*ssa.BinOp)
			if ok && b.Op == token.LSS {
				if c, isC := callOf(b.X); isC >= -1 && c != nil {
					if bi, isB := c.Call.Value.(*ssa.Builtin); isB && bi.Name() == "len" && c.Call.Args[0] == ssa.Value(inputP) {
						if k, isK := constInt(b.Y); isK && k >= 4 {
							lenG = append(lenG, Guard{If: i, Survive: 1})
						}
					}
				}
				if len(gasCalls) > 0 {
					if c, _ := callOf(b.Y); c != nil && c == gasCalls[0].(*ssa.Call) && b.X == ssa.Value(rp.Params[4]) {
						gasG = append(gasG, Guard{If: i, Survive: 1})
					}
				}
			}
			if fv := fieldVarOfLoad(i.Cond); fv != nil && fv.Name() == "disabled" {
				disG = append(disG, Guard{If: i, Survive: 1})
			}
		}
		for _, c := range run {
			r.Check(mustPass(rp, c, lenG), "core/vm.EVMInterpreter.RunPrecompiledContract › len(input) >= 4", e.Pos(c.Pos()), "short input rejected before dispatch", "input shorter than 4 bytes reaches input[:4] (run-time panic)")
			r.Check(mustPass(rp, c, gasG), "core/vm.EVMInterpreter.RunPrecompiledContract › gas charged first", e.Pos(c.Pos()), "suppliedGas < RequiredGas(input) rejected before dispatch", "the method is executed without the gas requirement having been checked")
			r.Check(mustPass(rp, c, disG), "core/vm.EVMInterpreter.RunPrecompiledContract › disabled refused", e.Pos(c.Pos()), "disabled contracts are refused before dispatch", "a disabled custom precompile can still be executed")
		}
		for _, c := range gasCalls {
			r.Check(mustPass(rp, c, lenG), "core/vm.EVMInterpreter.RunPrecompiledContract › len guard before RequiredGas", e.Pos(c.Pos()), "short input rejected before RequiredGas slices it", "RequiredGas slices input[:4] before the length guard")
		}
	})

	r.Rule("R5", "WIRING", "NewCustomPrecompiledContractMethod copies Method4BytesSignatures / RequireGas / ReadOnly from the very executor it wraps; no other code builds the method record", 4, func() {
		fn := e.Fn(pkgCpcKeeper, "NewCustomPrecompiledContractMethod")
		execP := fn.Params[0]
		want := map[string]string{"Method4BytesSignatures": "Method4BytesSignatures", "RequireGas": "RequireGas", "ReadOnly": "ReadOnly"}
		got := map[string]bool{}
		wrapped := false
		allInstrs(fn, false, func(_ *ssa.Function, _ *ssa.BasicBlock, in ssa.Instruction) {
			st, ok := in.(*ssa.Store)
			if !ok {
				return
			}
			fv := fieldVar(st.Addr)
			if fv == nil {
				return
			}
			if m, ok := want[fv.Name()]; ok && fv.Pkg() != nil && fv.Pkg().Path() == pkgGethVM {
				c, _ := callOf(st.Val)
				if c != nil && c.Call.IsInvoke() && c.Call.Method.Name() == m && c.Call.Value == ssa.Value(execP) {
					got[fv.Name()] = true
				}
			}
			if fv.Name() == "executor" && st.Val == ssa.Value(execP) {
				wrapped = true
			}
		})
		for f := range want {
			r.Check(got[f], "NewCustomPrecompiledContractMethod › "+f, e.Pos(fn.Pos()), "= executor."+f+"()", "field "+f+" of the method record is not taken from the wrapped executor's "+f+"(): the dispatcher's write protection / gas no longer describes the code that runs")
		}
		r.Check(wrapped, "NewCustomPrecompiledContractMethod › wraps the same executor", e.Pos(fn.Pos()), "Executor wraps the parameter", "the wrapped executor is not the one the flags were read from")
		// who else stores the ReadOnly field of the geth method record?
		n := 0
		for _, f := range e.SrcFuncs(e.RepoOwned) {
			if f == fn || IsGenerated(e.File(f.Pos())) {
				continue
			}
			allInstrs(f, false, func(_ *ssa.Function, _ *ssa.BasicBlock, in ssa.Instruction) {
				if st, ok := in.(*ssa.Store); ok {
					if fv := fieldVar(st.Addr); fv != nil && fv.Name() == "ReadOnly" && fv.Pkg() != nil && fv.Pkg().Path() == pkgGethVM {
						n++
						r.Bad("method record built outside NewCustomPrecompiledContractMethod › "+fnKey(f), e.Pos(st.Pos()), "CustomPrecompiledContractMethod.ReadOnly is written outside the single constructor")
					}
				}
			})
		}
		if n == 0 {
			r.OK("method record built only by NewCustomPrecompiledContractMethod", e.Pos(fn.Pos()), "single constructor")
		}
	})
	r.Count("executors", len(xs))
}

// fieldVarOfLoad: v is a load/selection of a struct field → that field.
func fieldVarOfLoad(v ssa.Value) *types.Var {
	v = strip(v)
	if u, ok := v.(*ssa.UnOp); ok && u.Op == token.MUL {
		return fieldVar(u.X)
	}
	return fieldVar(v)
}

// returnedField: fn returns exactly a field of its receiver → that field.
func returnedField(fn *ssa.Function) *types.Var {
	var fv *types.Var
	for _, ret := range returnsOf(fn) {
		if len(ret.Results) != 1 {
			return nil
		}
		f := fieldVarOfLoad(ret.Results[0])
		if f == nil || (fv != nil && f != fv) {
			return nil
		}
		fv = f
	}
	return fv
}

// fieldFlagGuards: Ifs whose condition is a read of the boolean field fv.
func fieldFlagGuards(fn *ssa.Function, fv *types.Var, surviveWhen bool) []Guard {
	var gs []Guard
	if fv == nil {
		return nil
	}
	for _, i := range ifs(fn) {
		if fieldVarOfLoad(i.Cond) == fv {
			s := 1
			if surviveWhen {
				s = 0
			}
			gs = append(gs, Guard{If: i, Survive: s})
		}
	}
	return gs
}

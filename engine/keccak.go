package main

// Minimal Keccak-256 (the pre-NIST padding Ethereum uses), so that the checker can recompute 4-byte selectors without
// any dependency. Verified at start-up against the known selector of transfer(address,uint256) = a9059cbb.

var keccakRC = [24]uint64{
	0x0000000000000001, 0x0000000000008082, 0x800000000000808A, 0x8000000080008000, 0x000000000000808B, 0x0000000080000001,
	0x8000000080008081, 0x8000000000008009, 0x000000000000008A, 0x0000000000000088, 0x0000000080008009, 0x000000008000000A,
	0x000000008000808B, 0x800000000000008B, 0x8000000000008089, 0x8000000000008003, 0x8000000000008002, 0x8000000000000080,
	0x000000000000800A, 0x800000008000000A, 0x8000000080008081, 0x8000000000008080, 0x0000000080000001, 0x8000000080008008,
}

var keccakRot = [24]uint{1, 3, 6, 10, 15, 21, 28, 36, 45, 55, 2, 14, 27, 41, 56, 8, 25, 43, 62, 18, 39, 61, 20, 44}
var keccakPil = [24]int{10, 7, 11, 17, 18, 3, 5, 16, 8, 21, 24, 4, 15, 23, 19, 13, 12, 2, 20, 14, 22, 9, 6, 1}

func keccakF(a *[25]uint64) {
	var bc [5]uint64
	for r := 0; r < 24; r++ {
		for i := 0; i < 5; i++ {
			bc[i] = a[i] ^ a[i+5] ^ a[i+10] ^ a[i+15] ^ a[i+20]
		}
		for i := 0; i < 5; i++ {
			t := bc[(i+4)%5] ^ (bc[(i+1)%5]<<1 | bc[(i+1)%5]>>63)
			for j := 0; j < 25; j += 5 {
				a[j+i] ^= t
			}
		}
		t := a[1]
		for i := 0; i < 24; i++ {
			j := keccakPil[i]
			b := a[j]
			a[j] = t<<keccakRot[i] | t>>(64-keccakRot[i])
			t = b
		}
		for j := 0; j < 25; j += 5 {
			for i := 0; i < 5; i++ {
				bc[i] = a[j+i]
			}
			for i := 0; i < 5; i++ {
				a[j+i] ^= (^bc[(i+1)%5]) & bc[(i+2)%5]
			}
		}
		a[0] ^= keccakRC[r]
	}
}

func keccak256(data []byte) [32]byte {
	const rate = 136
	var st [25]uint64
	buf := append([]byte{}, data...)
	buf = append(buf, 0x01)
	for len(buf)%rate != 0 {
		buf = append(buf, 0)
	}
	buf[len(buf)-1] |= 0x80
	for off := 0; off < len(buf); off += rate {
		for i := 0; i < rate/8; i++ {
			var v uint64
			for k := 0; k < 8; k++ {
				v |= uint64(buf[off+i*8+k]) << (8 * uint(k))
			}
			st[i] ^= v
		}
		keccakF(&st)
	}
	var out [32]byte
	for i := 0; i < 4; i++ {
		for k := 0; k < 8; k++ {
			out[i*8+k] = byte(st[i] >> (8 * uint(k)))
		}
	}
	return out
}

func keccakSelfTest() bool {
	h := keccak256([]byte("transfer(address,uint256)"))
	return h[0] == 0xa9 && h[1] == 0x05 && h[2] == 0x9c && h[3] == 0xbb
}

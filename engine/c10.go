package main

import (
	"go/token"
	"go/types"
	"strings"

	"golang.org/x/tools/go/ssa"
)

func init() {
	registry["C10"] = checkC10
}

const tErc20TF = "erc20CustomPrecompiledContractRwTransferFrom"

var bankMutators = map[string]bool{
	"SendCoins": true, "SendCoinsFromAccountToModule": true, "SendCoinsFromModuleToAccount": true, "SendCoinsFromModuleToModule": true,
	"BurnCoins": true, "MintCoins": true, "DelegateCoins": true, "UndelegateCoins": true,
	"DelegateCoinsFromAccountToModule": true, "UndelegateCoinsFromModuleToAccount": true, "InputOutputCoins": true, "SetBalance": true, "SetBalances": true,
}

// isBankCall: a call of method `name` on a value whose (interface or concrete) type is a bank keeper.
func isBankCall(c ssa.CallInstruction, names map[string]bool) bool {
	fo := calleeObj(c)
	if fo == nil || !names[fo.Name()] {
		return false
	}
	rn := recvNamed(fo)
	var tn, tp string
	if rn != nil {
		tn, tp = rn.Obj().Name(), rn.Obj().Pkg().Path()
	} else if c.Common().IsInvoke() {
		tn = namedTypeName(c.Common().Value.Type())
		tp = namedTypePath(c.Common().Value.Type())
	}
	return strings.Contains(tn, "BankKeeper") || strings.Contains(tp, "x/bank/keeper")
}

func checkC10(e *Engine, r *Report) {
	e.BuildSSA()
	r.NotDecided("balance arithmetic inside x/bank (SendCoins/BurnCoins move exactly `coins`): trusted")
	r.NotDecided("numeric equality of balanceOf/totalSupply with bank over all histories: only the wiring of the views to bank GetBalance/GetSupply of the contract's denomination is decided")
	r.Assumption("ABI decoding (accounts/abi) yields ips[i] of the declared type; uint256 inputs are non-negative")

	_ = e.Fn(pkgCpcKeeper, tErc20TF+".Execute")
	transfer := e.Fn(pkgCpcKeeper, tErc20TF+".transfer")
	spend := e.Fn(pkgCpcKeeper, tErc20TF+".spendAllowance")
	approve := e.Fn(pkgCpcKeeper, "erc20CustomPrecompiledContractRwApprove.Execute")
	specTransfer := CallSpec{pkgCpcKeeper, tErc20TF, "transfer"}
	specSpend := CallSpec{pkgCpcKeeper, tErc20TF, "spendAllowance"}
	specSetAllow := CallSpec{pkgCpcKeeper, "Keeper", "SetErc20CpcAllowance"}
	specGetAllow := CallSpec{pkgCpcKeeper, "Keeper", "GetErc20CpcAllowance"}
	specAllowKey := CallSpec{pkgCpcTypes, "", "Erc20CustomPrecompiledContractAllowanceKey"}

	moverRegion := e.privateRegion(transfer)
	var erc20Exec []*Executor
	for _, x := range executorCensus(e) {
		if strings.HasPrefix(x.Name(), "erc20") {
			erc20Exec = append(erc20Exec, x)
		}
	}

	r.Rule("R1", "WHO-MAY-CALL", "in x/cpc/keeper the only bank mutators called from ERC-20 precompile code sit in …RwTransferFrom.transfer (SendCoins, or SendCoinsFromAccountToModule+BurnCoins); allowances are written only by SetErc20CpcAllowance, called only from approve and spendAllowance; the allowance key is built only by the setter and the getter", 7, func() {
		nBank := 0
		for _, cs := range e.repoCallSites(func(c ssa.CallInstruction) bool { return isBankCall(c, bankMutators) }) {
			top := topFn(cs.Fn)
			if pkgPathOf(top) != pkgCpcKeeper {
				continue
			}
			rn := recvNamedOfSig(top.Signature)
			if rn == nil || !strings.HasPrefix(rn.Obj().Name(), "erc20") {
				continue
			}
			nBank++
			nm := calleeObj(cs.Call).Name()
			ok := moverRegion.in[top] && (nm == "SendCoins" || nm == "SendCoinsFromAccountToModule" || nm == "BurnCoins")
			r.Check(ok, "bank mutator › "+fnKey(cs.Fn)+" › "+nm, e.Pos(cs.Call.Pos()), "in transfer()", "ERC-20 precompile code moves/mints/burns coins outside the single transfer() mover or with a primitive other than SendCoins / SendCoinsFromAccountToModule+BurnCoins: bypasses the caller-or-allowance check or the Transfer log")
		}
		if nBank < 3 {
			r.Bad("bank mutators in transfer()", e.Pos(transfer.Pos()), "fewer than the three bank calls (SendCoins, SendCoinsFromAccountToModule, BurnCoins) found in the ERC-20 mover")
		}
		for _, cs := range e.repoCallSites(func(c ssa.CallInstruction) bool { return isCallTo(c, specSetAllow) }) {
			top := topFn(cs.Fn)
			r.Check(top == approve || top == spend, "allowance writer › "+fnKey(cs.Fn), e.Pos(cs.Call.Pos()), "approve / spendAllowance", "SetErc20CpcAllowance is called from a place other than approve and spendAllowance: an allowance changes without the owner's approve")
		}
		setFn := e.Fn(pkgCpcKeeper, "Keeper.SetErc20CpcAllowance")
		getFn := e.Fn(pkgCpcKeeper, "Keeper.GetErc20CpcAllowance")
		for _, cs := range e.repoCallSites(func(c ssa.CallInstruction) bool { return isCallTo(c, specAllowKey) }) {
			top := topFn(cs.Fn)
			r.Check(top == setFn || top == getFn, "allowance key user › "+fnKey(cs.Fn), e.Pos(cs.Call.Pos()), "setter/getter only", "the allowance store key is built outside SetErc20CpcAllowance/GetErc20CpcAllowance (a second writer or deleter of allowances)")
		}
		// the allowance record must belong to ONE token: the key has to include the precompile's own address
		kf := e.Fn(pkgCpcTypes, "Erc20CustomPrecompiledContractAllowanceKey")
		nAddr := 0
		for _, p := range kf.Params {
			if namedTypePath(p.Type()) == GETH+"/common.Address" {
				nAddr++
			}
		}
		scoped := nAddr >= 3
		if scoped {
			// and the executors must hand their contract address down to the setter/getter
			for _, f := range []*ssa.Function{approve, spend} {
				for _, c := range callsTo(f, false, specSetAllow, specGetAllow) {
					has := false
					for _, a := range c.Common().Args {
						sl := sliceFrom(a)
						if sl.Has(func(v ssa.Value) bool { pp, ok := v.(*ssa.Parameter); return ok && pp.Name() == "contractAddr" }) || hasFieldLoad(sl, "CustomPrecompiledContractMeta", "Address") {
							has = true
						}
					}
					if !has {
						scoped = false
					}
				}
			}
		}
		r.Check(scoped, "x/cpc/types.Erc20CustomPrecompiledContractAllowanceKey › allowance scoped by token contract", e.Pos(kf.Pos()), "key(contract, owner, spender)", "the allowance record is keyed by (owner, spender) only: an allowance approved on one ERC-20 precompile is spendable through every other ERC-20 precompile (another denomination), and spending on one token reduces the allowance of all")
		// setter and getter use the same (owner, spender) order
		for _, f := range []*ssa.Function{setFn, getFn} {
			ks := callsTo(f, false, specAllowKey)
			ok := len(ks) == 1 && resolveLocal(ks[0].Common().Args[0]) == ssa.Value(f.Params[2]) && resolveLocal(ks[0].Common().Args[1]) == ssa.Value(f.Params[3])
			r.Check(ok, "allowance key order › "+fnKey(f), e.Pos(f.Pos()), "key(owner, spender)", "the allowance key is not built from (owner, spender) in that order: the setter and the getter address different records")
		}
		e.checkKeyBuilders(r, pkgCpcTypes, []string{"Erc20CustomPrecompiledContractAllowanceKey"}, "two (owner, spender) pairs share one allowance record: a spender can draw on an allowance approved for somebody else")
	})

	r.Rule("R2", "MUST-PASS+PROVENANCE", "every call of the mover transfer(ctx, from, to, amount, …) passes as `from` either caller.Address() itself, or a value v with the call dominated by the true edge of v == caller.Address() or by the nil-error edge of spendAllowance(ctx, v, caller.Address(), amount) with the same amount", 4, func() {
		sites := e.repoCallSites(func(c ssa.CallInstruction) bool { return isCallTo(c, specTransfer) })
		// a wrapper `spendAllowanceUnlessOwner(ctx, owner, spender, amount) error` is as good as spendAllowance when it has the same
		// parameter list and can return nil only if owner == spender or spendAllowance(ctx, owner, spender, amount) did
		wrapMemo := map[*ssa.Function]bool{}
		isSpendWrapper := func(w *ssa.Function) bool {
			if w == nil || w == spend || !privHelper(pkgCpcKeeper)(w) || len(w.Params) != len(spend.Params) {
				return false
			}
			if v, ok := wrapMemo[w]; ok {
				return v
			}
			for i := range w.Params {
				if i > 0 && !types.Identical(w.Params[i].Type(), spend.Params[i].Type()) {
					wrapMemo[w] = false
					return false
				}
			}
			owner, spender := ssa.Value(w.Params[2]), ssa.Value(w.Params[3])
			gEq := eqGuards(w, true, func(v ssa.Value) bool { return resolveLocal(v) == owner }, func(v ssa.Value) bool { return resolveLocal(v) == spender })
			passThrough := func(c *ssa.Call) bool {
				if !isCallTo(c, specSpend) {
					return false
				}
				for k := 1; k <= 3; k++ {
					if resolveLocal(argOf(c, k)) != ssa.Value(w.Params[1+k]) {
						return false
					}
				}
				return true
			}
			gs := append([]Guard{}, gEq...)
			for _, g := range errNilGuards(w, passThrough) {
				if failEdgeReturnsError(w, g, nil) {
					gs = append(gs, g)
				}
			}
			ok := len(successReturns(w)) > 0
			for _, ret := range successReturns(w) {
				if c, _ := callOf(ret.Results[len(ret.Results)-1]); c != nil && passThrough(c) {
					continue // `return e.spendAllowance(ctx, owner, spender, amount)`
				}
				if !mustPass(w, ret, gs) {
					ok = false
				}
			}
			wrapMemo[w] = ok
			return ok
		}
		for _, cs := range sites {
			fn := cs.Fn
			key := "transfer call › " + fnKey(fn)
			if fn.Parent() != nil || len(fn.Params) != 5 || fn.Name() != "Execute" {
				r.Bad(key, e.Pos(cs.Call.Pos()), "the ERC-20 mover is called from a function that is not an executor's Execute: the source of coins cannot be tied to the immediate caller")
				continue
			}
			from, amount := argOf(cs.Call, 1), argOf(cs.Call, 3)
			if isCallerAddress(from, fn) {
				r.OK(key, e.Pos(cs.Call.Pos()), "from = caller.Address()")
				continue
			}
			fromV := resolveLocal(from)
			isFrom := func(v ssa.Value) bool { return resolveLocal(v) == fromV }
			isCaller := func(v ssa.Value) bool { return isCallerAddress(v, fn) }
			gs := eqGuards(fn, true, isFrom, isCaller)
			spendOK := errNilGuards(fn, func(c *ssa.Call) bool {
				if !isCallTo(c, specSpend) && !isSpendWrapper(c.Call.StaticCallee()) {
					return false
				}
				return isFrom(argOf(c, 1)) && isCaller(argOf(c, 2)) && sameLocal(argOf(c, 3), amount)
			})
			for _, g := range spendOK {
				if failEdgeReturnsError(fn, g, func(i ssa.Instruction) bool { return i == cs.Call.(ssa.Instruction) }) {
					gs = append(gs, g)
				}
			}
			r.Check(mustPass(fn, cs.Call, gs), key, e.Pos(cs.Call.Pos()), "from == caller or spendAllowance(from, caller, amount) succeeded",
				"coins of `from` are moved although neither `from` is the immediate caller nor an allowance of (from → caller) for this very amount was spent (guard missing, arguments swapped, or a different amount)")
		}
	})

	r.Rule("R3", "MUST-PASS", "spendAllowance(owner, spender, amount): reads the (owner, spender) allowance; a success return is reached only through `allowance == MaxUint256` (no write) or through `allowance >= amount` followed by exactly one write of allowance − amount to the same (owner, spender)", 5, func() {
		owner, spender, amount := ssa.Value(spend.Params[2]), ssa.Value(spend.Params[3]), ssa.Value(spend.Params[4])
		gets := callsTo(spend, false, specGetAllow)
		sets := callsTo(spend, false, specSetAllow)
		if !r.Check(len(gets) == 1 && resolveLocal(argOf(gets[0], 1)) == owner && resolveLocal(argOf(gets[0], 2)) == spender,
			"spendAllowance › reads allowance(owner, spender)", e.Pos(spend.Pos()), "GetErc20CpcAllowance(ctx, owner, spender)", "spendAllowance does not read exactly the (owner, spender) allowance") {
			return
		}
		cur := gets[0].(ssa.Value)
		isCur := func(v ssa.Value) bool { return resolveLocal(v) == cur }
		isAmt := func(v ssa.Value) bool { return resolveLocal(v) == amount }
		isMax := func(v ssa.Value) bool {
			u, ok := resolveLocal(v).(*ssa.UnOp)
			if !ok {
				return false
			}
			g, ok := u.X.(*ssa.Global)
			return ok && g.Name() == "BigMaxUint256"
		}
		gMax := bigCmpGuards(spend, "eq", isCur, isMax)
		var gGe []Guard
		for _, g := range bigCmpGuards(spend, "ge", isCur, isAmt) {
			if failEdgeReturnsError(spend, g, func(i ssa.Instruction) bool {
				c, ok := i.(ssa.CallInstruction)
				return ok && isCallTo(c, specSetAllow)
			}) {
				gGe = append(gGe, g)
			}
		}
		r.Check(len(gGe) > 0, "spendAllowance › insufficient allowance is an error", e.Pos(spend.Pos()), "allowance < amount → error before any write", "no error-returning test `allowance < amount` (spending beyond the approved allowance succeeds)")
		okRet := true
		for _, ret := range successReturns(spend) {
			if !mustPass(spend, ret, append(append([]Guard{}, gMax...), gGe...)) {
				okRet = false
			}
		}
		r.Check(okRet && len(successReturns(spend)) > 0, "spendAllowance › success only via unlimited or sufficient allowance", e.Pos(spend.Pos()), "every nil-error return passed ==Max or >=amount", "spendAllowance can return nil without the allowance being unlimited or at least the amount")
		if !r.Check(len(sets) == 1, "spendAllowance › single allowance write", e.Pos(spend.Pos()), "one SetErc20CpcAllowance", "spendAllowance does not contain exactly one allowance write") {
			return
		}
		set := sets[0]
		r.Check(resolveLocal(argOf(set, 1)) == owner && resolveLocal(argOf(set, 2)) == spender, "spendAllowance › write targets the pair read", e.Pos(set.Pos()), "Set(owner, spender, …)", "the allowance written is not the (owner, spender) pair that was read and checked")
		// value written = Sub(cur, amount)
		nv := resolveLocal(argOf(set, 3))
		okSub := false
		if c, _ := callOf(nv); c != nil && isCallTo(c, CallSpec{pkgBig, "Int", "Sub"}) && len(c.Call.Args) == 3 {
			okSub = isCur(c.Call.Args[1]) && isAmt(c.Call.Args[2])
		}
		r.Check(okSub, "spendAllowance › writes allowance − amount", e.Pos(set.Pos()), "new(big.Int).Sub(allowance, amount)", "the value written is not (allowance read) − (amount spent)")
		// the write is not on the unlimited path and is on every finite success path
		onMax := false
		if len(gMax) > 0 {
			// reachable from the Max-edge without passing the ge guard?
			reach := reachable(spend, gMax[0].okBlock(), nil)
			onMax = reach[set.Block()]
		}
		r.Check(len(gMax) > 0 && !onMax, "spendAllowance › unlimited allowance is not decremented", e.Pos(set.Pos()), "no write on the ==MaxUint256 edge", "an unlimited allowance (2^256−1) is decremented / there is no unlimited case")
		okW := mustPass(spend, set, gGe)
		for _, ret := range successReturns(spend) {
			// success on the finite path must pass the write: delete the Max edge; then ret must pass set
			if !passesOr(spend, ret, set, gMax) {
				okW = false
			}
		}
		r.Check(okW, "spendAllowance › finite allowance always reduced", e.Pos(set.Pos()), "write dominated by the >= test and on every finite success path", "a finite allowance can be spent without being reduced (or is reduced before it was found sufficient)")
	})

	r.Rule("R4", "PAIR+PROVENANCE", "transfer(): balance-sufficiency is an error-returning test on bank GetBalance(from, denom); SendCoins moves coins built from (denom, amount) from `from` to `to`; the burn pair uses one coins value and happens only for to == zero; every bank error is returned; every success return passes exactly one AddLog whose topics derive from from/to and data from amount; approve likewise emits one log and writes allowance(caller, spender) = value", 10, func() {
		ctxP, fromP, toP, amtP, addrP := ssa.Value(transfer.Params[1]), ssa.Value(transfer.Params[2]), ssa.Value(transfer.Params[3]), ssa.Value(transfer.Params[4]), ssa.Value(transfer.Params[5])
		_ = ctxP
		// the mover together with private helpers extracted from it (each called from exactly one site inside the region)
		reg := e.privateRegion(transfer)
		derives := func(v ssa.Value, ps ...ssa.Value) bool {
			sl := reg.Slice(v)
			for _, p := range ps {
				if !sl.HasValue(p) {
					return false
				}
			}
			return true
		}
		denomOK := func(v ssa.Value) bool { return hasFieldLoad(reg.Slice(v), "", "MinDenom") }
		bank := func(name string) []ssa.CallInstruction {
			return reg.Calls(func(c ssa.CallInstruction) bool { return isBankCall(c, map[string]bool{name: true}) })
		}
		sameV := func(a, b ssa.Value) bool { return sameLocal(reg.Resolve(a), reg.Resolve(b)) }
		send, a2m, burn, getBal := bank("SendCoins"), bank("SendCoinsFromAccountToModule"), bank("BurnCoins"), bank("GetBalance")
		if len(send) != 1 || len(a2m) != 1 || len(burn) != 1 || len(getBal) < 1 {
			r.Bad("transfer › bank calls", e.Pos(transfer.Pos()), "transfer() does not contain exactly one SendCoins, one SendCoinsFromAccountToModule, one BurnCoins and a GetBalance")
			return
		}
		sa := send[0].Common().Args
		r.Check(derives(sa[1], fromP) && !derives(sa[1], toP) && derives(sa[2], toP) && !derives(sa[2], fromP), "transfer › SendCoins(from → to)", e.Pos(send[0].Pos()), "sender=from, recipient=to", "SendCoins does not move from `from` to `to`")
		r.Check(derives(sa[3], amtP) && denomOK(sa[3]), "transfer › SendCoins amount", e.Pos(send[0].Pos()), "coins = (MinDenom, amount)", "the coins sent are not built from the contract's denomination and the stated amount")
		ba, bb := a2m[0].Common().Args, burn[0].Common().Args
		r.Check(derives(ba[1], fromP) && sameV(ba[3], bb[2]) && derives(ba[3], amtP) && denomOK(ba[3]) && sameV(ba[2], bb[1]),
			"transfer › burn pair", e.Pos(a2m[0].Pos()), "from → module, burn same coins from same module", "the burn path does not take exactly `amount` of the denomination from `from` and burn that same coins value from the same module")
		r.Check(sameV(sa[3], ba[3]) || (derives(sa[3], amtP) && derives(ba[3], amtP)), "transfer › one coins value", e.Pos(send[0].Pos()), "send and burn use the amount", "")
		// burn only under to == zero address
		isTo := func(v ssa.Value) bool { return reg.Resolve(v) == toP }
		isZeroAddr := func(v ssa.Value) bool {
			v = resolveLocal(v)
			if c, ok := v.(*ssa.Const); ok {
				return c.Value == nil || namedTypeName(c.Type()) == "Address"
			}
			if u, ok := v.(*ssa.UnOp); ok && u.Op == token.MUL {
				if a, ok := u.X.(*ssa.Alloc); ok {
					return len(storesTo(a)) == 0 // zero-valued composite literal common.Address{}
				}
			}
			return false
		}
		// the guard lives in the function that holds the call (the mover itself, or a helper extracted from it)
		guardedIn := func(c ssa.CallInstruction, onEqual bool) bool {
			f := c.Parent()
			return mustPass(f, c, eqGuards(f, onEqual, isTo, isZeroAddr))
		}
		r.Check(guardedIn(a2m[0], true) && guardedIn(burn[0], true), "transfer › burn only for to == zero address", e.Pos(burn[0].Pos()), "burn dominated by to == 0x0", "coins are burnt on a path where the recipient is not the zero address")
		r.Check(guardedIn(send[0], false), "transfer › SendCoins only for to != zero address", e.Pos(send[0].Pos()), "send dominated by to != 0x0", "")
		// sufficiency
		gb := getBal[0]
		okBal := derives(gb.Common().Args[1], fromP) && denomOK(gb.Common().Args[2])
		var gSuf []Guard
		for _, g := range bigCmpGuards(transfer, "ge", func(v ssa.Value) bool { return sliceFrom(v).HasValue(gb.(ssa.Value)) }, func(v ssa.Value) bool { return resolveLocal(v) == amtP }) {
			if gb.Parent() != transfer {
				break // the sufficiency test itself must stay in the mover
			}
			if failEdgeReturnsError(transfer, g, func(i ssa.Instruction) bool {
				c, ok := i.(ssa.CallInstruction)
				return ok && isBankCall(c, bankMutators)
			}) {
				gSuf = append(gSuf, g)
			}
		}
		r.Check(okBal && len(gSuf) > 0 && mustPass(transfer, reg.Anchor(send[0].(ssa.Instruction)), gSuf) && mustPass(transfer, reg.Anchor(a2m[0].(ssa.Instruction)), gSuf), "transfer › insufficient balance is an error", e.Pos(gb.Pos()), "balance(from, denom) >= amount dominates the move", "coins are moved without an error-returning test of from's balance of the contract's denomination against the amount")
		// bank errors returned
		for _, c := range []ssa.CallInstruction{send[0], a2m[0], burn[0]} {
			ok := reg.ErrorPropagated(c)
			r.Check(ok, "transfer › error of "+calleeObj(c).Name()+" returned", e.Pos(c.Pos()), "err != nil → return err", "the error of the bank call is not returned: a failed move is reported as a successful transfer (log + true)")
		}
		// one log
		logs := callsIn(transfer, false, func(c ssa.CallInstruction) bool { return isMethodNamed(c, "AddLog") })
		if r.Check(len(logs) == 1, "transfer › exactly one AddLog", e.Pos(transfer.Pos()), "one AddLog", "transfer() does not contain exactly one AddLog call") {
			lg := logs[0]
			okDom := true
			for _, ret := range successReturns(transfer) {
				if !passesThrough(transfer, ret, lg) {
					okDom = false
				}
			}
			inLoop := false
			for _, l := range loopsOf(transfer) {
				if l.Body[lg.Block()] {
					inLoop = true
				}
			}
			r.Check(okDom && !inLoop && len(successReturns(transfer)) > 0, "transfer › every success emits the Transfer log once", e.Pos(lg.Pos()), "AddLog on every nil-error path, outside loops", "a successful transfer can return without (or with more than one) Transfer log")
			la := lg.Common().Args[0]
			r.Check(derives(la, fromP, toP, amtP, addrP), "transfer › log built from (contract, from, to, amount)", e.Pos(lg.Pos()), "topics/data derive from the parameters", "the Transfer log does not carry the contract address, from, to and amount of this transfer")
			// log must come after the moves on every path (a failed move returns before the log)
			r.Check(!reachesFrom(transfer, lg.(ssa.Instruction), reg.Anchor(send[0].(ssa.Instruction))) && !reachesFrom(transfer, lg.(ssa.Instruction), reg.Anchor(a2m[0].(ssa.Instruction))), "transfer › log after the move", e.Pos(lg.Pos()), "no bank move after AddLog", "the Transfer log is emitted before the coins are moved")
		}
		// approve
		sets := callsTo(approve, false, specSetAllow)
		alogs := callsIn(approve, false, func(c ssa.CallInstruction) bool { return isMethodNamed(c, "AddLog") })
		if len(sets) != 1 || len(alogs) != 1 {
			r.Bad("approve › one write and one log", e.Pos(approve.Pos()), "approve does not contain exactly one allowance write and one AddLog")
			return
		}
		set := sets[0]
		k1, ok1 := isIpsElem(argOf(set, 2))
		k2, ok2 := isIpsElem(argOf(set, 3))
		r.Check(isCallerAddress(argOf(set, 1), approve) && ok1 && k1 == 0 && ok2 && k2 == 1, "approve › owner is the immediate caller", e.Pos(set.Pos()), "Set(caller.Address(), ips[0], ips[1])", "approve writes an allowance whose owner is not caller.Address() (or spender/value are not the call's arguments): anyone can approve on behalf of a holder")
		okA := true
		for _, ret := range successReturns(approve) {
			if !passesThrough(approve, ret, set) || !passesThrough(approve, ret, alogs[0]) {
				okA = false
			}
		}
		r.Check(okA, "approve › success writes and logs", e.Pos(approve.Pos()), "every nil-error return passed the write and the Approval log", "approve can succeed without writing the allowance or without the Approval log")
		la := sliceFrom(alogs[0].Common().Args[0])
		r.Check(la.Has(func(v ssa.Value) bool { return isCallerAddress(v, approve) }) && la.HasValue(resolveLocal(argOf(set, 2))) && la.HasValue(resolveLocal(argOf(set, 3))),
			"approve › log built from (owner, spender, value)", e.Pos(alogs[0].Pos()), "", "the Approval log does not carry owner, spender and value")
	})

	r.Rule("R5", "PROVENANCE", "views: balanceOf(a) returns bank GetBalance(env.ctx, a, MinDenom); totalSupply returns bank GetSupply(env.ctx, MinDenom); allowance(o, s) returns GetErc20CpcAllowance(env.ctx, o, s); transfer/burn/burnFrom pass caller.Address() / ips in the documented positions", 6, func() {
		view := func(tname, method string, bankName string, check func(fn *ssa.Function, c ssa.CallInstruction) bool) {
			fn := e.Fn(pkgCpcKeeper, tname+".Execute")
			var cs []ssa.CallInstruction
			if bankName != "" {
				cs = callsIn(fn, false, func(c ssa.CallInstruction) bool { return isBankCall(c, map[string]bool{bankName: true}) })
			} else {
				cs = callsTo(fn, false, specGetAllow)
			}
			if len(cs) != 1 {
				r.Bad(method+" › source", e.Pos(fn.Pos()), method+" does not read exactly one bank/allowance value")
				return
			}
			c := cs[0]
			okCtx := hasFieldLoad(sliceFrom(c.Common().Args[map[bool]int{true: 0, false: 1}[c.Common().IsInvoke()]]), "cpcExecutorEnv", "ctx")
			// every success return's payload derives from the call
			okRet := true
			for _, ret := range successReturns(fn) {
				if !sliceFrom(ret.Results[0]).HasValue(c.(ssa.Value)) {
					okRet = false
				}
			}
			r.Check(okCtx && okRet && check(fn, c), method+" › returns the native value", e.Pos(c.Pos()), "value of "+calleeName(c)+" on env.ctx", method+" does not return the bank/allowance value of the contract's denomination for the requested address on the current context")
		}
		view("erc20CustomPrecompiledContractRoBalanceOf", "balanceOf", "GetBalance", func(fn *ssa.Function, c ssa.CallInstruction) bool {
			a := c.Common().Args
			sl := sliceFrom(a[1])
			isIps0 := sl.Has(func(v ssa.Value) bool { k, ok := isIpsElem(v); return ok && k == 0 })
			return isIps0 && hasFieldLoad(sliceFrom(a[2]), "", "MinDenom")
		})
		view("erc20CustomPrecompiledContractRoTotalSupply", "totalSupply", "GetSupply", func(fn *ssa.Function, c ssa.CallInstruction) bool {
			return hasFieldLoad(sliceFrom(c.Common().Args[1]), "", "MinDenom")
		})
		view("erc20CustomPrecompiledContractRoAllowance", "allowance", "", func(fn *ssa.Function, c ssa.CallInstruction) bool {
			k1, ok1 := isIpsElem(argOf(c, 1))
			k2, ok2 := isIpsElem(argOf(c, 2))
			return ok1 && ok2 && k1 == 0 && k2 == 1
		})
		// argument positions at the mover's call sites
		type want struct {
			typ        string
			to, amount int // ips index; -1 = zero address constant
		}
		for _, w := range []want{{"erc20CustomPrecompiledContractRwTransfer", 0, 1}, {"erc20CustomPrecompiledContractRwBurn", -1, 0}, {"erc20CustomPrecompiledContractRwBurnFrom", -1, 1}, {tErc20TF, 1, 2}} {
			fn := e.Fn(pkgCpcKeeper, w.typ+".Execute")
			cs := callsTo(fn, false, specTransfer)
			if len(cs) != 1 {
				r.Bad(w.typ+" › mover call", e.Pos(fn.Pos()), "not exactly one call of transfer()")
				continue
			}
			c := cs[0]
			okTo := false
			if w.to >= 0 {
				k, ok := isIpsElem(argOf(c, 2))
				okTo = ok && k == w.to
			} else {
				v := resolveLocal(argOf(c, 2))
				if u, ok := v.(*ssa.UnOp); ok && u.Op == token.MUL {
					if a, ok := u.X.(*ssa.Alloc); ok && len(storesTo(a)) == 0 {
						okTo = true
					}
				}
				if cst, ok := v.(*ssa.Const); ok && cst.Value == nil {
					okTo = true
				}
			}
			k, ok := isIpsElem(argOf(c, 3))
			okAmt := ok && k == w.amount
			okFrom := isCallerAddress(argOf(c, 1), fn)
			if !okFrom {
				k, ok := isIpsElem(argOf(c, 1))
				okFrom = ok && k == 0 && (w.typ == tErc20TF || w.typ == "erc20CustomPrecompiledContractRwBurnFrom")
			}
			okAddr := resolveLocal(argOf(c, 4)) == ssa.Value(executorParam(fn, 2))
			okCtx := hasFieldLoad(sliceFrom(argOf(c, 0)), "cpcExecutorEnv", "ctx")
			r.Check(okTo && okAmt && okFrom && okAddr && okCtx, w.typ+" › mover arguments", e.Pos(c.Pos()), "from/to/amount/contract/ctx in the documented positions", "the mover is called with a recipient, amount, contract address or context other than the call's own (e.g. amount taken from the wrong input slot)")
		}
		_ = erc20Exec
	})

	r.Rule("R8", "PROVENANCE", "a failing call changes nothing: every write of an ERC-20 executor goes to the cache context of the CURRENT call frame, which the EVM reverts on error — the dispatcher fills the executor environment with StateDB.GetCurrentContext() anew for every call and never from a field that outlives the call (shared with C03-R3)", 2, func() {
		envCtx, funcs := cpcEnvCtxField(e)
		precompileEnvFresh(e, r, funcs, envCtx)
	})

	r.Rule("R7", "MUST-PASS", "holders of a non-EVM denomination are not 'empty accounts': the StateDB's emptiness test (which decides deletion + burn of all balances of a touched account at commit) requires ALL bank balances to be zero", 1, func() {
		ok, pos := emptinessCoversAllDenoms(e)
		r.Check(ok, "IsEmptyAccount › all balances", pos, "true only if GetAllBalances(addr).IsZero()", "an account whose only asset is an ERC-20-precompile denomination other than the EVM denom is 'empty': any EVM message touching it destroys the account and burns the holder's tokens without transfer, allowance or Transfer log")
	})

	r.Rule("R6", "MUST-PASS(fork)", "go-ethereum fork: Call/CallCode/DelegateCall/StaticCall take a StateDB snapshot before running a precompile and revert to that snapshot on every path where the precompile returned an error", 4, func() {
		for _, name := range []string{"Call", "CallCode", "DelegateCall", "StaticCall"} {
			fn := e.Fn(pkgGethVM, "EVM."+name)
			runs := callsIn(fn, false, func(c ssa.CallInstruction) bool { return isMethodNamed(c, "RunPrecompiledContract") })
			snaps := callsIn(fn, false, func(c ssa.CallInstruction) bool { return isMethodNamed(c, "Snapshot") })
			revs := callsIn(fn, false, func(c ssa.CallInstruction) bool { return isMethodNamed(c, "RevertToSnapshot") })
			key := "geth/core/vm.EVM." + name + " › snapshot around precompile"
			if len(runs) == 0 || len(snaps) != 1 || len(revs) == 0 {
				r.Bad(key, e.Pos(fn.Pos()), "no RunPrecompiledContract / Snapshot / RevertToSnapshot triple")
				continue
			}
			ok := true
			for _, run := range runs {
				if !dominatesInstr(snaps[0].(ssa.Instruction), run.(ssa.Instruction)) {
					ok = false
				}
				// guards on err (whose sources include this run): the nil edge survives; with nil edges deleted,
				// every return reachable from the run must pass a RevertToSnapshot(snapshot)
				gs := errNilGuards(fn, func(c *ssa.Call) bool { return ssa.CallInstruction(c) == run })
				if len(gs) == 0 {
					ok = false
					continue
				}
				del := surviveEdges(gs)
				for _, rv := range revs {
					if resolveLocal(rv.Common().Args[0]) != snaps[0].(ssa.Value) {
						ok = false
					}
					for _, p := range rv.Block().Preds {
						del[edge{p.Index, rv.Block().Index}] = true
					}
				}
				// from the guard's fail edge, can a return be reached without entering a revert block?
				for _, g := range gs {
					reach := reachable(fn, g.failBlock(), del)
					isRev := false
					for _, rv := range revs {
						if rv.Block() == g.failBlock() {
							isRev = true
						}
					}
					if isRev {
						continue
					}
					for b := range reach {
						if len(b.Instrs) > 0 {
							if _, isRet := b.Instrs[len(b.Instrs)-1].(*ssa.Return); isRet {
								ok = false
							}
						}
					}
				}
			}
			r.Check(ok, key, e.Pos(fn.Pos()), "Snapshot dominates the precompile run; err != nil → RevertToSnapshot(snapshot)", "a failing precompile call can return without the StateDB being reverted to the snapshot taken before it (a failing ERC-20 call leaves changes behind)")
		}
	})
}

package main

import (
	"go/token"
	"go/types"
	"sort"
	"strings"

	"golang.org/x/tools/go/ssa"
)

func init() { registry["C20"] = checkC20 }

const (
	pkgFilters = EV + "/rpc/namespaces/ethereum/eth/filters"
	pkgPubsub  = EV + "/rpc/ethereum/pubsub"
	pkgIndexer = EV + "/indexer"
)

// ---------------------------------------------------------------- lockset (must-hold) analysis

// lockState maps a mutex (identified by the name of the struct field that holds it) to 'R' or 'W'.
type lockState map[string]byte

func (s lockState) clone() lockState {
	o := lockState{}
	for k, v := range s {
		o[k] = v
	}
	return o
}

func meet(a, b lockState) lockState {
	o := lockState{}
	for k, v := range a {
		if w, ok := b[k]; ok {
			if v == 'R' || w == 'R' {
				o[k] = 'R'
			} else {
				o[k] = 'W'
			}
		}
	}
	return o
}

func equalLS(a, b lockState) bool {
	if len(a) != len(b) {
		return false
	}
	for k, v := range a {
		if b[k] != v {
			return false
		}
	}
	return true
}

// mutexOp: if the call is (R)Lock/(R)Unlock on a sync mutex held in a struct field, return the field name and op.
func mutexOp(c ssa.CallInstruction) (field, op string) {
	fo := calleeObj(c)
	if fo == nil || fo.Pkg() == nil || fo.Pkg().Path() != "sync" {
		return "", ""
	}
	switch fo.Name() {
	case "Lock", "RLock", "Unlock", "RUnlock":
	default:
		return "", ""
	}
	args := c.Common().Args
	if len(args) == 0 {
		return "", ""
	}
	v := args[0]
	if u, ok := v.(*ssa.UnOp); ok && u.Op == token.MUL {
		v = u.X
	}
	if fa, ok := v.(*ssa.FieldAddr); ok {
		return fieldName(fa), fo.Name()
	}
	return "", ""
}

// locksets computes, for every instruction of fn, the set of mutexes that are held on every path reaching it.
// `defer m.Unlock()` keeps the lock to the end of the function. Function literals are analysed on their own, starting empty.
func locksets(fn *ssa.Function, entry lockState) map[ssa.Instruction]lockState {
	in := map[*ssa.BasicBlock]lockState{}
	out := map[*ssa.BasicBlock]lockState{}
	known := map[*ssa.BasicBlock]bool{}
	res := map[ssa.Instruction]lockState{}
	if len(fn.Blocks) == 0 {
		return res
	}
	transfer := func(b *ssa.BasicBlock, st lockState, record bool) lockState {
		st = st.clone()
		for _, ins := range b.Instrs {
			if record {
				res[ins] = st.clone()
			}
			c, ok := ins.(*ssa.Call)
			if !ok {
				continue
			}
			f, op := mutexOp(c)
			switch op {
			case "Lock":
				st[f] = 'W'
			case "RLock":
				st[f] = 'R'
			case "Unlock", "RUnlock":
				delete(st, f)
			}
		}
		return st
	}
	work := []*ssa.BasicBlock{fn.Blocks[0]}
	in[fn.Blocks[0]] = entry.clone()
	known[fn.Blocks[0]] = true
	for len(work) > 0 {
		b := work[0]
		work = work[1:]
		o := transfer(b, in[b], false)
		if prev, ok := out[b]; ok && equalLS(prev, o) {
			continue
		}
		out[b] = o
		for _, s := range b.Succs {
			var ni lockState
			if !known[s] {
				ni = o.clone()
				known[s] = true
			} else {
				ni = meet(in[s], o)
				if equalLS(ni, in[s]) {
					if _, done := out[s]; done {
						continue
					}
				}
			}
			in[s] = ni
			work = append(work, s)
		}
	}
	for _, b := range fn.Blocks {
		if known[b] {
			transfer(b, in[b], true)
		}
	}
	return res
}

// containerField: the value (a channel, map …) is read out of field `f` of a struct of type named T: returns T and f.
func containerFields(v ssa.Value) [][2]string {
	var out [][2]string
	seen := map[string]bool{}
	// copies made with the append/copy builtins keep the provenance (a snapshot of the subscriber channels is still a set of
	// channels that somebody else may close)
	throughBuiltins := func(c *ssa.Call) bool { _, isB := c.Call.Value.(*ssa.Builtin); return isB }
	for x := range backSlice(v, SliceOpts{ThroughCallArgs: throughBuiltins}).Vals {
		if fa, ok := x.(*ssa.FieldAddr); ok {
			k := [2]string{namedTypeName(fa.X.Type()), fieldName(fa)}
			if !seen[k[0]+"."+k[1]] {
				seen[k[0]+"."+k[1]] = true
				out = append(out, k)
			}
		}
	}
	sort.Slice(out, func(i, j int) bool { return out[i][0]+out[i][1] < out[j][0]+out[j][1] })
	return out
}

// guardedBy: hand-confirmed table (discovered by majority, confirmed by reading, frozen).
var guardedBy = map[string]map[string]string{
	"memEventBus":     {"topics": "topicsMux", "subscribers": "subscribersMux"},
	"EventSystem":     {"index": "indexMux", "topicChans": "indexMux"},
	"PublicFilterAPI": {"filters": "filtersMu"},
	"KVIndexer":       {"ready": "mu", "lastRequestIndexedBlock": "mu"},
}

func rpcFuncs(e *Engine) []*ssa.Function {
	return e.SrcFuncs(func(p string) bool {
		return strings.HasPrefix(p, EV+"/rpc") || p == pkgIndexer || strings.HasPrefix(p, EV+"/server")
	})
}

func checkC20(e *Engine, r *Report) {
	e.BuildSSA()
	r.NotDecided("robustness of dependency decoders (protobuf, RLP, JSON) against arbitrary bytes; liveness under all schedules; memory exhaustion")
	r.NotDecided("panics inside a transaction are recovered by BaseApp.runTx (trusted): only code outside that recovery (begin/end-block, the indexer service goroutine, RPC goroutines) is constrained here")
	r.Assumption("BaseApp recovers panics in runTx/Query/Prepare-ProcessProposal but not around begin/end-block (verified by reading baseapp/abci.go)")

	r.Rule("R1", "END/BEGIN-BLOCK", "begin/end-block code of the custom modules cannot panic on reachable state: (i) a counted transaction always has a receipt (GetTxReceiptsTransient panics otherwise) — SetupExecutionContext pairs the counter with a receipt; (ii) the EIP-1559 gas target cannot be zero; (iii) the block gas meter is nil-tested; (iv) no unguarded range-limited numeric conversion (sdkmath.Int.Int64/Uint64, LegacyDec.MustFloat64 …) of an unbounded value", 4, func() {
		// (i)
		sec := e.Fn(pkgEvmKeeper, "Keeper.SetupExecutionContext")
		inc := callsTo(sec, false, CallSpec{pkgEvmKeeper, "Keeper", "IncreaseTxCountTransient"})
		sr := callsTo(sec, false, CallSpec{pkgEvmKeeper, "Keeper", "SetTxReceiptForCurrentTxTransient"})
		ok := len(inc) == 1 && len(sr) == 1
		if ok {
			for _, ret := range returnsOf(sec) {
				if passesThrough(sec, ret, inc[0]) && !passesThrough(sec, ret, sr[0]) {
					ok = false
				}
			}
		}
		n := 0
		for _, cs := range e.repoCallSites(func(c ssa.CallInstruction) bool {
			return isCallTo(c, CallSpec{pkgEvmKeeper, "Keeper", "IncreaseTxCountTransient"})
		}) {
			n++
			if topFn(cs.Fn) != sec {
				ok = false
			}
		}
		r.Check(ok && n == 1, "evm EndBlock › every counted transaction has a receipt", e.Pos(sec.Pos()), "the counter is increased only in SetupExecutionContext, which always stores a receipt", "a transaction can be counted without a receipt: GetTxReceiptsTransient panics in EndBlock and the chain halts")
		// (ii)+(iii): same obligations as C09-R1/R2, decided again here on the current tree
		calc := e.Fn(pkgFmKeeper, "Keeper.CalculateBaseFee")
		okDiv := false
		mult := constUint(e, pkgGethParams, "ElasticityMultiplier")
		if cbf := callsTo(calc, false, CallSpec{pkgGethMisc, "", "CalcBaseFee"}); len(cbf) == 1 {
			if gl := literalFields(resolveLocal(cbf[0].Common().Args[1]))["GasLimit"]; gl != nil {
				okDiv, _ = e.provesGE(gl, mult, cbf[0].Block(), 0)
			}
		}
		r.Check(okDiv, "feemarket EndBlock › gas target cannot be zero", e.Pos(calc.Pos()), "MaxGas >= ElasticityMultiplier guards its use as gas limit", "CalcBaseFee can divide by a zero gas target in EndBlock (consensus MaxGas 0 or 1)")
		upd := e.Fn(pkgFmKeeper, "Keeper.updateBaseFeeForNextBlock")
		okNil := false
		for _, i := range ifs(upd) {
			b, isB := i.Cond.(*ssa.BinOp)
			if isB && (isNilConst(b.X) || isNilConst(b.Y)) {
				c, _ := callOf(b.X)
				if c == nil {
					c, _ = callOf(b.Y)
				}
				if c != nil && isCallTo(c, CallSpec{pkgSdkTypes, "Context", "BlockGasMeter"}) {
					okNil = true
				}
			}
		}
		r.Check(okNil, "feemarket EndBlock › nil block gas meter tested", e.Pos(upd.Pos()), "ctx.BlockGasMeter() == nil ⇒ return", "a nil block gas meter is dereferenced in EndBlock")
		// (iv)
		roots := []*ssa.Function{
			e.Fn(pkgFmKeeper, "Keeper.EndBlock"), e.Fn(pkgEvmKeeper, "Keeper.EndBlock"), e.Fn(pkgEvmKeeper, "Keeper.BeginBlock"),
		}
		seen := map[*ssa.Function]bool{}
		work := append([]*ssa.Function{}, roots...)
		var bad []string
		nconv := 0
		risky := map[string]bool{"Int64": true, "Uint64": true, "MustFloat64": true, "TruncateInt64": true, "RoundInt64": true}
		for len(work) > 0 {
			f := work[len(work)-1]
			work = work[:len(work)-1]
			if seen[f] || f.Blocks == nil {
				continue
			}
			seen[f] = true
			work = append(work, f.AnonFuncs...)
			for _, c := range callsIn(f, false, func(ssa.CallInstruction) bool { return true }) {
				if sc := c.Common().StaticCallee(); sc != nil && e.RepoOwned(pkgPathOf(sc)) {
					work = append(work, sc)
				}
				fo := calleeObj(c)
				if fo == nil || fo.Pkg() == nil || fo.Pkg().Path() != pkgSdkMath || !risky[fo.Name()] {
					continue
				}
				nconv++
				recv := c.Common().Args[0]
				guardName := "Is" + fo.Name()
				gs := boolCallGuards(f, true, func(x *ssa.Call) bool {
					return isMethodNamed(x, guardName) && (samePath(x.Call.Args[0], recv) || sameLocal(x.Call.Args[0], recv) || sliceFrom(x.Call.Args[0]).HasValue(resolveLocal(recv)))
				})
				if !mustPass(f, c, gs) {
					bad = append(bad, fnKey(f)+" calls "+fo.Name()+"() at "+e.Pos(c.Pos()))
				}
			}
		}
		sort.Strings(bad)
		r.Check(len(bad) == 0, "begin/end-block › no unguarded range-limited conversion", e.Pos(roots[0].Pos()), itoa(len(seen))+" functions reachable from the custom begin/end-blockers, "+itoa(nconv)+" conversions, all guarded", "a panicking numeric conversion of an unbounded value runs inside begin/end-block (chain halt once the value leaves the range): "+strings.Join(bad, "; "))
	})

	funcs := rpcFuncs(e)
	lsMemo := map[*ssa.Function]map[ssa.Instruction]lockState{}
	// "caller must hold the lock" helpers: an unexported function that is only ever called directly (never used as a value,
	// never started with go/defer, not reachable through an interface of its package) starts with the locks that are held
	// at every one of its call sites.
	staticSites := map[*ssa.Function][]ssa.CallInstruction{}
	escapes := map[*ssa.Function]bool{}
	ifaceMethodNames := map[string]bool{}
	{
		seenPkg := map[string]bool{}
		for _, f := range funcs {
			pp := pkgPathOf(f)
			if seenPkg[pp] {
				continue
			}
			seenPkg[pp] = true
			if p := e.Pkg(pp); p != nil {
				sc := p.Types.Scope()
				for _, nm := range sc.Names() {
					if tn, ok := sc.Lookup(nm).(*types.TypeName); ok {
						if it, isI := tn.Type().Underlying().(*types.Interface); isI {
							for k := 0; k < it.NumMethods(); k++ {
								ifaceMethodNames[pp+"."+it.Method(k).Name()] = true
							}
						}
					}
				}
			}
		}
		byObj := map[types.Object]*ssa.Function{}
		for _, f := range funcs {
			if f.Object() != nil && f.Synthetic == "" {
				byObj[f.Object()] = f
			}
		}
		for _, f := range funcs {
			allInstrs(f, true, func(_ *ssa.Function, _ *ssa.BasicBlock, i ssa.Instruction) {
				var rands [16]*ssa.Value
				for _, op := range i.Operands(rands[:0]) {
					g, ok := (*op).(*ssa.Function)
					if !ok || g == nil {
						continue
					}
					if g.Synthetic != "" {
						if t := byObj[g.Object()]; t != nil {
							escapes[t] = true
						}
						continue
					}
					if c, isCall := i.(*ssa.Call); isCall && c.Call.Value == ssa.Value(g) {
						staticSites[g] = append(staticSites[g], c)
						continue
					}
					escapes[g] = true
				}
			})
		}
	}
	inProgress := map[*ssa.Function]bool{}
	var ls func(f *ssa.Function) map[ssa.Instruction]lockState
	entryLocks := func(f *ssa.Function) lockState {
		obj := f.Object()
		if obj == nil || obj.Exported() || f.Parent() != nil || escapes[f] || len(staticSites[f]) == 0 || ifaceMethodNames[pkgPathOf(f)+"."+obj.Name()] {
			return lockState{}
		}
		var st lockState
		for _, c := range staticSites[f] {
			caller := c.Parent()
			if inProgress[caller] {
				return lockState{}
			}
			h := ls(caller)[c]
			if st == nil {
				st = h.clone()
			} else {
				st = meet(st, h)
			}
		}
		if st == nil {
			st = lockState{}
		}
		return st
	}
	ls = func(f *ssa.Function) map[ssa.Instruction]lockState {
		if m, ok := lsMemo[f]; ok {
			return m
		}
		inProgress[f] = true
		m := locksets(f, entryLocks(f))
		inProgress[f] = false
		lsMemo[f] = m
		return m
	}

	r.Rule("R2", "LOCKSET", "close/send discipline: if a channel read out of a shared container field is closed under a lock, every send on a channel read out of that same field happens while that lock is held (else: send on closed channel panics the process)", 2, func() {
		type closeSite struct {
			cont [2]string
			lock string
			pos  string
		}
		var closes []closeSite
		for _, f := range funcs {
			if IsGenerated(e.File(f.Pos())) {
				continue
			}
			for _, c := range callsIn(f, false, func(c ssa.CallInstruction) bool {
				b, ok := c.Common().Value.(*ssa.Builtin)
				return ok && b.Name() == "close"
			}) {
				held := ls(f)[c.(ssa.Instruction)]
				for _, cf := range containerFields(c.Common().Args[0]) {
					if _, isMap := guardedBy[cf[0]][cf[1]]; !isMap {
						continue
					}
					lock := guardedBy[cf[0]][cf[1]]
					closes = append(closes, closeSite{cf, lock, e.Pos(c.Pos())})
					r.Check(held[lock] == 'W', "close under lock › "+fnKey(f)+" › "+cf[0]+"."+cf[1], e.Pos(c.Pos()), "close(ch) while holding "+lock, "a channel taken from "+cf[0]+"."+cf[1]+" is closed without holding "+lock+" exclusively")
				}
			}
		}
		closed := map[[2]string]string{}
		for _, c := range closes {
			closed[c.cont] = c.lock
		}
		nSend := 0
		for _, f := range funcs {
			if IsGenerated(e.File(f.Pos())) {
				continue
			}
			allInstrs(f, false, func(_ *ssa.Function, _ *ssa.BasicBlock, i ssa.Instruction) {
				var chans []ssa.Value
				switch x := i.(type) {
				case *ssa.Send:
					chans = append(chans, x.Chan)
				case *ssa.Select:
					for _, st := range x.States {
						if st.Dir == types.SendOnly {
							chans = append(chans, st.Chan)
						}
					}
				}
				for _, ch := range chans {
					for _, cf := range containerFields(ch) {
						lock, isClosed := closed[cf]
						if !isClosed {
							continue
						}
						nSend++
						held := ls(f)[i]
						r.Check(held[lock] != 0, "send under lock › "+fnKey(f)+" › "+cf[0]+"."+cf[1], e.Pos(i.Pos()), "send while holding "+lock, "a value is sent on a channel taken from "+cf[0]+"."+cf[1]+" after "+lock+" was released, while another goroutine closes that channel under the lock: send on closed channel crashes the node")
					}
				}
			})
		}
		if nSend == 0 {
			r.Bad("send sites", "", "no send on a closable shared channel found (anchors moved?)")
		}
	})

	r.Rule("R3", "LOCKSET", "guarded-by discipline for the shared maps/flags of the event bus, the filter system, the filter API and the indexer: every access outside the constructor holds the field's mutex (exclusively for writes)", 20, func() {
		for _, f := range funcs {
			if IsGenerated(e.File(f.Pos())) {
				continue
			}
			held := ls(f)
			count := map[string]int{}
			allInstrs(f, false, func(_ *ssa.Function, _ *ssa.BasicBlock, i ssa.Instruction) {
				fa, ok := i.(*ssa.FieldAddr)
				if !ok {
					return
				}
				tn := namedTypeName(fa.X.Type())
				lock, guarded := guardedBy[tn][fieldName(fa)]
				if !guarded {
					return
				}
				// constructor exemption: the struct is freshly allocated in this function
				if _, fresh := fa.X.(*ssa.Alloc); fresh {
					return
				}
				// classify the access
				write := false
				if fa.Referrers() != nil {
					for _, rr := range *fa.Referrers() {
						switch x := rr.(type) {
						case *ssa.Store:
							if x.Addr == ssa.Value(fa) {
								write = true
							}
						case *ssa.UnOp:
							// loaded map/slice: look for MapUpdate / delete on the loaded value
							if x.Referrers() != nil {
								for _, r2 := range *x.Referrers() {
									switch y := r2.(type) {
									case *ssa.MapUpdate:
										if y.Map == ssa.Value(x) {
											write = true
										}
									case *ssa.Call:
										if b, isB := y.Call.Value.(*ssa.Builtin); isB && b.Name() == "delete" && y.Call.Args[0] == ssa.Value(x) {
											write = true
										}
									}
								}
							}
						}
					}
				}
				st := held[i]
				key := fnKey(f) + " › " + tn + "." + fieldName(fa)
				count[key]++
				if count[key] > 1 {
					key += " #" + itoa(count[key])
				}
				if write {
					r.Check(st[lock] == 'W', "guarded write › "+key, e.Pos(fa.Pos()), "holds "+lock, tn+"."+fieldName(fa)+" is written without holding "+lock+" exclusively (data race with the other RPC goroutines: concurrent map write crashes the node)")
				} else {
					r.Check(st[lock] != 0, "guarded read › "+key, e.Pos(fa.Pos()), "holds "+lock, tn+"."+fieldName(fa)+" is read without holding "+lock+" (concurrent map read and map write crashes the node)")
				}
			})
		}
	})

	r.Rule("R4", "SIBLING", "closed-channel spin: in a `for { select { … } }` goroutine, the case that receives from a subscription's error/unsubscribe channel (closed when the subscription ends) leaves the loop", 3, func() {
		for _, f := range funcs {
			if IsGenerated(e.File(f.Pos())) {
				continue
			}
			for _, l := range loopsOf(f) {
				for b := range l.Body {
					for _, ins := range b.Instrs {
						sel, ok := ins.(*ssa.Select)
						if !ok || !sel.Blocking {
							continue
						}
						for k, st := range sel.States {
							if st.Dir != types.RecvOnly {
								continue
							}
							sl := sliceFrom(st.Chan)
							isErrCh := sl.Has(func(v ssa.Value) bool {
								c, ok := v.(*ssa.Call)
								return ok && isMethodNamed(c, "Err") && strings.Contains(c.Type().String(), "chan")
							})
							if ct, isCh := st.Chan.Type().Underlying().(*types.Chan); isCh && isErrorType(ct.Elem()) {
								isErrCh = true // a `<-chan error` handed in as a parameter (subscription error channel)
							}
							if !isErrCh {
								continue
							}
							// find the case body: If on (index == k)
							var body *ssa.BasicBlock
							for _, i := range ifs(f) {
								bo, isB := i.Cond.(*ssa.BinOp)
								if !isB || bo.Op != token.EQL {
									continue
								}
								ex, isEx := bo.X.(*ssa.Extract)
								kk, isK := constInt(bo.Y)
								if isEx && ex.Tuple == ssa.Value(sel) && ex.Index == 0 && isK && int(kk) == k {
									body = i.Block().Succs[0]
								}
							}
							key := "error-channel case leaves the loop › " + fnKey(f)
							if body == nil {
								r.Undec(key, e.Pos(sel.Pos()), "cannot locate the case body of the select")
								continue
							}
							// `case v, ok := <-ch:` — only the closed outcome (!ok) has to leave the loop
							start := body
							for _, i := range ifs(f) {
								ex, isEx := i.Cond.(*ssa.Extract)
								if isEx && ex.Tuple == ssa.Value(sel) && ex.Index == 1 && (i.Block() == body || body.Dominates(i.Block())) {
									start = i.Block().Succs[1]
								}
							}
							r.Check(!reachable(f, start, nil)[l.Header], key, e.Pos(sel.Pos()), "the case returns", "after the subscription ended (its error channel is closed) the goroutine keeps looping: the closed channel is always ready, so the loop spins forever and burns a CPU")
						}
					}
				}
			}
		}
	})

	r.Rule("R5", "MUST-PASS", "user-supplied call data is sliced (input[:4], input[4:]) only after a length test: in the repository's precompile dispatcher and in the fork's RunCustom", 2, func() {
		ex := e.Fn(pkgCpcKeeper, "customPrecompiledContractMethodExecutorImpl.Execute")
		checkSlices := func(fn *ssa.Function, param ssa.Value, key string) {
			var gs []Guard
			for _, i := range ifs(fn) {
				b, ok := i.Cond.(*ssa.BinOp)
				if !ok {
					continue
				}
				lc, _ := callOf(b.X)
				k, isK := constInt(b.Y)
				if lc == nil || !isK || k < 4 {
					continue
				}
				bi, isBi := lc.Call.Value.(*ssa.Builtin)
				if !isBi || bi.Name() != "len" || resolveLocal(lc.Call.Args[0]) != param {
					continue
				}
				switch b.Op {
				case token.LSS:
					gs = append(gs, Guard{If: i, Survive: 1})
				case token.GEQ:
					gs = append(gs, Guard{If: i, Survive: 0})
				}
			}
			n, ok := 0, true
			allInstrs(fn, false, func(_ *ssa.Function, _ *ssa.BasicBlock, i ssa.Instruction) {
				sl, isS := i.(*ssa.Slice)
				if !isS || resolveLocal(sl.X) != param {
					return
				}
				n++
				if !mustPass(fn, sl, gs) {
					ok = false
				}
			})
			r.Check(ok && n > 0, key, e.Pos(fn.Pos()), itoa(n)+" slice expression(s) dominated by len(input) >= 4", "call data shorter than 4 bytes is sliced without a length test (index out of range)")
		}
		checkSlices(ex, ex.Params[3], "x/cpc/keeper.customPrecompiledContractMethodExecutorImpl.Execute › input sliced after length test")
		// fork: RunCustom slices input[:4] itself unguarded; its only caller must have tested the length of the same input
		rp := e.Fn(pkgGethVM, "EVMInterpreter.RunPrecompiledContract")
		rcSpec := CallSpec{pkgGethVM, "CustomPrecompiledContract", "RunCustom"}
		var sites []callSite
		for _, f := range e.SrcFuncs(func(p string) bool { return p == pkgGethVM || e.RepoOwned(p) }) {
			if IsGenerated(e.File(f.Pos())) {
				continue
			}
			for _, c := range callsTo(f, false, rcSpec) {
				sites = append(sites, callSite{f, c})
			}
		}
		okF := len(sites) == 1 && sites[0].Fn == rp
		if okF {
			c := sites[0].Call
			inP := ssa.Value(rp.Params[3])
			var gs []Guard
			for _, i := range ifs(rp) {
				b, ok := i.Cond.(*ssa.BinOp)
				if !ok || b.Op != token.LSS {
					continue
				}
				lc, _ := callOf(b.X)
				k, isK := constInt(b.Y)
				if lc == nil || !isK || k < 4 {
					continue
				}
				if bi, isBi := lc.Call.Value.(*ssa.Builtin); isBi && bi.Name() == "len" && resolveLocal(lc.Call.Args[0]) == inP {
					gs = append(gs, Guard{If: i, Survive: 1})
				}
			}
			okF = mustPass(rp, c, gs) && resolveLocal(argOf(c, 1)) == inP
		}
		r.Check(okF, "geth/core/vm.EVMInterpreter.RunPrecompiledContract › RunCustom only after len(input) >= 4", e.Pos(rp.Pos()), "single caller, dominated by the length test of the same input", "the fork's RunCustom (which slices input[:4]) can be reached with call data shorter than 4 bytes")
	})

	r.Rule("R6", "LOCK-ORDER", "the lock acquisition graph over the RPC/indexer mutexes (edge a→b: b acquired while a is held, including through direct calls) is acyclic", 1, func() {
		// summary: locks acquired (transitively through static callees in the rpc packages) by each function
		acq := map[*ssa.Function]map[string]bool{}
		var acquire func(f *ssa.Function, depth int) map[string]bool
		acquire = func(f *ssa.Function, depth int) map[string]bool {
			if m, ok := acq[f]; ok {
				return m
			}
			m := map[string]bool{}
			acq[f] = m
			if f.Blocks == nil || depth > 4 {
				return m
			}
			for _, c := range callsIn(f, false, func(ssa.CallInstruction) bool { return true }) {
				if fld, op := mutexOp(c); op == "Lock" || op == "RLock" {
					m[fld] = true
				}
				if sc := c.Common().StaticCallee(); sc != nil && e.RepoOwned(pkgPathOf(sc)) {
					for k := range acquire(sc, depth+1) {
						m[k] = true
					}
				}
			}
			return m
		}
		edges := map[string]map[string]string{}
		for _, f := range funcs {
			if IsGenerated(e.File(f.Pos())) {
				continue
			}
			held := ls(f)
			for _, c := range callsIn(f, false, func(ssa.CallInstruction) bool { return true }) {
				st := held[c.(ssa.Instruction)]
				if len(st) == 0 {
					continue
				}
				var got []string
				if fld, op := mutexOp(c); op == "Lock" || op == "RLock" {
					got = append(got, fld)
				}
				if sc := c.Common().StaticCallee(); sc != nil && e.RepoOwned(pkgPathOf(sc)) {
					for k := range acquire(sc, 0) {
						got = append(got, k)
					}
				}
				for a := range st {
					for _, b := range got {
						if a == b {
							continue
						}
						if edges[a] == nil {
							edges[a] = map[string]string{}
						}
						edges[a][b] = fnKey(f) + " at " + e.Pos(c.Pos())
					}
				}
			}
		}
		// cycle detection
		var cyc []string
		color := map[string]int{}
		var dfs func(n string, path []string)
		dfs = func(n string, path []string) {
			color[n] = 1
			for m := range edges[n] {
				if color[m] == 1 {
					cyc = append(cyc, strings.Join(append(path, n, m), " → ")+" ("+edges[n][m]+")")
				} else if color[m] == 0 {
					dfs(m, append(path, n))
				}
			}
			color[n] = 2
		}
		var nodes []string
		for n := range edges {
			nodes = append(nodes, n)
		}
		sort.Strings(nodes)
		for _, n := range nodes {
			if color[n] == 0 {
				dfs(n, nil)
			}
		}
		var es []string
		for a, m := range edges {
			for b := range m {
				es = append(es, a+"→"+b)
			}
		}
		sort.Strings(es)
		r.Check(len(cyc) == 0, "lock order › rpc + indexer mutexes", "", "acquisition edges: ["+strings.Join(es, ", ")+"], acyclic", "locks are acquired in conflicting orders (deadlock under the right interleaving): "+strings.Join(cyc, "; "))
	})

	r.Rule("R8", "TYPESTATE", "a filter's subscription is uninstalled at most once: Unsubscribe on a subscription taken out of the shared registry PublicFilterAPI.filters happens only on paths on which that entry is deleted from the registry within the same hold of filtersMu as the look-up (eventLoop closes the subscription's error channel unconditionally per uninstall request: a second request would close a closed channel and kill the process)", 2, func() {
		n := 0
		for _, f := range funcs {
			if IsGenerated(e.File(f.Pos())) || pkgPathOf(f) != pkgFilters {
				continue
			}
			held := ls(f)
			for _, u := range callsTo(f, false, CallSpec{pkgFilters, "Subscription", "Unsubscribe"}) {
				recv := u.Common().Args[0]
				fromRegistry := false
				for _, cf := range containerFields(recv) {
					if cf[0] == "PublicFilterAPI" && cf[1] == "filters" {
						fromRegistry = true
					}
				}
				if !fromRegistry {
					continue
				}
				n++
				// deletes on the registry
				var dels []ssa.CallInstruction
				for _, c := range callsIn(f, false, func(c ssa.CallInstruction) bool {
					b, ok := c.Common().Value.(*ssa.Builtin)
					if !ok || b.Name() != "delete" {
						return false
					}
					for _, cf := range containerFields(c.Common().Args[0]) {
						if cf[0] == "PublicFilterAPI" && cf[1] == "filters" {
							return true
						}
					}
					return false
				}) {
					dels = append(dels, c)
				}
				ok := false
				for _, d := range dels {
					if held[d.(ssa.Instruction)]["filtersMu"] != 'W' {
						continue
					}
					// P1: delete inside the critical section, before the unsubscribe on every path
					if passesThrough(f, u.(ssa.Instruction), d.(ssa.Instruction)) {
						ok = true
					}
					// P1': correlated guards — `if found { delete }; unlock; if !found { return }; unsubscribe`: the delete sits on the
					// true edge of a test of the same value that guards the unsubscribe
					for _, i1 := range ifs(f) {
						c1, neg1 := i1.Cond, false
						if un, isU := c1.(*ssa.UnOp); isU && un.Op == token.NOT {
							c1, neg1 = un.X, true
						}
						t1 := i1.Block().Succs[0]
						if neg1 {
							t1 = i1.Block().Succs[1]
						}
						if !(t1 == d.Block() || t1.Dominates(d.Block())) || !i1.Block().Dominates(u.Block()) {
							continue
						}
						// the unsubscribe is reachable only when the same value is true
						var gu []Guard
						for _, i2 := range ifs(f) {
							c2, neg2 := i2.Cond, false
							if un, isU := c2.(*ssa.UnOp); isU && un.Op == token.NOT {
								c2, neg2 = un.X, true
							}
							if c2 != c1 {
								continue
							}
							g := Guard{If: i2, Survive: 0}
							if neg2 {
								g.Survive = 1
							}
							gu = append(gu, g)
						}
						if mustPass(f, u, gu) {
							ok = true
						}
					}
					// P2: unsubscribe inside the critical section; the delete follows before the lock is released / the function returns
					if held[u.(ssa.Instruction)]["filtersMu"] == 'W' {
						delE := map[edge]bool{}
						for _, p := range d.Block().Preds {
							delE[edge{p.Index, d.Block().Index}] = true
						}
						escapes := false
						if d.Block() != u.Block() || instrIndex(d.(ssa.Instruction)) < instrIndex(u.(ssa.Instruction)) {
							for b := range reachable(f, u.Block(), delE) {
								if b == u.Block() {
									continue
								}
								for _, in := range b.Instrs {
									if c, isC := in.(*ssa.Call); isC {
										if fld, op := mutexOp(c); fld == "filtersMu" && op == "Unlock" {
											escapes = true
										}
									}
									if _, isRet := in.(*ssa.Return); isRet {
										escapes = true
									}
								}
							}
						}
						if !escapes {
							ok = true
						}
					}
				}
				r.Check(ok, "uninstall once › "+fnKey(f), e.Pos(u.Pos()), "registry entry deleted under filtersMu in the look-up's critical section", "a subscription found in api.filters is unsubscribed without the entry being removed in the same critical section: two uninstall requests for one filter both reach the event loop, which closes the subscription's error channel twice (panic: close of closed channel, node exits)")
			}
		}
		if n == 0 {
			r.Bad("uninstall sites", "", "no Unsubscribe of a registry subscription found (anchors moved?)")
		}
	})

	r.Rule("R7", "MUST-PASS", "the indexer service goroutine has no panic recovery: in KVIndexer.IndexBlock the panicking accessors of the embedded Ethereum payload (MsgEthereumTx.AsTransaction / GetFrom / GetSigners …) run only for transactions whose result passed the dropped-before-ante test and whose events parsed (i.e. the payload was validated by the ante handler)", 1, func() {
		ib := e.Fn(pkgIndexer, "KVIndexer.IndexBlock")
		gDrop := boolCallGuards(ib, false, func(c *ssa.Call) bool {
			return isCallTo(c, CallSpec{pkgEvmTypes, "", "TxWasDroppedPreAnteHandleDueToBlockGasExcess"})
		})
		isAccessor := func(c ssa.CallInstruction) bool {
			fo := calleeObj(c)
			if fo == nil {
				return false
			}
			rn := recvNamed(fo)
			return rn != nil && rn.Obj().Name() == "MsgEthereumTx" && rn.Obj().Pkg().Path() == pkgEvmTypes && (fo.Name() == "AsTransaction" || fo.Name() == "GetFrom" || fo.Name() == "GetSigners" || fo.Name() == "GetSender")
		}
		n, ok := 0, len(gDrop) > 0
		var visit func(f *ssa.Function, guardedOuter bool)
		visit = func(f *ssa.Function, guardedOuter bool) {
			for _, c := range callsIn(f, false, isAccessor) {
				n++
				if f == ib {
					if !mustPass(ib, c, gDrop) {
						ok = false
					}
				} else if !guardedOuter {
					ok = false
				}
			}
			for _, a := range f.AnonFuncs {
				// a function literal is covered if the place where it is created/called is dominated by the guard
				site := closureSite(ib, a)
				g := guardedOuter
				if f == ib {
					g = site != nil && !reachable(ib, ib.Blocks[0], surviveEdges(gDrop))[site]
				}
				visit(a, g)
			}
		}
		visit(ib, false)
		r.Check(ok && n > 0, "indexer.KVIndexer.IndexBlock › panicking payload accessors only for ante-validated transactions", e.Pos(ib.Pos()), itoa(n)+" accessor call(s), all after the dropped-before-ante test", "IndexBlock decodes the embedded Ethereum payload of a transaction that never reached the ante handler: a malformed payload panics in the indexer goroutine (no recovery) and the node crashes on every restart")
	})

	r.Rule("R10", "BOUNDS", "log filtering runs in goroutines without panic recovery on user-chosen criteria against user-emitted logs: in the filter matching code every slice index with a non-constant index is entailed to be below the slice length by the comparisons that dominate it (range headers, explicit length tests; transitively: i < len(topics) ≤ len(log.Topics))", 1, func() {
		n := 0
		if e.TryFn(pkgFilters, "FilterLogs") == nil {
			r.Undec("bounds › FilterLogs", "", "function not found")
		}
		{
			fs := e.SrcFuncs(func(p string) bool { return p == pkgFilters })
			for _, g := range fs {
				if IsGenerated(e.File(g.Pos())) {
					continue
				}
				allInstrs(g, false, func(_ *ssa.Function, _ *ssa.BasicBlock, in ssa.Instruction) {
					ia, ok := in.(*ssa.IndexAddr)
					if !ok {
						return
					}
					if _, isSlice := ia.X.Type().Underlying().(*types.Slice); !isSlice {
						return
					}
					if _, isK := constInt(ia.Index); isK {
						return
					}
					n++
					coll := ia.X
					r.Check(indexInBounds(g, ia.Index, coll, ia.Block()), "bounds › "+fnKey(g)+" › "+ia.X.Name()+"["+ia.Index.Name()+"]", e.Pos(ia.Pos()), "index < len entailed by the dominating comparisons", "a slice is indexed although the dominating length tests do not entail index < len: a filter criterion longer than a log's topic list (or an off-by-one in the test) panics in a goroutine without recovery and kills the node")
				})
			}
		}
		r.Count("indexed_accesses", n)
	})

	r.Rule("R9", "INIT-BEFORE-GO", "a goroutine started with `go func() {…}()` runs outside every panic recovery of the node (BaseApp's, gRPC's, the JSON-RPC server's): a variable it captures by reference and calls methods on (or dereferences) must be completely assigned before the `go` statement — at least one assignment dominates it and none can follow it — otherwise the goroutine can observe the zero value (nil interface / pointer) and crash the process", 3, func() {
		n := 0
		for _, f := range e.SrcFuncs(e.RepoOwned) {
			if IsGenerated(e.File(f.Pos())) || isTestSupportPkg(pkgPathOf(f)) {
				continue
			}
			allInstrs(f, false, func(_ *ssa.Function, _ *ssa.BasicBlock, in ssa.Instruction) {
				g, ok := in.(*ssa.Go)
				if !ok {
					return
				}
				mc, ok := g.Call.Value.(*ssa.MakeClosure)
				if !ok {
					return
				}
				body, _ := mc.Fn.(*ssa.Function)
				if body == nil {
					return
				}
				for bi, b := range mc.Bindings {
					cell, isCell := b.(*ssa.Alloc)
					if !isCell || bi >= len(body.FreeVars) {
						continue
					}
					// only cells of interface / pointer / func / map / chan type can be nil
					switch cell.Type().(*types.Pointer).Elem().Underlying().(type) {
					case *types.Interface, *types.Pointer, *types.Signature, *types.Map, *types.Chan:
					default:
						continue
					}
					// does the goroutine use the value (invoke a method on it, call it, dereference it)?
					fv := body.FreeVars[bi]
					uses := false
					if fv.Referrers() != nil {
						for _, rr := range *fv.Referrers() {
							ld, isLd := rr.(*ssa.UnOp)
							if !isLd || ld.Op != token.MUL || ld.Referrers() == nil {
								continue
							}
							for _, r2 := range *ld.Referrers() {
								switch u := r2.(type) {
								case ssa.CallInstruction:
									if u.Common().Value == ssa.Value(ld) {
										uses = true
									}
								case *ssa.UnOp:
									if u.Op == token.MUL && u.X == ssa.Value(ld) {
										uses = true
									}
								case *ssa.FieldAddr:
									if u.X == ssa.Value(ld) {
										uses = true
									}
								}
							}
						}
					}
					if !uses {
						continue
					}
					n++
					before, after := false, false
					for _, st := range storesTo(cell) {
						if dominatesInstr(st, g) {
							before = true
						} else if reachesFrom(f, g, st) {
							after = true
						}
					}
					name := cell.Comment
					key := "goroutine capture › " + fnKey(f) + " › " + name
					r.Check(before && !after, key, e.Pos(g.Pos()), "assigned before the go statement, never after", "the goroutine started here calls through the captured variable `"+name+"`, which is "+map[bool]string{true: "assigned again after the go statement", false: "not assigned on every path before the go statement"}[before]+": the goroutine can see a nil value and panic outside any recovery (process crash)")
				}
			})
		}
		r.Count("goroutine_captured_cells", n)
	})
}

package main

import (
	"go/constant"
	"go/token"
	"go/types"
	"strings"

	"golang.org/x/tools/go/ssa"
)

func init() { registry["C05"] = checkC05 }

// fieldAddrsOf lists FieldAddr instructions of fn addressing field `name` of the struct reached from base value `base`
// (base = nil: any base).
func fieldAddrsOf(fn *ssa.Function, base ssa.Value, name string) []*ssa.FieldAddr {
	var out []*ssa.FieldAddr
	allInstrs(fn, false, func(_ *ssa.Function, _ *ssa.BasicBlock, i ssa.Instruction) {
		if fa, ok := i.(*ssa.FieldAddr); ok && fieldName(fa) == name && (base == nil || fa.X == base) {
			out = append(out, fa)
		}
	})
	return out
}

func fieldLoads(fn *ssa.Function, base ssa.Value, name string) []*ssa.UnOp {
	var out []*ssa.UnOp
	for _, fa := range fieldAddrsOf(fn, base, name) {
		if fa.Referrers() == nil {
			continue
		}
		for _, rr := range *fa.Referrers() {
			if u, ok := rr.(*ssa.UnOp); ok && u.Op == token.MUL {
				out = append(out, u)
			}
		}
	}
	return out
}

func fieldStoresIn(fn *ssa.Function, base ssa.Value, name string) []*ssa.Store {
	var out []*ssa.Store
	for _, fa := range fieldAddrsOf(fn, base, name) {
		out = append(out, storesTo(fa)...)
	}
	return out
}

func constUint(e *Engine, pkg, name string) int64 {
	c, ok := e.Obj(pkg, name).(*types.Const)
	if !ok {
		undecidedf("%s.%s is not a constant", pkg, name)
	}
	v, _ := constant.Int64Val(constant.ToInt(c.Val()))
	return v
}

func checkC05(e *Engine, r *Report) {
	e.BuildSSA()
	r.NotDecided("the arithmetic law charge = gasUsed × effectivePrice + value over runtime values; intrinsic ≤ used ≤ limit and the refund bound as numbers")
	r.NotDecided("cumulative gas running sum (decided structurally by C13)")
	r.Assumption("the SDK DeductFeeDecorator debits exactly the coins returned by the fee checker (C09-R5 ties those coins to the checked price)")

	applyTx := e.Fn(pkgEvmKeeper, "Keeper.ApplyTransaction")
	amwc := e.Fn(pkgEvmKeeper, "Keeper.ApplyMessageWithConfig")
	refund := e.Fn(pkgEvmKeeper, "StateTransition.refundGas")
	trans := e.Fn(pkgEvmKeeper, "StateTransition.TransitionDb")
	reset := e.Fn(pkgEvmKeeper, "Keeper.ResetGasMeterAndConsumeGas")
	specAMWC := CallSpec{pkgEvmKeeper, "Keeper", "ApplyMessageWithConfig"}
	specReset := CallSpec{pkgEvmKeeper, "Keeper", "ResetGasMeterAndConsumeGas"}

	r.Rule("R1", "PROVENANCE", "the price of the ante deduction and the price of the refund come from the same source: EthereumTxFeeChecker prices with fee-market params.BaseFee of its ctx; ApplyTransaction builds the message with cfg.BaseFee, cfg = EVMConfig(ctx), whose BaseFee is feeMarketKeeper.GetBaseFee(ctx); EthTxEffectiveGasPrice = BigMin(tip+base, cap) for dynamic-fee txs else GasPrice(); EthTxEffectiveFee = price × tx.Gas(); the refund is st.gas × st.gasPrice with gasPrice = msg.GasPrice()", 7, func() {
		ctxP := ssa.Value(applyTx.Params[1])
		as := callsIn(applyTx, false, func(c ssa.CallInstruction) bool {
			return isCallTo(c, CallSpec{pkgGethTypes, "Transaction", "AsMessage"})
		})
		if len(as) != 1 {
			r.Bad("ApplyTransaction › AsMessage", e.Pos(applyTx.Pos()), "not exactly one tx.AsMessage call")
			return
		}
		bf := backSlice(argOf(as[0], 1), SliceOpts{ThroughCallArgs: alwaysThrough, IntoCallees: privHelper(pkgEvmKeeper), Depth: 3})
		okBF := hasFieldLoad(bf, "EVMConfig", "BaseFee") && bf.Has(func(v ssa.Value) bool {
			c, ok := v.(*ssa.Call)
			return ok && isCallTo(c, CallSpec{pkgEvmKeeper, "Keeper", "EVMConfig"}) && argReaches(bf, c, 1, ctxP, 2)
		})
		r.Check(okBF, "x/evm/keeper.Keeper.ApplyTransaction › message priced with cfg.BaseFee", e.Pos(as[0].Pos()), "tx.AsMessage(signer, EVMConfig(ctx).BaseFee)", "the execution-side gas price is not derived from the EVM config's base fee of the current context (nil base fee ⇒ refund at fee cap while the ante charged the effective price)")
		r.Check(resolveLocal(as[0].Common().Args[0]) == ssa.Value(applyTx.Params[2]), "ApplyTransaction › message of the transaction", e.Pos(as[0].Pos()), "AsMessage on the tx parameter", "")
		cfgFn := e.Fn(pkgEvmKeeper, "Keeper.EVMConfig")
		okC := false
		allInstrs(cfgFn, false, func(_ *ssa.Function, _ *ssa.BasicBlock, i ssa.Instruction) {
			st, ok := i.(*ssa.Store)
			if !ok {
				return
			}
			if fa, ok := st.Addr.(*ssa.FieldAddr); ok && fieldName(fa) == "BaseFee" && namedTypeName(fa.X.Type()) == "EVMConfig" {
				sl := sliceFrom(st.Val)
				okC = sl.Has(func(v ssa.Value) bool {
					c, ok := v.(*ssa.Call)
					return ok && isCallTo(c, CallSpec{pkgEvmKeeper, "Keeper", "GetBaseFee"}) && resolveLocal(c.Call.Args[1]) == ssa.Value(cfgFn.Params[1])
				})
			}
		})
		r.Check(okC, "EVMConfig › BaseFee ← GetBaseFee(ctx)", e.Pos(cfgFn.Pos()), "cfg.BaseFee = k.GetBaseFee(ctx)", "EVMConfig.BaseFee is not the stored base fee of the given context")
		gbf := e.Fn(pkgEvmKeeper, "Keeper.GetBaseFee")
		okG := false
		for _, ret := range returnsOf(gbf) {
			c, _ := callOf(ret.Results[0])
			okG = c != nil && isMethodNamed(c, "GetBaseFee") && hasFieldLoad(sliceFrom(c.Call.Value), "Keeper", "feeMarketKeeper")
		}
		r.Check(okG, "evm Keeper.GetBaseFee › fee market keeper", e.Pos(gbf.Pos()), "feeMarketKeeper.GetBaseFee(ctx)", "")
		fmGet := e.Fn(pkgFmKeeper, "Keeper.GetBaseFee")
		okF := false
		for _, ret := range returnsOf(fmGet) {
			okF = hasFieldLoad(sliceFrom(ret.Results[0]), "Params", "BaseFee")
		}
		r.Check(okF, "feemarket Keeper.GetBaseFee › params.BaseFee", e.Pos(fmGet.Pos()), "GetParams(ctx).BaseFee", "the base fee used for execution is not the parameter the fee checker reads")
		// effective gas price shape
		egp := e.Fn(pkgEvmUtils, "EthTxEffectiveGasPrice")
		txP, baseP := ssa.Value(egp.Params[0]), ssa.Value(egp.Params[1])
		okShape := true
		nDyn, nLeg := 0, 0
		gDyn := eqGuards(egp, true, func(v ssa.Value) bool {
			c, _ := callOf(v)
			return c != nil && isCallTo(c, CallSpec{pkgGethTypes, "Transaction", "Type"})
		},
			func(v ssa.Value) bool {
				k, ok := constInt(v)
				return ok && k == constUint(e, pkgGethTypes, "DynamicFeeTxType")
			})
		for _, ret := range returnsOf(egp) {
			c, _ := callOf(ret.Results[0])
			if c != nil && isCallTo(c, CallSpec{GETH + "/common/math", "", "BigMin"}) {
				nDyn++
				a, b := sliceFrom(c.Call.Args[0]), sliceFrom(c.Call.Args[1])
				has := func(s *Slice, m string) bool {
					return s.Has(func(v ssa.Value) bool {
						c, ok := v.(*ssa.Call)
						return ok && isCallTo(c, CallSpec{pkgGethTypes, "Transaction", m}) && resolveLocal(c.Call.Args[0]) == txP
					})
				}
				sum, cap := a, b
				if has(b, "GasTipCap") {
					sum, cap = b, a
				}
				if !(has(sum, "GasTipCap") && sum.HasValue(baseP) && !has(sum, "GasFeeCap") && has(cap, "GasFeeCap") && !cap.HasValue(baseP) && mustPass(egp, ret, gDyn)) {
					okShape = false
				}
			} else if c != nil && isCallTo(c, CallSpec{pkgGethTypes, "Transaction", "GasPrice"}) && resolveLocal(c.Call.Args[0]) == txP {
				nLeg++
			} else {
				okShape = false
			}
		}
		r.Check(okShape && nDyn == 1 && nLeg == 1, "EthTxEffectiveGasPrice › min(tip+base, cap) | gasPrice", e.Pos(egp.Pos()), "dynamic: BigMin(GasTipCap+baseFee, GasFeeCap); else GasPrice()", "the effective gas price does not have the EIP-1559 shape")
		ef := e.Fn(pkgEvmUtils, "EthTxEffectiveFee")
		okE := false
		for _, ret := range returnsOf(ef) {
			sl := backSlice(ret.Results[0], SliceOpts{ThroughCallArgs: alwaysThrough, IntoCallees: func(f *ssa.Function) bool { return pkgPathOf(f) == pkgEvmUtils }, Depth: 2})
			okE = sl.HasCall(CallSpec{pkgEvmUtils, "", "EthTxEffectiveGasPrice"}) && sl.Has(func(v ssa.Value) bool {
				c, ok := v.(*ssa.Call)
				return ok && isCallTo(c, CallSpec{pkgGethTypes, "Transaction", "Gas"})
			}) && sl.Has(func(v ssa.Value) bool {
				c, ok := v.(*ssa.Call)
				return ok && isCallTo(c, CallSpec{pkgBig, "Int", "Mul"})
			})
		}
		r.Check(okE, "EthTxEffectiveFee › price × gas limit", e.Pos(ef.Pos()), "EthTxEffectiveGasPrice(tx, baseFee) × tx.Gas()", "the prepaid fee is not effective price × gas limit")
		// the ante deduction: the coins the Ethereum fee checker hands back to the SDK's DeductFeeDecorator are the EFFECTIVE fee
		// (EthTxEffectiveFee of the transaction at the fee-market base fee), not the fee cap × gas carried by the wrapper —
		// the refund is paid at the effective price, so deducting at any other price breaks charge = used × effective price
		{
			fc := e.Fn(pkgDual, "EthereumTxFeeChecker")
			okD := len(fc.AnonFuncs) == 1
			nRet := 0
			if okD {
				fn := fc.AnonFuncs[0]
				for _, ret := range successReturns(fn) {
					if c, _ := callOf(ret.Results[0]); c != nil && isCallTo(c, CallSpec{pkgDual, "", "checkTxFeeWithValidatorMinGasPrices"}) {
						continue // genesis-block fallback (gentxs), judged by C09-R5
					}
					nRet++
					sl := backSlice(ret.Results[0], SliceOpts{ThroughCallArgs: alwaysThrough, NoMemory: false})
					eff := false
					for _, c := range sl.Calls() {
						if isCallTo(c, CallSpec{pkgEvmUtils, "", "EthTxEffectiveFee"}) && hasFieldLoad(sliceFrom(c.Call.Args[1]), "Params", "BaseFee") {
							eff = true
						}
					}
					// and nothing of the wrapper's declared fee
					if !eff || sl.Has(func(v ssa.Value) bool { c, ok := v.(*ssa.Call); return ok && isMethodNamed(c, "GetFee") }) {
						okD = false
					}
				}
			}
			r.Check(okD && nRet > 0, "app/antedl/duallane.EthereumTxFeeChecker › deducts the effective fee", e.Pos(fc.Pos()), "returned coins ← EthTxEffectiveFee(ethTx, feeMarketParams.BaseFee)", "the fee deducted by the ante handler is not the effective fee (price × gas limit at the current base fee) — e.g. the wrapper's fee-cap fee — while the unused gas is refunded at the effective price: a dynamic-fee sender with feeCap > tip + baseFee pays gasLimit × (feeCap − effective price) too much")
		}
		// gasPrice of the state transition
		nst := e.Fn(pkgEvmKeeper, "NewStateTransition")
		okP := false
		allInstrs(nst, false, func(_ *ssa.Function, _ *ssa.BasicBlock, i ssa.Instruction) {
			if st, ok := i.(*ssa.Store); ok {
				if fa, ok := st.Addr.(*ssa.FieldAddr); ok && fieldName(fa) == "gasPrice" {
					c, _ := callOf(st.Val)
					okP = c != nil && isMethodNamed(c, "GasPrice") && c.Call.Value == ssa.Value(nst.Params[1])
				}
			}
		})
		r.Check(okP, "NewStateTransition › gasPrice ← msg.GasPrice()", e.Pos(nst.Pos()), "st.gasPrice = msg.GasPrice()", "the refund price is not the message's effective gas price")
	})

	r.Rule("R8", "CENSUS-ORDER", "the flags and per-transaction records that decide the refund (sender-paid-fee, gas slots) are not keyed by the transaction index before the transaction is counted: counter-dependent ante decorators come after SetupExecutionContext (shared with C13-R8)", 1, func() {
		n, probs := txIndexUsedOnlyAfterCounting(e)
		r.Check(len(probs) == 0 && n > 0, "ante chain › tx index used only after counting", e.Pos(applyTx.Pos()), itoa(n)+" counter-dependent decorator(s), all after SetupExecutionContext", "a value the refund depends on is stored under the previous transaction's index: from the second Ethereum transaction of a block on, the sender is not paid back the unused gas (charged gas limit × price): "+strings.Join(probs, "; "))
	})

	r.Rule("R2", "PAIR", "in ApplyTransaction every return reachable after ApplyMessageWithConfig passes exactly one ResetGasMeterAndConsumeGas on the tx context: with ctx.GasMeter().Limit() on the error edge, with res.GasUsed on the success edge", 2, func() {
		am := callsTo(applyTx, false, specAMWC)
		if len(am) != 1 {
			r.Bad("ApplyTransaction › ApplyMessageWithConfig", e.Pos(applyTx.Pos()), "not exactly one call")
			return
		}
		call := am[0].(*ssa.Call)
		ctxP := ssa.Value(applyTx.Params[1])
		resets := callsTo(applyTx, false, specReset)
		eg := errNilGuards(applyTx, func(c *ssa.Call) bool { return c == call })
		if len(eg) != 1 {
			r.Bad("ApplyTransaction › error test of ApplyMessageWithConfig", e.Pos(call.Pos()), "the error of ApplyMessageWithConfig is not tested exactly once")
			return
		}
		g := eg[0]
		classify := func(rc ssa.CallInstruction) string {
			if resolveLocal(argOf(rc, 0)) != ctxP {
				return "other-ctx"
			}
			sl := sliceFrom(argOf(rc, 1))
			if hasFieldLoad(sl, "MsgEthereumTxResponse", "GasUsed") && sl.HasValue(call) {
				return "used"
			}
			if sl.Has(func(v ssa.Value) bool { c, ok := v.(*ssa.Call); return ok && isMethodNamed(c, "Limit") }) &&
				sl.Has(func(v ssa.Value) bool {
					c, ok := v.(*ssa.Call)
					return ok && isCallTo(c, CallSpec{pkgSdkTypes, "Context", "GasMeter"}) && resolveLocal(c.Call.Args[0]) == ctxP
				}) {
				return "limit"
			}
			return "other"
		}
		side := func(start *ssa.BasicBlock, want, label, bad string) {
			reach := reachable(applyTx, start, nil)
			var in []ssa.CallInstruction
			for _, rc := range resets {
				if reach[rc.Block()] {
					in = append(in, rc)
				}
			}
			ok := len(in) == 1 && classify(in[0]) == want
			if ok {
				for _, ret := range returnsOf(applyTx) {
					if reach[ret.Block()] && !(in[0].Block() == ret.Block() || in[0].Block().Dominates(ret.Block())) {
						ok = false
					}
				}
				for _, l := range loopsOf(applyTx) {
					if l.Body[in[0].Block()] {
						ok = false
					}
				}
			}
			r.Check(ok, "x/evm/keeper.Keeper.ApplyTransaction › "+label, e.Pos(call.Pos()), "exactly one reset with "+want, bad)
		}
		side(g.failBlock(), "limit", "failed message consumes the whole gas limit", "when applying the message fails, the gas meter is not reset to exactly the transaction's gas limit once (the failed transaction is not charged in full, or double-counted)")
		side(g.okBlock(), "used", "successful message consumes res.GasUsed", "after a successful message the gas meter is not reset to exactly res.GasUsed once (consensus gas differs from the receipt's gas used)")
	})

	r.Rule("R3", "MUST-PASS+CONST", "TransitionDb calls refundGas exactly once on every path after the EVM ran: with params.RefundQuotientEIP3529 under rules.IsLondon, else params.RefundQuotient; refundGas adds min(gasUsed()/quotient, GetRefund()) to st.gas", 4, func() {
		q2, q5 := constUint(e, pkgGethParams, "RefundQuotient"), constUint(e, pkgGethParams, "RefundQuotientEIP3529")
		rcs := callsTo(trans, false, CallSpec{pkgEvmKeeper, "StateTransition", "refundGas"})
		isLondon := func(surv int) []Guard {
			var gs []Guard
			for _, i := range ifs(trans) {
				c := i.Cond
				neg := false
				if u, ok := c.(*ssa.UnOp); ok && u.Op == token.NOT {
					c, neg = u.X, true
				}
				fv := fieldVar(c)
				if fv == nil {
					if u, ok := c.(*ssa.UnOp); ok && u.Op == token.MUL {
						fv = fieldVar(u.X)
					}
				}
				if fv != nil && fv.Name() == "IsLondon" {
					s := surv
					if neg {
						s = 1 - s
					}
					gs = append(gs, Guard{If: i, Survive: s})
				}
			}
			return gs
		}
		n2, n5 := 0, 0
		for _, rc := range rcs {
			k, ok := constInt(argOf(rc, 0))
			switch {
			case ok && k == q5:
				n5++
				r.Check(mustPass(trans, rc, isLondon(0)), "TransitionDb › refundGas(RefundQuotientEIP3529) under IsLondon", e.Pos(rc.Pos()), "quotient 5 only when London", "the EIP-3529 refund quotient is applied outside London")
			case ok && k == q2:
				n2++
				r.Check(mustPass(trans, rc, isLondon(1)), "TransitionDb › refundGas(RefundQuotient) before London", e.Pos(rc.Pos()), "quotient 2 only before London", "the pre-London refund quotient (1/2) is applied under London rules: refunds up to half of the gas used")
			default:
				r.Bad("TransitionDb › refundGas quotient", e.Pos(rc.Pos()), "refundGas is called with a quotient that is neither params.RefundQuotient nor params.RefundQuotientEIP3529")
			}
		}
		if n2 != 1 || n5 != 1 {
			r.Bad("TransitionDb › two refundGas calls", e.Pos(trans.Pos()), "expected exactly one refundGas call per quotient")
		}
		// every success return passed one of them; and they come after the EVM call
		evmCalls := callsIn(trans, false, func(c ssa.CallInstruction) bool {
			return isCallTo(c, CallSpec{pkgGethVM, "EVM", "Call"}) || isCallTo(c, CallSpec{pkgGethVM, "EVM", "Create"})
		})
		okAfter := len(evmCalls) == 2
		for _, rc := range rcs {
			for _, ec := range evmCalls {
				if reachesFrom(trans, rc.(ssa.Instruction), ec.(ssa.Instruction)) {
					okAfter = false
				}
			}
		}
		okRet := true
		for _, ret := range successReturns(trans) {
			del := map[edge]bool{}
			for _, rc := range rcs {
				for _, p := range rc.Block().Preds {
					del[edge{p.Index, rc.Block().Index}] = true
				}
			}
			if reachable(trans, trans.Blocks[0], del)[ret.Block()] {
				okRet = false
			}
		}
		if !(okAfter && okRet) {
			r.Note("debug R3: evmCalls=%d okAfter=%v okRet=%v successReturns=%d", len(evmCalls), okAfter, okRet, len(successReturns(trans)))
		}
		r.Check(okAfter && okRet, "TransitionDb › refund after execution on every success path", e.Pos(trans.Pos()), "EVM ran → refundGas → result", "a successful state transition returns without refunding unused gas, or refunds before the EVM ran")
		// refundGas shape
		recv := ssa.Value(refund.Params[0])
		qP := ssa.Value(refund.Params[1])
		gasStores := fieldStoresIn(refund, recv, "gas")
		okShape := len(gasStores) == 1
		if okShape {
			b, ok := gasStores[0].Val.(*ssa.BinOp)
			okShape = ok && b.Op == token.ADD
			if okShape {
				var add ssa.Value
				if u, ok := b.X.(*ssa.UnOp); ok && fieldVar(u.X) != nil && fieldVar(u.X).Name() == "gas" {
					add = b.Y
				} else {
					add = b.X
				}
				phi, isPhi := add.(*ssa.Phi)
				okShape = isPhi && len(phi.Edges) == 2
				if okShape {
					var div *ssa.BinOp
					var gr ssa.Value
					for _, ev := range phi.Edges {
						if d, ok := ev.(*ssa.BinOp); ok && d.Op == token.QUO {
							div = d
						} else {
							gr = ev
						}
					}
					okShape = div != nil && gr != nil && resolveLocal(div.Y) == qP
					if okShape {
						c, _ := callOf(div.X)
						okShape = c != nil && isCallTo(c, CallSpec{pkgEvmKeeper, "StateTransition", "gasUsed"})
						gc, _ := callOf(gr)
						okShape = okShape && gc != nil && isMethodNamed(gc, "GetRefund")
						// the GetRefund edge is taken only when div > GetRefund()
						if okShape {
							okShape = false
							for _, i := range ifs(refund) {
								cb, ok := i.Cond.(*ssa.BinOp)
								if !ok {
									continue
								}
								cx, _ := callOf(cb.Y)
								cy, _ := callOf(cb.X)
								if cb.Op == token.GTR && cb.X == ssa.Value(div) && cx != nil && isMethodNamed(cx, "GetRefund") {
									okShape = true
								}
								if cb.Op == token.LSS && cb.Y == ssa.Value(div) && cy != nil && isMethodNamed(cy, "GetRefund") {
									okShape = true
								}
							}
						}
					}
				}
			}
		}
		r.Check(okShape, "refundGas › st.gas += min(gasUsed()/quotient, GetRefund())", e.Pos(refund.Pos()), "capped refund added to remaining gas", "the refund added to the remaining gas is not min(gasUsed/quotient, refund counter)")
	})

	r.Rule("R4", "ORDER+PROVENANCE", "refundGas credits the sender st.gas × st.gasPrice computed from the FINAL remaining gas (no store to st.gas after the load that feeds the credit), only under SenderPaidTheFee, to msg.From(); gasUsed() = initialGas − gas; the gas pool gets the same remaining gas back", 5, func() {
		recv := ssa.Value(refund.Params[0])
		adds := callsIn(refund, false, func(c ssa.CallInstruction) bool { return isMethodNamed(c, "AddBalance") })
		if len(adds) != 1 {
			r.Bad("refundGas › one AddBalance", e.Pos(refund.Pos()), "refundGas does not contain exactly one AddBalance (sender credit)")
			return
		}
		ab := adds[0]
		amt := backSlice(ab.Common().Args[1], SliceOpts{ThroughCallArgs: alwaysThrough, NoMemory: true})
		var loads []*ssa.UnOp
		for _, l := range fieldLoads(refund, recv, "gas") {
			if amt.HasValue(l) {
				loads = append(loads, l)
			}
		}
		okAmt := len(loads) > 0 && hasFieldLoad(amt, "StateTransition", "gasPrice") && amt.Has(func(v ssa.Value) bool {
			c, ok := v.(*ssa.Call)
			return ok && isCallTo(c, CallSpec{pkgBig, "Int", "Mul"})
		})
		r.Check(okAmt, "refundGas › credit = st.gas × st.gasPrice", e.Pos(ab.Pos()), "remaining gas × gas price", "the amount returned to the sender is not (remaining gas × the price the gas was bought at)")
		okOrder := true
		for _, l := range loads {
			for _, st := range fieldStoresIn(refund, recv, "gas") {
				if reachesFrom(refund, l, st) {
					okOrder = false
				}
			}
		}
		r.Check(okOrder && len(loads) > 0, "x/evm/keeper.StateTransition.refundGas › credit uses the final remaining gas", e.Pos(ab.Pos()), "no st.gas update after the credit is computed", "st.gas is still increased (storage refund) after the sender's credit was computed from it: the sender is paid back for less gas than gasUsed() / the receipt accounts for — charge ≠ gasUsed × price")
		to := sliceFrom(ab.Common().Args[0])
		r.Check(to.Has(func(v ssa.Value) bool { c, ok := v.(*ssa.Call); return ok && isMethodNamed(c, "From") }) && hasFieldLoad(to, "StateTransition", "msg"),
			"refundGas › credit goes to msg.From()", e.Pos(ab.Pos()), "AddBalance(st.msg.From(), …)", "the gas refund is credited to an account other than the sender")
		var gFlag []Guard
		for _, i := range ifs(refund) {
			c := i.Cond
			if u, ok := c.(*ssa.UnOp); ok && u.Op == token.MUL {
				if fv := fieldVar(u.X); fv != nil && fv.Name() == "SenderPaidTheFee" {
					gFlag = append(gFlag, Guard{If: i, Survive: 0})
				}
			}
		}
		r.Check(mustPass(refund, ab, gFlag), "refundGas › credit only if the sender paid in the ante handler", e.Pos(ab.Pos()), "under SenderPaidTheFee", "a refund is paid although no fee was deducted")
		gu := e.Fn(pkgEvmKeeper, "StateTransition.gasUsed")
		okGU := false
		for _, ret := range returnsOf(gu) {
			if b, ok := ret.Results[0].(*ssa.BinOp); ok && b.Op == token.SUB {
				lx, ly := fieldVarOfLoad(b.X), fieldVarOfLoad(b.Y)
				okGU = lx != nil && ly != nil && lx.Name() == "initialGas" && ly.Name() == "gas"
			}
		}
		r.Check(okGU, "gasUsed › initialGas − gas", e.Pos(gu.Pos()), "st.initialGas - st.gas", "gasUsed() is not initial gas minus remaining gas")
		// gas pool
		ag := callsIn(refund, false, func(c ssa.CallInstruction) bool { return isMethodNamed(c, "AddGas") })
		okAG := len(ag) == 1
		if okAG {
			l := fieldVarOfLoad(ag[0].Common().Args[len(ag[0].Common().Args)-1])
			okAG = l != nil && l.Name() == "gas"
			for _, st := range fieldStoresIn(refund, recv, "gas") {
				if reachesFrom(refund, ag[0].(ssa.Instruction), st) {
					okAG = false
				}
			}
		}
		r.Check(okAG, "refundGas › remaining gas returned to the pool", e.Pos(refund.Pos()), "gp.AddGas(st.gas) after the refund", "")
	})

	r.Rule("R5", "PROVENANCE", "SetupExecutionContext installs NewInfiniteGasMeterWithLimit(ethTx.Gas()) and records ethTx.Gas() as the assumed gas used; ApplyMessageWithConfig caps the gas pool at msg.Gas(), reports execResult.UsedGas as GasUsed and stores that same value as the transaction's gas", 4, func() {
		sec := e.Fn(pkgEvmKeeper, "Keeper.SetupExecutionContext")
		txP := ssa.Value(sec.Params[2])
		gasOfTx := func(v ssa.Value) bool {
			c, _ := callOf(resolveLocal(v))
			return c != nil && isCallTo(c, CallSpec{pkgGethTypes, "Transaction", "Gas"}) && resolveLocal(c.Call.Args[0]) == txP
		}
		ms := callsTo(sec, false, CallSpec{EV + "/types", "", "NewInfiniteGasMeterWithLimit"})
		r.Check(len(ms) == 1 && gasOfTx(ms[0].Common().Args[0]), "SetupExecutionContext › gas meter limit = tx gas", e.Pos(sec.Pos()), "NewInfiniteGasMeterWithLimit(ethTx.Gas())", "the execution gas meter's limit is not the transaction's gas limit (the consume-all on failure charges a different amount than was prepaid)")
		ss := callsTo(sec, false, CallSpec{pkgEvmKeeper, "Keeper", "SetGasUsedForCurrentTxTransient"})
		r.Check(len(ss) == 1 && gasOfTx(argOf(ss[0], 1)), "SetupExecutionContext › assumed gas used = tx gas", e.Pos(sec.Pos()), "SetGasUsedForCurrentTxTransient(ctx, ethTx.Gas())", "the assume-failed gas of the transaction is not its gas limit")
		// ApplyMessageWithConfig
		msgP := ssa.Value(amwc.Params[2])
		okPool := false
		for _, c := range callsTo(amwc, false, CallSpec{pkgEvmKeeper, "", "ApplyMessage"}) {
			sl := sliceFrom(c.Common().Args[2])
			okPool = sl.Has(func(v ssa.Value) bool {
				cc, ok := v.(*ssa.Call)
				return ok && isMethodNamed(cc, "Gas") && cc.Call.Value == msgP
			})
		}
		r.Check(okPool, "ApplyMessageWithConfig › gas pool = msg.Gas()", e.Pos(amwc.Pos()), "core.GasPool(msg.Gas())", "the gas pool of the transition is not capped by the message's gas limit")
		okGU := true
		n := 0
		isUsed := func(v ssa.Value) bool { return hasFieldLoad(sliceFrom(v), "ExecutionResult", "UsedGas") }
		allInstrs(amwc, false, func(_ *ssa.Function, _ *ssa.BasicBlock, i ssa.Instruction) {
			if st, ok := i.(*ssa.Store); ok {
				if fa, ok := st.Addr.(*ssa.FieldAddr); ok && fieldName(fa) == "GasUsed" && namedTypeName(fa.X.Type()) == "MsgEthereumTxResponse" {
					n++
					if !isUsed(st.Val) {
						okGU = false
					}
				}
			}
		})
		for _, c := range callsTo(amwc, false, CallSpec{pkgEvmKeeper, "Keeper", "SetGasUsedForCurrentTxTransient"}) {
			n++
			if !isUsed(argOf(c, 1)) || sliceFrom(argOf(c, 1)).Has(func(v ssa.Value) bool { b, ok := v.(*ssa.BinOp); return ok && b.Op == token.ADD }) {
				okGU = false
			}
		}
		r.Check(okGU && n >= 2, "ApplyMessageWithConfig › response and transient gas = execResult.UsedGas", e.Pos(amwc.Pos()), "GasUsed: execResult.UsedGas", "the gas used reported to consensus / stored per transaction is not the state transition's gas used")
	})

	r.Rule("R7", "SHAPE", "cumulative gas of a receipt is the running sum over the block's Ethereum transactions: own gas used + the per-transaction gas slots of all earlier transactions (which include the gas limit recorded for transactions that failed after the ante handler)", 1, func() {
		loopOK, ownOK := cumulativeGasShape(e)
		amwc := e.Fn(pkgEvmKeeper, "Keeper.ApplyMessageWithConfig")
		r.Check(setupExecGasBeforeReceipt(e), "SetupExecutionContext › gas slot written before the assume-failed receipt is built", e.Pos(e.Fn(pkgEvmKeeper, "Keeper.SetupExecutionContext").Pos()), "SetGasUsedForCurrentTxTransient dominates the receipt computation", "the receipt kept for a transaction that fails outside EVM execution is computed before its gas slot (the gas limit) is written: it shows cumulative gas without the transaction's own charge although the sender pays the full gas limit")
		r.Check(loopOK && ownOK, "ApplyMessageWithConfig › cumulative gas = own + Σ previous slots", e.Pos(amwc.Pos()), "gasUsed + Σ_{i<TxIndex} slot(i)", "the receipt's cumulative gas is not this transaction's gas plus the gas slots of the transactions before it (e.g. a running total kept in a store branch that is discarded when a transaction fails outside the EVM)")
	})

	r.Rule("R6", "SHAPE", "ResetGasMeterAndConsumeGas refunds exactly GasConsumed() of the context's gas meter and then consumes its gasUsed parameter on the same meter", 1, func() {
		ctxP, usedP := ssa.Value(reset.Params[1]), ssa.Value(reset.Params[2])
		onMeter := func(c ssa.CallInstruction) bool {
			cc := c.Common()
			if !cc.IsInvoke() {
				return false
			}
			m, _ := callOf(cc.Value)
			return m != nil && isCallTo(m, CallSpec{pkgSdkTypes, "Context", "GasMeter"}) && resolveLocal(m.Call.Args[0]) == ctxP
		}
		rf := callsIn(reset, false, func(c ssa.CallInstruction) bool { return isMethodNamed(c, "RefundGas") && onMeter(c) })
		cs := callsIn(reset, false, func(c ssa.CallInstruction) bool { return isMethodNamed(c, "ConsumeGas") && onMeter(c) })
		ok := len(rf) == 1 && len(cs) == 1
		if ok {
			a, _ := callOf(rf[0].Common().Args[0])
			ok = a != nil && isMethodNamed(a, "GasConsumed") && onMeter(a) && resolveLocal(cs[0].Common().Args[0]) == usedP &&
				dominatesInstr(rf[0].(ssa.Instruction), cs[0].(ssa.Instruction)) && len(reset.Blocks) == 1
		}
		r.Check(ok, "x/evm/keeper.Keeper.ResetGasMeterAndConsumeGas › refund all, then consume gasUsed", e.Pos(reset.Pos()), "RefundGas(GasConsumed()); ConsumeGas(gasUsed)", "the reset helper does not set the meter to exactly gasUsed")
	})
}

// Package canary holds one tiny seeded violation per rule whose expected instance count on the real tree is zero.
// Every run of the analyser applies the same detector code to these functions first; a detector that no longer
// reports its canary makes the check fail with CHECKER-BROKEN (never a VIOLATION of the property).
package canary

import (
	"math/rand"
	"os"
	"time"
)

// WallClockBranch lets the wall clock decide a result (C01-R1).
func WallClockBranch(deadline int64) bool {
	return time.Now().Unix() > deadline
}

// WallClockTelemetryOnly is the allowed idiom: the value only feeds logging (C01-R1 must stay silent).
func WallClockTelemetryOnly(l Logger) {
	start := time.Now()
	l.Info("took", time.Since(start))
}

type Logger interface{ Info(msg string, kv ...interface{}) }

// RandomChoice lets a random number decide (C01-R1).
func RandomChoice(xs []int) int { return xs[rand.Intn(len(xs))] }

// EnvDependent reads the environment (C01-R1).
func EnvDependent() string { return os.Getenv("HOME") }

// Goroutine starts a goroutine and waits on a channel (C01-R3).
func Goroutine() int {
	ch := make(chan int)
	go func() { ch <- 1 }()
	return <-ch
}

// MapOrder appends map keys without sorting (C01-R2).
func MapOrder(m map[string]int) []string {
	var out []string
	for k := range m {
		out = append(out, k)
	}
	return out
}

// MapOrderSorted is the allowed idiom (C01-R2 must stay silent).
func MapOrderSorted(m map[string]int) []string {
	out := make([]string, 0, len(m))
	for k := range m {
		out = append(out, k)
	}
	sortStrings(out)
	return out
}

func sortStrings(s []string) {}

module canary

go 1.22

package main

import (
	"go/constant"
	"go/token"
	"go/types"

	"golang.org/x/tools/go/ssa"
)

// provesGE decides "the integer (or *big.Int) value v, used in block `at`, is >= k on every path" (k >= 0) by structural
// lower-bound reasoning: constants, value-preserving widenings, φ-nodes (every alternative, judged at the predecessor it
// arrives from), the big.Int constructors big.NewInt / SetUint64 and the reader Uint64, repo functions with a body (every
// returned value, judged at its return), and — for anything else — a dominating comparison of the same access path with a
// constant whose surviving edge proves the bound. It returns the reason when it cannot prove the bound.
func (e *Engine) provesGE(v ssa.Value, k int64, at *ssa.BasicBlock, depth int) (bool, string) {
	if depth > 12 {
		return false, "depth bound"
	}
	if u, isU := v.(*ssa.UnOp); isU && u.Op == token.MUL {
		if a, isA := u.X.(*ssa.Alloc); isA {
			if st := storesTo(a); len(st) == 1 {
				return e.provesGE(st[0].Val, k, at, depth+1)
			}
		}
	}
	switch x := v.(type) {
	case *ssa.Const:
		if x.Value != nil && x.Value.Kind() == constant.Int && constant.Compare(x.Value, token.GEQ, constant.MakeInt64(k)) {
			return true, ""
		}
		return false, "constant below the bound"
	case *ssa.Convert:
		if isWideInt(x.Type()) && isWideInt(x.X.Type()) {
			return e.provesGE(x.X, k, at, depth+1)
		}
		return false, "narrowing conversion"
	case *ssa.ChangeType:
		return e.provesGE(x.X, k, at, depth+1)
	case *ssa.Phi:
		for i, ev := range x.Edges {
			if ok, why := e.provesGE(ev, k, x.Block().Preds[i], depth+1); !ok {
				return false, why
			}
		}
		return true, ""
	case *ssa.Call:
		switch {
		case isCallTo(x, CallSpec{pkgBig, "Int", "Uint64"}), isCallTo(x, CallSpec{pkgBig, "Int", "Int64"}):
			return e.provesGE(x.Call.Args[0], k, at, depth+1)
		case isCallTo(x, CallSpec{pkgBig, "", "NewInt"}):
			return e.provesGE(x.Call.Args[0], k, at, depth+1)
		case isCallTo(x, CallSpec{pkgBig, "Int", "SetUint64"}), isCallTo(x, CallSpec{pkgBig, "Int", "SetInt64"}):
			return e.provesGE(x.Call.Args[1], k, at, depth+1)
		}
		if sc := x.Call.StaticCallee(); sc != nil && sc.Blocks != nil && e.RepoOwned(pkgPathOf(sc)) && sc.Signature.Results().Len() == 1 {
			rets := returnsOf(sc)
			if len(rets) == 0 {
				return false, "callee never returns"
			}
			for _, ret := range rets {
				if ok, why := e.provesGE(ret.Results[0], k, ret.Block(), depth+1); !ok {
					return false, fnKey(sc) + ": " + why
				}
			}
			return true, ""
		}
		return false, "result of an opaque call"
	}
	if at == nil {
		return false, "no context"
	}
	fn := at.Parent()
	gs, bounds := lowerBoundGuards(fn, v)
	for j, g := range gs {
		if bounds[j] >= k && (blockDominatedByEdge(fn, at, g)) {
			return true, ""
		}
	}
	return false, "value is not dominated by a test against a constant >= " + itoa(int(k))
}

func isWideInt(t types.Type) bool {
	b, ok := t.Underlying().(*types.Basic)
	if !ok {
		return false
	}
	switch b.Kind() {
	case types.Int64, types.Uint64, types.Int, types.Uint:
		return true
	}
	return false
}

package main

import (
	"flag"
	"fmt"
	"os"
	"path/filepath"
	"sort"
	"strconv"
	"strings"
	"syscall"
)

type propertyFunc func(e *Engine, r *Report)

var registry = map[string]propertyFunc{}

// needsL4 lists properties whose rules use the whole-program call graph (bounded concurrency).
var needsL4 = map[string]bool{}

// verifDir is the /verif directory (location of known_findings.json, the canary module, evidence).
var verifDir string

func main() {
	prop := flag.String("property", "", "property id (C01…C20)")
	tier := flag.String("tier", os.Getenv("VERIF_TIER"), "quick|thorough")
	repo := flag.String("repo", "/repo", "repository under analysis")
	verif := flag.String("verif", "", "verif directory (default: parent of the binary's directory)")
	list := flag.Bool("list", false, "list implemented properties")
	out := flag.String("out", "", "evidence directory (default <verif>/evidence; self-validation on scratch copies passes a scratch directory)")
	flag.Parse()
	if *list {
		var ids []string
		for k := range registry {
			ids = append(ids, k)
		}
		sort.Strings(ids)
		fmt.Println(strings.Join(ids, " "))
		return
	}
	if *tier != "thorough" {
		*tier = "quick"
	}
	if *verif == "" {
		exe, _ := os.Executable()
		*verif = filepath.Dir(filepath.Dir(exe))
	}
	seed := 0
	if s := os.Getenv("VERIF_SEED"); s != "" {
		seed, _ = strconv.Atoi(s)
	}
	f := registry[*prop]
	if f == nil {
		fmt.Printf("unknown property %q\n", *prop)
		os.Exit(2)
	}
	if needsL4[*prop] {
		release := acquireSlot(filepath.Join(*verif, ".locks"), 3)
		defer release()
	}
	abs, _ := filepath.Abs(*repo)
	e, err := Load(abs, *tier)
	if err != nil {
		// a tree that does not load/type-check is a failed check, never a pass
		fmt.Printf("undecided: engine load: %v\n", err)
		fmt.Printf("VIOLATION property=%s replay=%s\n", *prop, "(repository does not load: "+oneLine(err.Error())+")")
		os.Exit(1)
	}
	verifDir = *verif
	r := NewReport(*prop, *tier, e)
	f(e, r)
	code := r.Finish(*verif, *out, seed)
	os.Exit(code)
}

// acquireSlot takes one of n file locks (bounds concurrent whole-program call-graph builds: ~7 GB each).
func acquireSlot(dir string, n int) func() {
	os.MkdirAll(dir, 0o755)
	for {
		for i := 0; i < n; i++ {
			f, err := os.OpenFile(filepath.Join(dir, fmt.Sprintf("slot%d", i)), os.O_CREATE|os.O_RDWR, 0o644)
			if err != nil {
				return func() {}
			}
			if err := syscall.Flock(int(f.Fd()), syscall.LOCK_EX|syscall.LOCK_NB); err == nil {
				return func() { syscall.Flock(int(f.Fd()), syscall.LOCK_UN); f.Close() }
			}
			f.Close()
		}
		// all busy: block on slot 0
		f, err := os.OpenFile(filepath.Join(dir, "slot0"), os.O_CREATE|os.O_RDWR, 0o644)
		if err != nil {
			return func() {}
		}
		if err := syscall.Flock(int(f.Fd()), syscall.LOCK_EX); err == nil {
			return func() { syscall.Flock(int(f.Fd()), syscall.LOCK_UN); f.Close() }
		}
		f.Close()
	}
}

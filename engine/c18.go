package main

import (
	"fmt"
	"go/token"
	"go/types"
	"sort"
	"strings"

	"golang.org/x/tools/go/ssa"
)

func init() { registry["C18"] = checkC18 }

type storeOp struct {
	fn     *ssa.Function
	call   ssa.CallInstruction
	kind   string // write | read | iterate
	global *ssa.Global
	keyed  bool // the key has a variable suffix (collection), not the bare prefix
}

// staticReach: functions reachable from roots through static calls, closures and method values inside repository code.
func staticReach(e *Engine, roots ...*ssa.Function) map[*ssa.Function]bool {
	seen := map[*ssa.Function]bool{}
	work := append([]*ssa.Function{}, roots...)
	for len(work) > 0 {
		f := work[len(work)-1]
		work = work[:len(work)-1]
		if f == nil || seen[f] || f.Blocks == nil {
			continue
		}
		seen[f] = true
		work = append(work, f.AnonFuncs...)
		allInstrs(f, false, func(_ *ssa.Function, _ *ssa.BasicBlock, i ssa.Instruction) {
			switch x := i.(type) {
			case ssa.CallInstruction:
				if sc := x.Common().StaticCallee(); sc != nil && e.RepoOwned(pkgPathOf(sc)) {
					work = append(work, sc)
				}
			case *ssa.MakeClosure:
				if fn, ok := x.Fn.(*ssa.Function); ok {
					work = append(work, fn)
				}
			}
			if v, ok := i.(ssa.Value); ok {
				_ = v
			}
		})
	}
	return seen
}

// storeOps enumerates KV store operations of fn whose key (or store) derives from a key-prefix global of prefixPkg.
func storeOps(e *Engine, fn *ssa.Function, prefixPkg string) []storeOp {
	var out []storeOp
	globalsIn := func(v ssa.Value) ([]*ssa.Global, bool) {
		sl := backSlice(v, SliceOpts{ThroughCallArgs: alwaysThrough, IntoCallees: func(f *ssa.Function) bool { return pkgPathOf(f) == prefixPkg }, Depth: 2})
		var gs []*ssa.Global
		bare := false
		for x := range sl.Vals {
			if g, ok := x.(*ssa.Global); ok && g.Pkg != nil && g.Pkg.Pkg.Path() == prefixPkg && (strings.HasPrefix(g.Name(), "KeyPrefix") || strings.HasPrefix(g.Name(), "Key") || strings.HasSuffix(g.Name(), "Key")) && !strings.Contains(g.Name(), "Transient") {
				gs = append(gs, g)
			}
		}
		if u, ok := resolveLocal(v).(*ssa.UnOp); ok {
			if _, isG := u.X.(*ssa.Global); isG {
				bare = true
			}
		}
		return gs, bare
	}
	isTransient := func(store ssa.Value) bool {
		return sliceFrom(store).Has(func(v ssa.Value) bool {
			c, ok := v.(*ssa.Call)
			return ok && isCallTo(c, CallSpec{pkgSdkTypes, "Context", "TransientStore"})
		})
	}
	for _, c := range callsIn(fn, false, func(ssa.CallInstruction) bool { return true }) {
		fo := calleeObj(c)
		if fo == nil {
			continue
		}
		cc := c.Common()
		name := fo.Name()
		var kind string
		var keyArgs []ssa.Value
		var store ssa.Value
		// receiver and arguments, for interface (invoke) and concrete (static method) calls alike
		var recv ssa.Value
		args := cc.Args
		if cc.IsInvoke() {
			recv = cc.Value
		} else if sig, ok := fo.Type().(*types.Signature); ok && sig.Recv() != nil && len(args) > 0 {
			recv, args = args[0], args[1:]
		}
		switch {
		case recv != nil && (name == "Set" || name == "Delete") && len(args) >= 1:
			kind, keyArgs, store = "write", []ssa.Value{args[0]}, recv
		case recv != nil && (name == "Get" || name == "Has") && len(args) == 1:
			kind, keyArgs, store = "read", []ssa.Value{args[0]}, recv
		case recv != nil && (name == "Iterator" || name == "ReverseIterator"):
			kind, keyArgs, store = "iterate", args, recv
		case name == "KVStorePrefixIterator" || name == "KVStoreReversePrefixIterator":
			kind, keyArgs, store = "iterate", []ssa.Value{cc.Args[1]}, cc.Args[0]
		default:
			continue
		}
		if !strings.Contains(store.Type().String(), "Store") {
			continue
		}
		if isTransient(store) {
			continue
		}
		seen := map[*ssa.Global]bool{}
		add := func(g *ssa.Global, keyed bool) {
			if seen[g] {
				return
			}
			seen[g] = true
			out = append(out, storeOp{fn, c, kind, g, keyed})
		}
		for _, ka := range keyArgs {
			gs, bare := globalsIn(ka)
			for _, g := range gs {
				add(g, !bare)
			}
			if len(gs) == 0 {
				// the key (prefix) is a parameter of a shared helper such as iteratePrefix(ctx, prefix, cb): the operation belongs
				// to each caller, with the prefix found in the argument of that call (two levels)
				var lift func(f *ssa.Function, v ssa.Value, depth int)
				lift = func(f *ssa.Function, v ssa.Value, depth int) {
					if depth > 2 {
						return
					}
					for x := range backSlice(v, SliceOpts{ThroughCallArgs: alwaysThrough}).Vals {
						p, isP := x.(*ssa.Parameter)
						if !isP || p.Parent() != f {
							continue
						}
						k := paramIndex(p)
						for _, cs := range e.repoCallSites(func(c ssa.CallInstruction) bool { return c.Common().StaticCallee() == f }) {
							if k < 0 || k >= len(cs.Call.Common().Args) {
								continue
							}
							arg := cs.Call.Common().Args[k]
							g2, bare2 := globalsIn(arg)
							for _, g := range g2 {
								out = append(out, storeOp{cs.Fn, cs.Call, kind, g, !bare2 || kind == "iterate"})
							}
							if len(g2) == 0 {
								lift(cs.Fn, arg, depth+1)
							}
						}
					}
				}
				lift(fn, ka, 1)
			}
		}
		// prefix stores: prefix.NewStore(store, G) — every operation on it is keyed under G
		gs, _ := globalsIn(store)
		for _, g := range gs {
			add(g, true)
		}
	}
	return out
}

func checkC18(e *Engine, r *Report) {
	e.BuildSSA()
	r.NotDecided("equality of exported → imported → exported state as values over all reachable states (history property); only the structural carrier is decided: every persistent key family written at run time is enumerated by the module's export and fed back by its import")
	r.NotDecided("round-tripping of the SDK modules' own state (auth, bank, staking …): trusted")

	type mod struct {
		name, root, keeper, types string
		exportFn, initFn          string
		exempt                    map[string]string
	}
	mods := []mod{
		{"evm", EV + "/x/evm", pkgEvmKeeper, pkgEvmTypes, "ExportGenesis", "InitGenesis", map[string]string{
			"KeyPrefixBlockHash": "ring of recent block hashes, re-filled by BeginBlock for every new block (BLOCKHASH of pre-export heights is a stated limit)",
			"KeyEip155ChainId":   "derived from the chain id of the context: InitGenesis and every BeginBlock call WithChainID, which re-writes it",
		}},
		{"feemarket", EV + "/x/feemarket", pkgFmKeeper, pkgFmTypes, "ExportGenesis", "InitGenesis", nil},
		{"cpc", EV + "/x/cpc", pkgCpcKeeper, pkgCpcTypes, "ExportGenesis", "InitGenesis", nil},
		{"vauth", EV + "/x/vauth", pkgVauthKeeper, pkgVauthTypes, "AppModule.ExportGenesis", "AppModule.InitGenesis", nil},
	}

	r.Rule("R1", "CENSUS+EFFECT", "for every custom module: each persistent key prefix that run-time code writes is read by the module's ExportGenesis — iterated in full when it is a keyed collection — and written by its InitGenesis", 10, func() {
		for _, m := range mods {
			exp := e.Fn(m.root, m.exportFn)
			ini := e.Fn(m.root, m.initFn)
			expReach := staticReach(e, exp)
			iniReach := staticReach(e, ini)
			var ops []storeOp
			for _, f := range e.SrcFuncs(func(p string) bool { return p == m.keeper || p == m.root || strings.HasPrefix(p, m.root+"/") }) {
				if IsGenerated(e.File(f.Pos())) || isTestSupportPkg(pkgPathOf(f)) {
					continue
				}
				ops = append(ops, storeOps(e, f, m.types)...)
			}
			type info struct {
				runtimeWriter, keyed               bool
				expRead, expIter, iniWrite, anyIni bool
				wpos                               string
			}
			inf := map[string]*info{}
			get := func(g *ssa.Global) *info {
				if inf[g.Name()] == nil {
					inf[g.Name()] = &info{}
				}
				return inf[g.Name()]
			}
			// functions that run once per entry of an iterated collection during export: literals handed to a function that
			// iterates a store, plus whatever they call (reads made there enumerate a second collection by derived keys,
			// e.g. code by the code hash of every iterated code-hash entry)
			iterFns := map[*ssa.Function]bool{}
			for _, op := range ops {
				if op.kind == "iterate" {
					iterFns[topFn(op.fn)] = true
				}
			}
			perEntry := map[*ssa.Function]bool{}
			for f := range expReach {
				for _, c := range callsIn(f, false, func(c ssa.CallInstruction) bool {
					sc := c.Common().StaticCallee()
					return sc != nil && iterFns[sc]
				}) {
					for _, a := range c.Common().Args {
						if mc, ok := resolveLocal(a).(*ssa.MakeClosure); ok {
							if lit, isFn := mc.Fn.(*ssa.Function); isFn {
								for g := range staticReach(e, lit) {
									perEntry[g] = true
								}
							}
						}
					}
				}
			}
			for _, op := range ops {
				in := get(op.global)
				top := topFn(op.fn)
				if op.kind == "read" && (perEntry[op.fn] || perEntry[top]) && (expReach[op.fn] || expReach[top]) {
					in.expIter = true // enumerated through the keys of an iterated collection
				}
				switch op.kind {
				case "write":
					if op.keyed {
						in.keyed = true
					}
					if iniReach[op.fn] || iniReach[top] {
						in.iniWrite = true
					}
					// a run-time writer: reachable from something other than genesis (every keeper method is callable at run time)
					if top != ini {
						in.runtimeWriter = true
						in.wpos = e.Pos(op.call.Pos())
					}
				case "read":
					if expReach[op.fn] || expReach[top] {
						in.expRead = true
					}
				case "iterate":
					if expReach[op.fn] || expReach[top] {
						in.expIter, in.expRead = true, true
					}
				}
			}
			var names []string
			for n := range inf {
				names = append(names, n)
			}
			sort.Strings(names)
			for _, n := range names {
				in := inf[n]
				if !in.runtimeWriter {
					continue
				}
				key := m.name + " › " + n
				if why, ok := m.exempt[n]; ok {
					r.OK(key+" (exempt)", in.wpos, why)
					continue
				}
				okExp := in.expRead && (!in.keyed || in.expIter)
				switch {
				case okExp && in.iniWrite:
					r.OK(key, in.wpos, "read by ExportGenesis, written by InitGenesis")
				case !okExp && in.keyed:
					r.Bad(key+" › exported", in.wpos, "run-time code writes records under "+n+" but the module's ExportGenesis never iterates that prefix: these records are lost by export → import")
				case !okExp:
					r.Bad(key+" › exported", in.wpos, "run-time code writes "+n+" but the module's ExportGenesis does not read it")
				default:
					r.Bad(key+" › imported", in.wpos, "ExportGenesis reads "+n+" but InitGenesis never writes it back")
				}
			}
		}
	})

	r.Rule("R2", "SHAPE", "EVM contract export is complete: ExportGenesis visits every code-hash entry and, for each contract, exports the code by hash and the whole storage; the callbacks handed to the iterating helpers never end the iteration on a data-dependent condition; InitGenesis writes code hash, code and every storage entry of every genesis account", 5, func() {
		exp := e.Fn(EV+"/x/evm", "ExportGenesis")
		ini := e.Fn(EV+"/x/evm", "InitGenesis")
		reach := staticReach(e, exp)
		// polarity of the two iterating helpers: which callback result stops the loop
		var stopValue func(helper *ssa.Function) (bool, bool)
		stopValue = func(helper *ssa.Function) (bool, bool) {
			if len(helper.Params) == 0 {
				return false, false
			}
			cb := helper.Params[len(helper.Params)-1]
			// composed helper: the loop lives in another helper h2, which receives an adapter literal `func(k, v) bool { return [!]cb(…) }`
			for _, hc := range callsIn(helper, false, func(c ssa.CallInstruction) bool {
				h2 := c.Common().StaticCallee()
				return h2 != nil && h2 != helper && h2.Blocks != nil && pkgPathOf(h2) == pkgPathOf(helper)
			}) {
				a := hc.Common().Args
				if len(a) == 0 {
					continue
				}
				mc, isMC := a[len(a)-1].(*ssa.MakeClosure)
				if !isMC {
					continue
				}
				lit := mc.Fn.(*ssa.Function)
				// the literal captures cb and every return is the (possibly negated) result of calling it
				capt := -1
				for bi, b := range mc.Bindings {
					if resolveLocal(b) == ssa.Value(cb) {
						capt = bi
					}
					if al, isA := b.(*ssa.Alloc); isA {
						for _, st := range storesTo(al) {
							if st.Val == ssa.Value(cb) {
								capt = bi
							}
						}
					}
				}
				if capt < 0 || capt >= len(lit.FreeVars) {
					continue
				}
				negAll, posAll, nret := true, true, 0
				for _, ret := range returnsOf(lit) {
					nret++
					v := ret.Results[0]
					neg := false
					if u, isU := v.(*ssa.UnOp); isU && u.Op == token.NOT {
						v, neg = u.X, true
					}
					c, _ := callOf(v)
					isCb := false
					if c != nil {
						fv := c.Call.Value
						if u, isU := fv.(*ssa.UnOp); isU && u.Op == token.MUL {
							fv = u.X
						}
						isCb = fv == ssa.Value(lit.FreeVars[capt])
					}
					if !isCb {
						negAll, posAll = false, false
					} else if neg {
						posAll = false
					} else {
						negAll = false
					}
				}
				if nret == 0 || (!negAll && !posAll) {
					continue
				}
				if s2, ok2 := stopValue(hc.Common().StaticCallee()); ok2 {
					if negAll {
						return !s2, true
					}
					return s2, true
				}
			}
			for _, c := range callsIn(helper, false, func(c ssa.CallInstruction) bool { return c.Common().Value == ssa.Value(cb) }) {
				cc, ok := c.(*ssa.Call)
				if !ok {
					continue
				}
				for _, i := range ifs(helper) {
					cond := i.Cond
					neg := false
					if u, isU := cond.(*ssa.UnOp); isU && u.Op.String() == "!" {
						cond, neg = u.X, true
					}
					if cond != ssa.Value(cc) {
						continue
					}
					for _, l := range loopsOf(helper) {
						if !l.Body[i.Block()] {
							continue
						}
						// successor that leaves the loop
						for k, s := range i.Block().Succs {
							if !l.Body[s] || reachesReturnWithoutHeader(helper, s, l) {
								stop := k == 0
								if neg {
									stop = !stop
								}
								return stop, true
							}
						}
					}
				}
			}
			return false, false
		}
		helpers := map[string]*ssa.Function{
			"IterateContracts": e.Fn(pkgEvmKeeper, "Keeper.IterateContracts"),
			"ForEachStorage":   e.Fn(pkgEvmKeeper, "Keeper.ForEachStorage"),
		}
		n := 0
		var fs []*ssa.Function
		for f := range reach {
			fs = append(fs, f)
		}
		sort.Slice(fs, func(i, j int) bool { return fnKey(fs[i]) < fnKey(fs[j]) })
		for _, f := range fs {
			for hn, h := range helpers {
				stop, okP := stopValue(h)
				if !okP {
					r.Undec("iteration polarity › "+hn, e.Pos(h.Pos()), "cannot determine which callback result stops the iteration")
					continue
				}
				for _, c := range callsIn(f, false, func(c ssa.CallInstruction) bool { return c.Common().StaticCallee() == h }) {
					n++
					args := c.Common().Args
					cbv := resolveLocal(args[len(args)-1])
					var lit *ssa.Function
					if mc, ok := cbv.(*ssa.MakeClosure); ok {
						lit, _ = mc.Fn.(*ssa.Function)
					} else if fn, ok := cbv.(*ssa.Function); ok {
						lit = fn
					}
					key := "full iteration › " + fnKey(f) + " → " + hn
					if lit == nil {
						r.Undec(key, e.Pos(c.Pos()), "callback is not a function literal")
						continue
					}
					ok := true
					for _, ret := range returnsOf(lit) {
						b, isK := constBool(ret.Results[0])
						if !isK || b == stop {
							ok = false
						}
					}
					r.Check(ok, key, e.Pos(c.Pos()), "the callback always continues", "the export callback can stop the iteration early (returns the helper's stop value on some path): the entries after that point are not exported and are lost by export → import")
				}
			}
		}
		if n < 2 {
			r.Bad("export iterations", e.Pos(exp.Pos()), "ExportGenesis does not iterate contracts and storage through the keeper's helpers")
		}
		// exported account = (address, code by hash, full storage)
		okAcc := false
		for _, f := range fs {
			allInstrs(f, false, func(_ *ssa.Function, _ *ssa.BasicBlock, i ssa.Instruction) {
				a, ok := i.(*ssa.Alloc)
				if !ok || namedTypeName(a.Type()) != "GenesisAccount" {
					return
				}
				lf := literalFields(a)
				if lf["Code"] != nil && lf["Storage"] != nil && lf["Address"] != nil {
					cs, ss := sliceFrom(lf["Code"]), sliceFrom(lf["Storage"])
					if hasMethodCall(cs, "GetCode") && (hasMethodCall(ss, "GetAccountStorage") || hasMethodCall(ss, "ForEachStorage")) {
						okAcc = true
					}
				}
			})
		}
		r.Check(okAcc, "ExportGenesis › account = (address, GetCode(hash), GetAccountStorage(address))", e.Pos(exp.Pos()), "code and full storage exported per contract", "an exported contract account lacks its code or its storage")
		// import writes all three
		inLoop := func(c ssa.CallInstruction) bool {
			for _, l := range loopsOf(ini) {
				if l.Body[c.Block()] {
					return true
				}
			}
			return false
		}
		okI := true
		for _, mname := range []string{"SetCodeHash", "SetCode", "SetState"} {
			cs := callsIn(ini, false, func(c ssa.CallInstruction) bool { return isMethodNamed(c, mname) })
			if len(cs) == 0 || !inLoop(cs[0]) {
				okI = false
			}
		}
		r.Check(okI, "InitGenesis › writes code hash, code and storage of every account", e.Pos(ini.Pos()), "SetCodeHash / SetCode / SetState in the account loop", "InitGenesis does not restore one of code hash, code, storage")
		// import is verbatim: InitGenesis writes through the keeper exactly the records of the genesis state — the writer calls are
		// a frozen, hand-confirmed table per module (a new writer such as SetBaseFee stores something ExportGenesis never produced),
		// and the parameters are stored as given (no value computed on the way)
		for _, mod := range []struct {
			pkg, keeper string
			writers     []string
		}{
			{EV + "/x/feemarket", pkgFmKeeper, []string{"SetParams"}},
			{EV + "/x/evm", pkgEvmKeeper, []string{"SetCode", "SetCodeHash", "SetParams", "SetState", "WithChainID"}},
		} {
			f := e.Fn(mod.pkg, "InitGenesis")
			reg := e.privateRegion(f)
			got := map[string]bool{}
			okParams := false
			for _, c := range reg.Calls(func(c ssa.CallInstruction) bool {
				fo := calleeObj(c)
				return fo != nil && fo.Pkg() != nil && fo.Pkg().Path() == mod.keeper && recvNamed(fo) != nil && recvNamed(fo).Obj().Name() == "Keeper"
			}) {
				nm := calleeObj(c).Name()
				isWriter := false
				for _, pre := range []string{"Set", "Delete", "Remove", "With", "Add", "Increase", "Reset", "Init", "Store", "Save", "Update"} {
					if strings.HasPrefix(nm, pre) {
						isWriter = true
					}
				}
				if !isWriter {
					continue
				}
				got[nm] = true
				if nm == "SetParams" {
					a := c.Common().Args
					sl := backSlice(a[len(a)-1], SliceOpts{})
					verbatim := hasFieldLoad(sl, "GenesisState", "Params") && !sl.Has(func(v ssa.Value) bool { _, isCall := v.(*ssa.Call); return isCall })
					okParams = verbatim
				}
			}
			var extra, missing []string
			want := map[string]bool{}
			for _, w := range mod.writers {
				want[w] = true
				if !got[w] {
					missing = append(missing, w)
				}
			}
			for g := range got {
				if !want[g] {
					extra = append(extra, g)
				}
			}
			sort.Strings(extra)
			r.Check(len(extra) == 0 && len(missing) == 0 && okParams, shortPkg(mod.pkg)+".InitGenesis › imports the genesis state verbatim", e.Pos(f.Pos()), "keeper writers: "+strings.Join(mod.writers, ", ")+"; SetParams(ctx, data.Params) as given", "InitGenesis does not store exactly what the genesis state holds (unexpected writer calls: ["+strings.Join(extra, ", ")+"], missing: ["+strings.Join(missing, ", ")+"], parameters stored verbatim: "+fmt.Sprint(okParams)+"): importing an export does not reproduce the exported state, and a second export differs from the first")
		}
		// cpc: a genesis flag that makes InitGenesis run a deployment whose address is taken from the module account's sequence
		// (GetNextDynamicCustomPrecompiledContractAddress) is an instruction, not state: exported as set, the import would deploy
		// the contract again at a different address and advance the sequence, so export → import → export does not reproduce
		{
			cpcInit := e.Fn(EV+"/x/cpc", "InitGenesis")
			cpcExp := e.Fn(EV+"/x/cpc", "ExportGenesis")
			dyn := map[*ssa.Function]bool{}
			if f := e.TryFn(pkgCpcKeeper, "Keeper.GetNextDynamicCustomPrecompiledContractAddress"); f != nil {
				dyn[f] = true
			}
			kfs := e.SrcFuncs(func(p string) bool { return p == pkgCpcKeeper })
			for changed := true; changed; {
				changed = false
				for _, f := range kfs {
					if dyn[f] || f.Parent() != nil {
						continue
					}
					for _, c := range callsIn(f, true, func(ssa.CallInstruction) bool { return true }) {
						if sc := c.Common().StaticCallee(); sc != nil && dyn[sc] {
							dyn[f], changed = true, true
							break
						}
					}
				}
			}
			dynFlags := map[string]bool{}
			for _, i := range ifs(cpcInit) {
				fv := fieldVar(i.Cond)
				if u, isU := i.Cond.(*ssa.UnOp); isU && fv == nil {
					fv = fieldVar(u.X)
				}
				if fv == nil {
					continue
				}
				for b := range reachable(cpcInit, i.Block().Succs[0], nil) {
					if b == i.Block().Succs[1] {
						continue
					}
					for _, in := range b.Instrs {
						if c, ok := in.(ssa.CallInstruction); ok {
							if sc := c.Common().StaticCallee(); sc != nil && dyn[sc] && i.Block().Succs[0].Dominates(b) {
								dynFlags[fv.Name()] = true
							}
						}
					}
				}
			}
			okFlags := len(dyn) > 0
			var badFlags []string
			for _, ret := range returnsOf(cpcExp) {
				lit := resolveLocal(ret.Results[0])
				if u, isU := lit.(*ssa.UnOp); isU {
					lit = u.X
				}
				fields := literalFields(lit)
				for fl := range dynFlags {
					v, set := fields[fl]
					if !set {
						continue // zero value: false
					}
					if b, isK := constBool(v); !isK || b {
						okFlags = false
						badFlags = append(badFlags, fl)
					}
				}
			}
			sort.Strings(badFlags)
			r.Check(okFlags, "x/cpc.ExportGenesis › sequence-dependent deployments are not re-triggered", e.Pos(cpcExp.Pos()), fmt.Sprintf("dynamic-address deploy flags %v exported as false", keysOf(dynFlags)), "ExportGenesis sets a genesis flag ("+strings.Join(badFlags, ", ")+") that makes InitGenesis deploy a contract at an address derived from the module account's sequence: the re-imported chain has that contract at another address, the sequence advances, and a second export differs from the first")
		}
		// cpc: the deployments InitGenesis repeats for state-exported / unconditional flags (fixed-address precompiles) can fail only
		// for reasons inside the module (its own registry, the metadata): auth and bank are imported BEFORE cpc, so a refusal that
		// depends on what those modules hold (an account at the precompile's address) makes a legitimately exported state
		// impossible to import
		{
			cpcInit := e.Fn(EV+"/x/cpc", "InitGenesis")
			dynName := func(f *ssa.Function) bool { return strings.Contains(f.Name(), "Erc20") }
			reach := map[*ssa.Function]bool{}
			var work []*ssa.Function
			for _, c := range callsIn(cpcInit, false, func(c ssa.CallInstruction) bool {
				sc := c.Common().StaticCallee()
				return sc != nil && pkgPathOf(sc) == pkgCpcKeeper && strings.HasPrefix(sc.Name(), "Deploy") && !dynName(sc)
			}) {
				work = append(work, c.Common().StaticCallee())
			}
			for len(work) > 0 {
				f := work[len(work)-1]
				work = work[:len(work)-1]
				if reach[f] || f.Blocks == nil {
					continue
				}
				reach[f] = true
				for _, c := range callsIn(f, true, func(ssa.CallInstruction) bool { return true }) {
					if sc := c.Common().StaticCallee(); sc != nil && pkgPathOf(sc) == pkgCpcKeeper {
						work = append(work, sc)
					}
				}
			}
			var foreign []string
			for f := range reach {
				for _, i := range ifs(f) {
					// one side must be a failure exit (error return or panic)
					if _, isExit := errorExitGuard(f, i, func(ssa.CallInstruction) bool { return false }); !isExit && !endsInPanicRegion(i.Block().Succs[0]) && !endsInPanicRegion(i.Block().Succs[1]) {
						continue
					}
					sl := backSlice(i.Cond, SliceOpts{ThroughCallArgs: alwaysThrough})
					for _, c := range sl.Calls() {
						recv := c.Call.Value
						if !c.Call.IsInvoke() {
							if len(c.Call.Args) == 0 {
								continue
							}
							recv = c.Call.Args[0]
						}
						fv := fieldVar(resolveLocal(recv))
						if u, isU := resolveLocal(recv).(*ssa.UnOp); isU && fv == nil {
							fv = fieldVar(u.X)
						}
						if fv == nil || !strings.HasSuffix(fv.Name(), "Keeper") {
							continue
						}
						tp := namedTypePath(fv.Type())
						if tp != "" && !strings.HasPrefix(tp, EV+"/x/cpc") {
							foreign = append(foreign, fnKey(f)+" tests "+fv.Name()+"."+calleeName(c)+" at "+e.Pos(i.Cond.Pos()))
						}
					}
				}
			}
			sort.Strings(foreign)
			r.Check(len(foreign) == 0 && len(reach) >= 2, "x/cpc.InitGenesis › re-deployment refuses only for module-internal reasons", e.Pos(cpcInit.Pos()), itoa(len(reach))+" functions on the import-time deployment path, no failure decided by another module's state", "an import-time deployment can be refused because of another module's state ("+strings.Join(dedup(foreign), "; ")+"): an exported state in which that holds (e.g. coins were sent to the precompile's address, so an account exists there) cannot be imported — InitChain panics")
		}
		// the iteration helpers export/import are built on hand over every entry
		{
			chk, probs := iterationHelpersComplete(e)
			r.Check(len(probs) == 0 && len(chk) >= 1, "keeper iteration helpers › every entry reaches the callback", e.Pos(exp.Pos()), strings.Join(chk, ", "), "a store-iteration helper filters entries before its callback: "+strings.Join(probs, "; ")+" — what it skips is neither exported nor deleted")
		}
		// import completeness: an iteration over a genesis collection handles its whole record on every path that completes
		for _, mod := range []struct{ pkg, fn string }{{EV + "/x/evm", "InitGenesis"}, {EV + "/x/cpc", "InitGenesis"}, {EV + "/x/feemarket", "InitGenesis"}} {
			f := e.TryFn(mod.pkg, mod.fn)
			if f == nil {
				continue
			}
			probs := importLoopProblems(e, f)
			r.Check(len(probs) == 0, shortPkg(mod.pkg)+".InitGenesis › every record imported whole", e.Pos(f.Pos()), "no completed iteration skips a nested collection; no write is conditional on what the store already holds", "InitGenesis can import a record partially: "+strings.Join(probs, "; "))
		}
		// params on both sides for evm and feemarket
		for _, q := range []struct{ root, keeper string }{{EV + "/x/evm", pkgEvmKeeper}, {EV + "/x/feemarket", pkgFmKeeper}} {
			ex, in := e.Fn(q.root, "ExportGenesis"), e.Fn(q.root, "InitGenesis")
			ok := len(callsIn(ex, true, func(c ssa.CallInstruction) bool { return isMethodNamed(c, "GetParams") })) > 0 &&
				len(callsIn(in, true, func(c ssa.CallInstruction) bool { return isMethodNamed(c, "SetParams") })) > 0
			r.Check(ok, shortPkg(q.root)+" › params exported and imported", e.Pos(ex.Pos()), "GetParams / SetParams", "module parameters (incl. the base fee for the fee market) do not round-trip")
		}
	})

	r.Rule("R3", "CENSUS", "genesis order: auth and bank before evm (InitGenesis looks accounts up), evm and staking before cpc (deploys precompiles, needs the bond denom), feemarket before genutil (gentxs are charged)", 4, func() {
		oi := e.Fn(pkgApp, "orderInitBlockers")
		order := map[string]int{}
		allInstrs(oi, false, func(_ *ssa.Function, _ *ssa.BasicBlock, i ssa.Instruction) {
			if st, ok := i.(*ssa.Store); ok {
				if ia, isIA := st.Addr.(*ssa.IndexAddr); isIA {
					if k, isK := constInt(ia.Index); isK {
						if s, isS := constString(st.Val); isS {
							order[s] = int(k)
						}
					}
				}
			}
		})
		before := func(a, b string) {
			ia, oka := order[a]
			ib, okb := order[b]
			r.Check(oka && okb && ia < ib, "init order › "+a+" < "+b, e.Pos(oi.Pos()), itoa(ia)+" < "+itoa(ib), a+" is not initialised before "+b)
		}
		before("auth", "evm")
		before("bank", "evm")
		before("evm", "cpc")
		before("staking", "cpc")
		before("feemarket", "genutil")
	})
	_ = types.Typ
}

// reachesReturnWithoutHeader: from block b a return is reachable without going through the loop header again.
func reachesReturnWithoutHeader(fn *ssa.Function, b *ssa.BasicBlock, l *Loop) bool {
	seen := map[*ssa.BasicBlock]bool{l.Header: true}
	work := []*ssa.BasicBlock{b}
	for len(work) > 0 {
		x := work[len(work)-1]
		work = work[:len(work)-1]
		if seen[x] {
			continue
		}
		seen[x] = true
		if !l.Body[x] {
			return true
		}
		work = append(work, x.Succs...)
	}
	return false
}

// importLoopProblems: for every outermost loop of an InitGenesis function
//
//	(b) each nested loop (a sub-collection of the record: the storage entries of an account) is visited on every path on
//	    which the iteration completes — with the nested loop's header removed the back edge must be unreachable from the
//	    body entry; paths that panic (validation) do not complete;
//	(a) a branch inside the loop both sides of which let the iteration complete must not be decided by what the store already
//	    holds (a call that takes the context): importing is a function of the genesis record alone, otherwise the order of the
//	    records — or an earlier record — changes what is written for a later one.
func importLoopProblems(e *Engine, fn *ssa.Function) []string {
	var out []string
	loops := loopsOf(fn)
	for _, l := range loops {
		outermost := true
		for _, o := range loops {
			if o != l && o.Body[l.Header] {
				outermost = false
			}
		}
		if !outermost {
			continue
		}
		var entries []*ssa.BasicBlock
		for _, s := range l.Header.Succs {
			if l.Body[s] && s != l.Header {
				entries = append(entries, s)
			}
		}
		completes := func(from *ssa.BasicBlock, removed *ssa.BasicBlock) bool {
			seen := map[*ssa.BasicBlock]bool{}
			work := []*ssa.BasicBlock{from}
			for len(work) > 0 {
				b := work[len(work)-1]
				work = work[:len(work)-1]
				if seen[b] || b == removed || !l.Body[b] {
					continue
				}
				if b == l.Header {
					return true
				}
				seen[b] = true
				work = append(work, b.Succs...)
			}
			return false
		}
		for _, in := range loops {
			if in == l || !l.Body[in.Header] {
				continue
			}
			for _, en := range entries {
				if completes(en, in.Header) {
					out = append(out, "an iteration of the loop at "+e.Pos(loopPos(l))+" can complete without visiting the nested loop at "+e.Pos(loopPos(in))+" (a `continue` or branch skips the record's sub-collection)")
					break
				}
			}
		}
		for b := range l.Body {
			i, ok := lastIf(b)
			if !ok || b == l.Header {
				continue
			}
			isHeader := false
			for _, in := range loops {
				if in.Header == b {
					isHeader = true
				}
			}
			if isHeader || !completes(b.Succs[0], nil) || !completes(b.Succs[1], nil) {
				continue
			}
			sl := backSlice(i.Cond, SliceOpts{ThroughCallArgs: alwaysThrough})
			if sl.Has(func(v ssa.Value) bool {
				c, isC := v.(*ssa.Call)
				if !isC {
					return false
				}
				for _, a := range c.Call.Args {
					if isSdkContext(a.Type()) || a.Type().String() == "context.Context" {
						return true
					}
				}
				return false
			}) {
				out = append(out, "the branch at "+e.Pos(i.Cond.Pos())+" inside the import loop is decided by a store read (what was imported before), and both outcomes let the iteration complete")
			}
		}
	}
	sort.Strings(out)
	return out
}

// loopPos: the smallest source position inside the loop (headers of range loops carry no positions).
func loopPos(l *Loop) token.Pos {
	best := token.NoPos
	for b := range l.Body {
		for _, in := range b.Instrs {
			if p := in.Pos(); p != token.NoPos && (best == token.NoPos || p < best) {
				best = p
			}
		}
	}
	return best
}

// iterationHelpersComplete (shared by C18-R2 and C15-R5): the keeper helpers that walk a store prefix and hand every entry to a
// callback parameter (ForEachStorage, IterateContracts, …) must hand over EVERY entry: in each loop that calls the callback,
// every iteration that completes (reaches the loop header again) has passed the callback call — no `continue` filter in
// front of it. Export, account destruction and the emptiness test are built on these helpers; an entry they skip is an entry
// that is not exported / not deleted / not seen.
func iterationHelpersComplete(e *Engine) (checked []string, problems []string) {
	for _, f := range e.SrcFuncs(func(p string) bool { return p == pkgEvmKeeper || p == pkgCpcKeeper || p == pkgVauthKeeper }) {
		if f.Parent() != nil || IsGenerated(e.File(f.Pos())) {
			continue
		}
		var cbs []*ssa.Parameter
		for _, p := range f.Params {
			if _, isSig := p.Type().Underlying().(*types.Signature); isSig {
				cbs = append(cbs, p)
			}
		}
		if len(cbs) == 0 {
			continue
		}
		isCb := func(c ssa.CallInstruction) bool {
			for _, p := range cbs {
				if c.Common().Value == ssa.Value(p) {
					return true
				}
			}
			return false
		}
		for _, l := range loopsOf(f) {
			var cbCalls []ssa.CallInstruction
			iterates := false
			for b := range l.Body {
				for _, in := range b.Instrs {
					c, ok := in.(ssa.CallInstruction)
					if !ok {
						continue
					}
					if isCb(c) {
						cbCalls = append(cbCalls, c)
					}
					if c.Common().IsInvoke() && c.Common().Method.Name() == "Next" {
						iterates = true
					}
				}
			}
			if !iterates {
				continue
			}
			checked = append(checked, fnKey(f))
			if len(cbCalls) == 0 {
				problems = append(problems, fnKey(f)+": the iteration loop never calls the callback")
				continue
			}
			cbBlocks := map[*ssa.BasicBlock]bool{}
			for _, c := range cbCalls {
				cbBlocks[c.Block()] = true
			}
			// from the body entries, can the header be reached again without entering a callback block?
			seen := map[*ssa.BasicBlock]bool{}
			var work []*ssa.BasicBlock
			for _, s := range l.Header.Succs {
				if l.Body[s] && s != l.Header {
					work = append(work, s)
				}
			}
			skipped := false
			for len(work) > 0 {
				b := work[len(work)-1]
				work = work[:len(work)-1]
				if seen[b] || !l.Body[b] || cbBlocks[b] {
					continue
				}
				if b == l.Header {
					skipped = true
					break
				}
				seen[b] = true
				work = append(work, b.Succs...)
			}
			// the iterator's Next() usually sits in its own block (for-post); reaching it without a callback block is the skip
			if skipped {
				problems = append(problems, fnKey(f)+" ("+e.Pos(loopPos(l))+"): an iteration can complete without handing the entry to the callback (a filter/`continue` in front of the callback)")
			}
		}
	}
	sort.Strings(checked)
	sort.Strings(problems)
	return
}

func keysOf(m map[string]bool) []string {
	var out []string
	for k := range m {
		out = append(out, k)
	}
	sort.Strings(out)
	return out
}

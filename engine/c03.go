package main

import (
	"fmt"
	"go/token"
	"go/types"
	"sort"
	"strings"

	"golang.org/x/tools/go/ssa"
)

func init() {
	registry["C03"] = checkC03
	needsL4["C03"] = true
}

const pkgCpcKeeper = EV + "/x/cpc/keeper"

// chainRoots follows an address/value chain (field, index, load, range element, conversions) to its root values.
func chainRoots(v ssa.Value) []ssa.Value {
	seen := map[ssa.Value]bool{}
	var out []ssa.Value
	var walk func(v ssa.Value)
	walk = func(v ssa.Value) {
		if v == nil || seen[v] {
			return
		}
		seen[v] = true
		switch x := v.(type) {
		case *ssa.FieldAddr:
			walk(x.X)
		case *ssa.Field:
			walk(x.X)
		case *ssa.IndexAddr:
			walk(x.X)
		case *ssa.Index:
			walk(x.X)
		case *ssa.Lookup:
			walk(x.X)
		case *ssa.Slice:
			walk(x.X)
		case *ssa.UnOp:
			if x.Op == token.MUL {
				walk(x.X)
			} else {
				out = append(out, v)
			}
		case *ssa.ChangeType:
			walk(x.X)
		case *ssa.Convert:
			walk(x.X)
		case *ssa.MakeInterface:
			walk(x.X)
		case *ssa.ChangeInterface:
			walk(x.X)
		case *ssa.TypeAssert:
			walk(x.X)
		case *ssa.Phi:
			for _, e := range x.Edges {
				walk(e)
			}
		case *ssa.Extract:
			if n, ok := x.Tuple.(*ssa.Next); ok {
				if r, ok := n.Iter.(*ssa.Range); ok {
					walk(r.X)
					return
				}
			}
			if ta, ok := x.Tuple.(*ssa.TypeAssert); ok {
				walk(ta.X)
				return
			}
			if lk, ok := x.Tuple.(*ssa.Lookup); ok {
				walk(lk.X)
				return
			}
			out = append(out, v)
		default:
			out = append(out, v)
		}
	}
	walk(v)
	return out
}

// fieldOnChain returns the field of struct type `named` that the chain of v passes through first (closest to the root), with the root.
func fieldsOnChain(v ssa.Value, named *types.Named) []*types.Var {
	seen := map[ssa.Value]bool{}
	var out []*types.Var
	var walk func(v ssa.Value)
	isNamed := func(t types.Type) bool {
		if p, ok := t.Underlying().(*types.Pointer); ok {
			t = p.Elem()
		}
		n, ok := types.Unalias(t).(*types.Named)
		return ok && n.Origin() == named
	}
	walk = func(v ssa.Value) {
		if v == nil || seen[v] {
			return
		}
		seen[v] = true
		switch x := v.(type) {
		case *ssa.FieldAddr:
			if isNamed(x.X.Type()) {
				out = append(out, fieldVar(x))
				return
			}
			walk(x.X)
		case *ssa.Field:
			if isNamed(x.X.Type()) {
				out = append(out, fieldVar(x))
				return
			}
			walk(x.X)
		case *ssa.IndexAddr:
			walk(x.X)
		case *ssa.Index:
			walk(x.X)
		case *ssa.Lookup:
			walk(x.X)
		case *ssa.Slice:
			walk(x.X)
		case *ssa.UnOp:
			if x.Op == token.MUL {
				walk(x.X)
			}
		case *ssa.ChangeType:
			walk(x.X)
		case *ssa.Convert:
			walk(x.X)
		case *ssa.MakeInterface:
			walk(x.X)
		case *ssa.ChangeInterface:
			walk(x.X)
		case *ssa.TypeAssert:
			walk(x.X)
		case *ssa.Phi:
			for _, e := range x.Edges {
				walk(e)
			}
		case *ssa.Extract:
			if n, ok := x.Tuple.(*ssa.Next); ok {
				if r, ok := n.Iter.(*ssa.Range); ok {
					walk(r.X)
				}
			}
			if lk, ok := x.Tuple.(*ssa.Lookup); ok {
				walk(lk.X)
			}
		}
	}
	walk(v)
	return out
}

func isRefType(t types.Type) bool {
	switch t.Underlying().(type) {
	case *types.Map, *types.Slice, *types.Pointer, *types.Interface, *types.Chan, *types.Signature:
		return true
	}
	return false
}

// mutationAnalysis decides which methods (of types declared in the given package) mutate their receiver's referent.
type mutationAnalysis struct {
	e    *Engine
	pkg  string
	memo map[*ssa.Function]int // 0 unknown, 1 in progress, 2 no, 3 yes
}

func (m *mutationAnalysis) rootedAtRecv(fn *ssa.Function, v ssa.Value) bool {
	if len(fn.Params) == 0 || fn.Signature.Recv() == nil {
		return false
	}
	for _, r := range chainRoots(v) {
		if r == ssa.Value(fn.Params[0]) {
			return true
		}
	}
	return false
}

// mutates: fn writes through its receiver (map update, element/field store, delete, or a mutating method call on it).
func (m *mutationAnalysis) mutates(fn *ssa.Function) bool {
	if fn == nil || fn.Blocks == nil {
		return false
	}
	switch m.memo[fn] {
	case 1, 2:
		return false
	case 3:
		return true
	}
	m.memo[fn] = 1
	res := false
	allInstrs(fn, true, func(f *ssa.Function, _ *ssa.BasicBlock, i ssa.Instruction) {
		if res {
			return
		}
		switch x := i.(type) {
		case *ssa.Store:
			// a store into the receiver's own parameter slot is not a mutation of the referent; need a chain below the param
			if _, direct := x.Addr.(*ssa.Alloc); direct {
				return
			}
			if m.rootedAtRecv(fn, x.Addr) && x.Addr != ssa.Value(fn.Params[0]) {
				res = true
			}
		case *ssa.MapUpdate:
			if m.rootedAtRecv(fn, x.Map) {
				res = true
			}
		case ssa.CallInstruction:
			cc := x.Common()
			if b, ok := cc.Value.(*ssa.Builtin); ok {
				if (b.Name() == "delete" || b.Name() == "clear") && len(cc.Args) > 0 && m.rootedAtRecv(fn, cc.Args[0]) {
					res = true
				}
				return
			}
			for _, callee := range m.calleesInPkg(x) {
				recv := recvOperand(x)
				if recv != nil && m.rootedAtRecv(fn, recv) && m.mutates(callee) {
					res = true
				}
			}
		}
	})
	if res {
		m.memo[fn] = 3
	} else {
		m.memo[fn] = 2
	}
	return res
}

func recvOperand(c ssa.CallInstruction) ssa.Value {
	cc := c.Common()
	if cc.IsInvoke() {
		return cc.Value
	}
	if f := cc.StaticCallee(); f != nil && f.Signature.Recv() != nil && len(cc.Args) > 0 {
		return cc.Args[0]
	}
	return nil
}

// calleesInPkg resolves a call to functions declared in m.pkg: the static callee, or for invoke-mode calls every method
// of that name on a type of the package implementing the interface.
func (m *mutationAnalysis) calleesInPkg(c ssa.CallInstruction) []*ssa.Function {
	cc := c.Common()
	if !cc.IsInvoke() {
		if f := cc.StaticCallee(); f != nil && f.Pkg != nil && f.Pkg.Pkg.Path() == m.pkg {
			return []*ssa.Function{f}
		}
		return nil
	}
	iface, ok := cc.Value.Type().Underlying().(*types.Interface)
	if !ok {
		return nil
	}
	var out []*ssa.Function
	sc := m.e.Pkg(m.pkg).Types.Scope()
	for _, n := range sc.Names() {
		tn, ok := sc.Lookup(n).(*types.TypeName)
		if !ok {
			continue
		}
		named, ok := types.Unalias(tn.Type()).(*types.Named)
		if !ok {
			continue
		}
		if _, isI := named.Underlying().(*types.Interface); isI {
			continue
		}
		for _, t := range []types.Type{named, types.NewPointer(named)} {
			if !types.Implements(t, iface) {
				continue
			}
			sel := m.e.Prog.MethodSets.MethodSet(t).Lookup(cc.Method.Pkg(), cc.Method.Name())
			if sel == nil {
				continue
			}
			if f := m.e.Prog.MethodValue(sel); f != nil {
				// unwrap promoted/pointer wrappers to the declared method
				if fo, ok := sel.Obj().(*types.Func); ok {
					if df := m.e.Prog.FuncValue(fo); df != nil {
						f = df
					}
				}
				out = append(out, f)
			}
			break
		}
	}
	return out
}

// copyAliases: does the structure returned by fn alias reference-typed parts of its receiver?
func (m *mutationAnalysis) copyAliases(fn *ssa.Function, depth int) (bool, string) {
	if fn == nil || fn.Blocks == nil || len(fn.Params) == 0 {
		return true, "no body"
	}
	recv := fn.Params[0]
	seen := map[ssa.Value]bool{}
	var bad string
	var visit func(v ssa.Value)
	visit = func(v ssa.Value) {
		if v == nil || seen[v] || bad != "" {
			return
		}
		seen[v] = true
		if isRefType(v.Type()) {
			// a reference-typed part that is (a load chain of) the receiver is shared with it
			switch v.(type) {
			case *ssa.Parameter, *ssa.UnOp, *ssa.Field, *ssa.Extract, *ssa.Lookup, *ssa.Index, *ssa.Slice:
				for _, r := range chainRoots(v) {
					if r == ssa.Value(recv) {
						bad = fmt.Sprintf("value %s (%s) is shared with the receiver", v.Name(), v.Type())
						return
					}
				}
			}
		}
		switch x := v.(type) {
		case *ssa.Phi:
			for _, e := range x.Edges {
				visit(e)
			}
		case *ssa.MakeInterface:
			visit(x.X)
		case *ssa.ChangeType:
			visit(x.X)
		case *ssa.Convert:
			visit(x.X)
		case *ssa.ChangeInterface:
			visit(x.X)
		case *ssa.UnOp:
			if x.Op == token.MUL {
				// load of a local struct (composite literal returned by value)
				if a, ok := x.X.(*ssa.Alloc); ok {
					visit(a)
				}
			}
		case *ssa.Alloc:
			if refs := x.Referrers(); refs != nil {
				for _, r := range *refs {
					switch y := r.(type) {
					case *ssa.Store:
						if y.Addr == ssa.Value(x) {
							visit(y.Val)
						}
					case *ssa.FieldAddr:
						for _, st := range storesTo(y) {
							visit(st.Val)
						}
					case *ssa.IndexAddr:
						for _, st := range storesTo(y) {
							visit(st.Val)
						}
					}
				}
			}
		case *ssa.MakeMap:
			if refs := x.Referrers(); refs != nil {
				for _, r := range *refs {
					if mu, ok := r.(*ssa.MapUpdate); ok && mu.Map == ssa.Value(x) {
						visit(mu.Value)
					}
				}
			}
		case *ssa.MakeSlice:
			if refs := x.Referrers(); refs != nil {
				for _, r := range *refs {
					if ia, ok := r.(*ssa.IndexAddr); ok {
						for _, st := range storesTo(ia) {
							visit(st.Val)
						}
					}
				}
			}
		case *ssa.Call:
			// standard-library clones are shallow by contract: cloning a container of reference-typed elements shares the elements
			if fo := calleeObj(x); fo != nil && fo.Pkg() != nil && (fo.Pkg().Path() == "maps" || fo.Pkg().Path() == "slices") && fo.Name() == "Clone" && len(x.Call.Args) == 1 {
				fromRecv := false
				for _, r := range chainRoots(x.Call.Args[0]) {
					if r == ssa.Value(recv) {
						fromRecv = true
					}
				}
				var elem types.Type
				switch t := x.Type().Underlying().(type) {
				case *types.Map:
					elem = t.Elem()
				case *types.Slice:
					elem = t.Elem()
				}
				if fromRecv && elem != nil && isRefType(elem) {
					bad = fmt.Sprintf("%s.Clone is shallow: the %s elements stay shared with the receiver", fo.Pkg().Path(), elem)
					return
				}
			}
			if b, isB := x.Call.Value.(*ssa.Builtin); isB && b.Name() == "append" && len(x.Call.Args) == 2 {
				if sl, isS := x.Type().Underlying().(*types.Slice); isS && isRefType(sl.Elem()) {
					for _, r := range chainRoots(x.Call.Args[1]) {
						if r == ssa.Value(recv) {
							if _, isMap := sl.Elem().Underlying().(*types.Map); isMap {
								bad = "append copies the element references only"
								return
							}
						}
					}
				}
				visit(x.Call.Args[0])
			}
			if depth > 0 {
				for _, callee := range m.calleesInPkg(x) {
					if ro := recvOperand(x); ro != nil {
						isRecv := false
						for _, r := range chainRoots(ro) {
							if r == ssa.Value(recv) {
								isRecv = true
							}
						}
						if isRecv {
							if al, why := m.copyAliases(callee, depth-1); al {
								bad = "via " + fnKey(callee) + ": " + why
							}
						}
					}
				}
			}
		}
	}
	nret := 0
	for _, ret := range returnsOf(fn) {
		for _, rv := range ret.Results {
			nret++
			visit(rv)
		}
	}
	if nret == 0 {
		return true, "returns nothing"
	}
	return bad != "", bad
}

func checkC03(e *Engine, r *Report) {
	e.BuildSSA()
	r.NotDecided("the algebra of nested snapshot ids over all interleavings of Snapshot/RevertToSnapshot (history-quantified); only its structural carrier is decided")
	r.NotDecided("that go-ethereum's interpreter calls RevertToSnapshot on every failing frame (upstream code, trusted)")
	r.Assumption("sdk.Context.CacheContext isolates store writes and events until its write closure is called (cosmos-sdk v0.50: new cache multistore + new EventManager)")

	sdbN := e.Named(pkgEvmVM, "cStateDb")
	snapN := e.Named(pkgEvmVM, "RtStateDbSnapshot")
	sdbS := sdbN.Underlying().(*types.Struct)
	snapS := snapN.Underlying().(*types.Struct)
	ma := &mutationAnalysis{e: e, pkg: pkgEvmVM, memo: map[*ssa.Function]int{}}
	vmFuncs := e.SrcFuncs(func(p string) bool { return p == pkgEvmVM })

	// control fields: the snapshot machinery itself (frozen, one line of reason each)
	control := map[string]string{
		"currentCtx": "the branch pointer itself: re-assigned by Snapshot/RevertToSnapshot",
		"snapshots":  "the snapshot stack itself",
		"committed":  "one-way latch set by CommitMultiStore after the last frame",
	}

	r.Rule("R1", "CENSUS+PROVENANCE", "every field of the StateDB that is mutated after construction (assignment, element/map update, or mutating method of its type) and is not part of the snapshot machinery has a same-named field in the snapshot record, is captured by newStateDbSnapshotFromStateDb and restored by RevertToSnapshot, through a copy method that does not alias its receiver when the type is a reference type", 12, func() {
		type mut struct {
			pos  token.Pos
			what string
		}
		muts := map[string][]mut{}
		addMut := func(fv *types.Var, pos token.Pos, what string) {
			if fv != nil {
				muts[fv.Name()] = append(muts[fv.Name()], mut{pos, what})
			}
		}
		freshRoot := func(v ssa.Value) bool {
			for _, rt := range chainRoots(v) {
				if _, ok := rt.(*ssa.Alloc); !ok {
					return false
				}
			}
			return true
		}
		for _, f := range vmFuncs {
			if IsGenerated(e.File(f.Pos())) {
				continue
			}
			allInstrs(f, false, func(_ *ssa.Function, _ *ssa.BasicBlock, i ssa.Instruction) {
				switch x := i.(type) {
				case *ssa.Store:
					if freshRoot(x.Addr) {
						return // initialisation of a fresh object (constructor / composite literal)
					}
					for _, fv := range fieldsOnChain(x.Addr, sdbN) {
						addMut(fv, x.Pos(), "store in "+fnKey(f))
					}
				case *ssa.MapUpdate:
					if freshRoot(x.Map) {
						return
					}
					for _, fv := range fieldsOnChain(x.Map, sdbN) {
						addMut(fv, x.Pos(), "map update in "+fnKey(f))
					}
				case ssa.CallInstruction:
					cc := x.Common()
					if b, ok := cc.Value.(*ssa.Builtin); ok {
						if (b.Name() == "delete" || b.Name() == "clear") && len(cc.Args) > 0 {
							for _, fv := range fieldsOnChain(cc.Args[0], sdbN) {
								addMut(fv, x.Pos(), b.Name()+" in "+fnKey(f))
							}
						}
						return
					}
					ro := recvOperand(x)
					if ro == nil || freshRoot(ro) {
						return
					}
					fvs := fieldsOnChain(ro, sdbN)
					if len(fvs) == 0 {
						return
					}
					for _, callee := range ma.calleesInPkg(x) {
						if ma.mutates(callee) {
							for _, fv := range fvs {
								addMut(fv, x.Pos(), "mutating method "+fnKey(callee)+" in "+fnKey(f))
							}
						}
					}
				}
			})
		}
		snapField := func(name string) *types.Var {
			for i := 0; i < snapS.NumFields(); i++ {
				if snapS.Field(i).Name() == name {
					return snapS.Field(i)
				}
			}
			return nil
		}
		capFn := e.Fn(pkgEvmVM, "newStateDbSnapshotFromStateDb")
		revFn := e.Fn(pkgEvmVM, "cStateDb.RevertToSnapshot")

		// viaCopy checks that value v is either a plain load of src (scalar) or the result of a non-aliasing copy method on a load of src.
		viaCopy := func(v ssa.Value, isSrc func(ssa.Value) bool, ref bool) (bool, string) {
			v0 := v
			if mi, ok := v0.(*ssa.MakeInterface); ok {
				v0 = mi.X
			}
			if !ref {
				if isSrc(v0) {
					return true, "copied by value"
				}
				return false, "value is not a read of the corresponding field"
			}
			c, ok := v0.(*ssa.Call)
			if !ok {
				if isSrc(v0) {
					return false, "reference-typed state is assigned directly (aliased): later writes show through the snapshot"
				}
				return false, "value is neither a copy of nor a read of the corresponding field"
			}
			ro := recvOperand(c)
			if ro == nil || !isSrc(ro) {
				return false, "copy call is not applied to the corresponding field"
			}
			callees := ma.calleesInPkg(c)
			if len(callees) == 0 {
				return false, "copy method " + calleeName(c) + " is not declared in package vm (cannot be judged)"
			}
			for _, callee := range callees {
				if al, why := ma.copyAliases(callee, 2); al {
					return false, "copy method " + fnKey(callee) + " does not produce an independent copy: " + why
				}
			}
			return true, "deep copy via " + calleeName(c)
		}

		var names []string
		for i := 0; i < sdbS.NumFields(); i++ {
			names = append(names, sdbS.Field(i).Name())
		}
		capReg, revReg := e.privateRegion(capFn), e.privateRegion(revFn)
		revSG := revReg.Supergraph()
		for i := 0; i < sdbS.NumFields(); i++ {
			fv := sdbS.Field(i)
			name := fv.Name()
			key := "cStateDb." + name
			ms := muts[name]
			if len(ms) == 0 {
				r.OK(key+" › immutable", e.Pos(fv.Pos()), "never written after construction")
				continue
			}
			if why, ok := control[name]; ok {
				r.OK(key+" › snapshot machinery", e.Pos(fv.Pos()), why)
				continue
			}
			sort.Slice(ms, func(a, b int) bool { return ms[a].pos < ms[b].pos })
			sf := snapField(name)
			if sf == nil || !types.Identical(sf.Type(), fv.Type()) {
				r.Bad(key+" › snapshot field", e.Pos(fv.Pos()), fmt.Sprintf("field is mutated during execution (%s at %s) but the snapshot record has no field of the same name and type: a reverted frame keeps its changes", ms[0].what, e.Pos(ms[0].pos)))
				continue
			}
			ref := isRefType(fv.Type())
			// capture
			capOK, capWhy := false, "no store to the snapshot field in newStateDbSnapshotFromStateDb"
			capReg.AllInstrs(func(in ssa.Instruction) {
				st, ok := in.(*ssa.Store)
				if !ok || fieldVar(st.Addr) != sf {
					return
				}
				capOK, capWhy = viaCopy(st.Val, func(v ssa.Value) bool {
					u, ok := v.(*ssa.UnOp)
					if ok && u.Op == token.MUL {
						v = u.X
					}
					return fieldVar(v) == fv
				}, ref)
			})
			r.Check(capOK, key+" › captured by Snapshot", e.Pos(capFn.Pos()), capWhy, capWhy)
			// restore
			resOK, resWhy := false, "RevertToSnapshot does not assign this field"
			revReg.AllInstrs(func(in ssa.Instruction) {
				st, ok := in.(*ssa.Store)
				if !ok || fieldVar(st.Addr) != fv {
					return
				}
				// the helper's receiver is the StateDB being reverted
				if fa, isFA := st.Addr.(*ssa.FieldAddr); isFA && in.Parent() != revFn && revReg.Resolve(fa.X) != ssa.Value(revFn.Params[0]) {
					return
				}
				resOK, resWhy = viaCopy(st.Val, func(v ssa.Value) bool {
					u, ok := v.(*ssa.UnOp)
					if ok && u.Op == token.MUL {
						v = u.X
					}
					return fieldVar(v) == sf
				}, ref)
				// …and unconditionally: every return of RevertToSnapshot has passed this assignment (a restore skipped when some
				// cheap summary — a size, a flag — looks unchanged keeps the reverted frame's writes)
				if resOK {
					for _, ret := range returnsOf(revFn) {
						if !revSG.PassesOr(ret, st, nil) {
							resOK, resWhy = false, "the restore of this field is conditional: a path through RevertToSnapshot returns without assigning it"
						}
					}
				}
			})
			r.Check(resOK, key+" › restored by RevertToSnapshot", e.Pos(revFn.Pos()), resWhy, resWhy+" (field mutated e.g. by "+ms[0].what+")")
		}
		r.Count("statedb_fields", sdbS.NumFields())
		_ = names
	})

	r.Rule("R2", "PROVENANCE+EFFECT", "every sdk.Context passed to a keeper/helper from a method of the StateDB is a direct read of the current cache context; the original context is passed only to callees that reach no store write or event (committed-state reads)", 30, func() {
		stateDbCtxDiscipline(e, r)
	})

	r.Rule("R3", "PROVENANCE", "custom precompile executors and their helpers pass only the execution environment's context (filled from the StateDB's GetCurrentContext()) or their own ctx parameter / a cache branch of it to other code; the environment is built only by the method dispatcher", 20, func() {
		checkPrecompileCtx(e, r)
	})

	r.Rule("R4", "STRUCTURE", "Snapshot branches from the current context and pushes the branch; RevertToSnapshot re-branches from the parent of the reverted snapshot, makes it current and truncates the stack; CommitMultiStore calls the write closures from the newest to the oldest; the write closure stored with a branch is the one returned by the same CacheContext call", 6, func() {
		checkSnapshotStructure(e, r, sdbN, snapN)
	})
}

func recvNamedOfSig(sig *types.Signature) *types.Named {
	if sig.Recv() == nil {
		return nil
	}
	t := sig.Recv().Type()
	if p, ok := t.(*types.Pointer); ok {
		t = p.Elem()
	}
	n, _ := types.Unalias(t).(*types.Named)
	if n != nil {
		return n.Origin()
	}
	return nil
}

// ctxSource classifies a context value inside a StateDB method.
func ctxSource(v ssa.Value, f *ssa.Function) string {
	v = strip(v)
	if isFieldRead(v, "cStateDb", "currentCtx") {
		return "currentCtx"
	}
	if isFieldRead(v, "cStateDb", "originalCtx") {
		return "originalCtx"
	}
	// free variable of a closure bound to the above
	if fv, ok := v.(*ssa.FreeVar); ok {
		_ = fv
		return "captured variable"
	}
	switch x := v.(type) {
	case *ssa.Parameter:
		return "parameter " + x.Name()
	case *ssa.Extract:
		return "result of " + describeValue(x.Tuple)
	case *ssa.Call:
		return "result of " + calleeName(x)
	case *ssa.UnOp:
		if fv := fieldVar(x.X); fv != nil {
			return "field " + fv.Name()
		}
		return "local variable"
	case *ssa.Phi:
		return "merge of several contexts"
	}
	return describeValue(v)
}

func describeValue(v ssa.Value) string {
	if c, ok := v.(*ssa.Call); ok {
		return calleeName(c)
	}
	return v.Name()
}

// calleesAt resolves the callees of one call site in the VTA graph.
func calleesAt(ee *EffectEngine, f *ssa.Function, c ssa.CallInstruction) []*ssa.Function {
	n := ee.g.Nodes[f]
	if n == nil {
		return nil
	}
	var out []*ssa.Function
	for _, ed := range n.Out {
		if ed.Site == c {
			out = append(out, ed.Callee.Func)
		}
	}
	return out
}

func checkPrecompileCtx(e *Engine, r *Report) {
	envN := e.Named(pkgCpcKeeper, "cpcExecutorEnv")
	keeperN := e.Named(pkgCpcKeeper, "Keeper")
	funcs := e.SrcFuncs(func(p string) bool { return p == pkgCpcKeeper })
	var envCtx *types.Var
	es := envN.Underlying().(*types.Struct)
	for i := 0; i < es.NumFields(); i++ {
		if isSdkContext(es.Field(i).Type()) {
			envCtx = es.Field(i)
		}
	}
	if envCtx == nil {
		undecidedf("cpcExecutorEnv has no sdk.Context field")
	}
	precompileEnvFresh(e, r, funcs, envCtx)
	// (b) discipline inside executor / contract code (receiver is not the module Keeper / servers) and package-level helpers taking an env or ctx
	isServerish := func(n *types.Named) bool {
		if n == nil {
			return false
		}
		name := n.Obj().Name()
		return n == keeperN || strings.Contains(strings.ToLower(name), "server") || strings.Contains(strings.ToLower(name), "querier")
	}
	execIface := e.Iface(pkgCpcKeeper, "ExtendedCustomPrecompiledContractMethodExecutorI")
	contractIface := e.Iface(pkgCpcKeeper, "CustomPrecompiledContractI")
	inScope := func(f *ssa.Function) bool {
		top := f
		for top.Parent() != nil {
			top = top.Parent()
		}
		rn := recvNamedOfSig(top.Signature)
		if rn == nil {
			return false
		}
		if isServerish(rn) {
			return false
		}
		return types.Implements(rn, execIface) || types.Implements(types.NewPointer(rn), execIface) ||
			types.Implements(rn, contractIface) || types.Implements(types.NewPointer(rn), contractIface)
	}
	n := 0
	for _, f := range funcs {
		if !inScope(f) || IsGenerated(e.File(f.Pos())) {
			continue
		}
		ord := map[string]int{}
		allInstrs(f, false, func(_ *ssa.Function, _ *ssa.BasicBlock, in ssa.Instruction) {
			c, ok := in.(ssa.CallInstruction)
			if !ok {
				return
			}
			cc := c.Common()
			if _, isB := cc.Value.(*ssa.Builtin); isB {
				return
			}
			var ops []ssa.Value
			ops = append(ops, cc.Args...)
			for _, a0 := range ops {
				a, isCtx := ctxArg(a0)
				if !isCtx {
					if namedTypePath(a0.Type()) != "context.Context" {
						continue
					}
					a = a0 // a context.Context that is not a boxed sdk.Context: judged below (never allowed)
				}
				// receiver position of Context methods is a read, not a hand-over
				if sc := cc.StaticCallee(); sc != nil && sc.Signature.Recv() != nil && len(cc.Args) > 0 && a0 == cc.Args[0] && isSdkContext(sc.Signature.Recv().Type()) {
					continue
				}
				cn := calleeName(c)
				ord[cn]++
				key := fmt.Sprintf("%s › %s#%d", fnKey(f), cn, ord[cn]-1)
				okSrc, why := precompileCtxOK(a, envCtx, map[ssa.Value]bool{})
				n++
				r.Check(okSrc, key, e.Pos(c.Pos()), why, "context handed to "+cn+" does not derive from the execution environment's context ("+why+"): the write is outside the frame's snapshot and survives a revert")
			}
		})
	}
	r.Count("precompile_ctx_sites", n)
}

// precompileCtxOK: v derives only from env.ctx, a ctx parameter of the enclosing function (checked at its callers by the same rule),
// or a CacheContext branch of those.
func precompileCtxOK(v ssa.Value, envCtx *types.Var, seen map[ssa.Value]bool) (bool, string) {
	v = strip(v)
	if seen[v] {
		return true, "cycle"
	}
	seen[v] = true
	switch x := v.(type) {
	case *ssa.Field:
		if fieldVar(x) == envCtx {
			return true, "env.ctx"
		}
		return false, "field " + fieldNameV(x)
	case *ssa.UnOp:
		if x.Op == token.MUL {
			if fieldVar(x.X) == envCtx {
				return true, "env.ctx"
			}
			if a, ok := x.X.(*ssa.Alloc); ok {
				sts := storesTo(a)
				if len(sts) == 0 {
					return false, "uninitialised local"
				}
				for _, st := range sts {
					if ok, why := precompileCtxOK(st.Val, envCtx, seen); !ok {
						return false, why
					}
				}
				return true, "local derived from env.ctx"
			}
			if fvr, ok := x.X.(*ssa.FreeVar); ok {
				// a variable captured by reference: the cell bound at the closure's creation
				return precompileCtxOK(fvr, envCtx, seen)
			}
			if fv := fieldVar(x.X); fv != nil {
				return false, "field " + fv.Name()
			}
			if g, ok := x.X.(*ssa.Global); ok {
				return false, "global " + g.Name()
			}
		}
		return false, "expression " + x.String()
	case *ssa.Parameter:
		if isSdkContext(x.Type()) {
			return true, "ctx parameter " + x.Name()
		}
		return false, "parameter " + x.Name()
	case *ssa.FreeVar:
		// closure capturing a context of the enclosing executor function: resolve the binding
		fn := x.Parent()
		idx := -1
		for i, fv := range fn.FreeVars {
			if fv == x {
				idx = i
			}
		}
		ok, why := false, "unbound captured variable"
		if p := fn.Parent(); p != nil && idx >= 0 {
			allInstrs(p, true, func(_ *ssa.Function, _ *ssa.BasicBlock, i ssa.Instruction) {
				if mc, isMC := i.(*ssa.MakeClosure); isMC && mc.Fn == fn && idx < len(mc.Bindings) {
					ok, why = precompileCtxOK(mc.Bindings[idx], envCtx, seen)
				}
			})
		}
		return ok, why
	case *ssa.Alloc:
		sts := storesTo(x)
		if len(sts) == 0 {
			return false, "uninitialised local"
		}
		for _, st := range sts {
			if ok, why := precompileCtxOK(st.Val, envCtx, seen); !ok {
				return false, why
			}
		}
		return true, "local derived from env.ctx"
	case *ssa.Phi:
		for _, ed := range x.Edges {
			if ok, why := precompileCtxOK(ed, envCtx, seen); !ok {
				return false, why
			}
		}
		return true, "merge of env-derived contexts"
	case *ssa.Extract:
		if c, ok := x.Tuple.(*ssa.Call); ok && x.Index == 0 && isCallTo(c, CallSpec{pkgSdkTypes, "Context", "CacheContext"}) {
			return precompileCtxOK(c.Call.Args[0], envCtx, seen)
		}
		return false, "result of " + describeValue(x.Tuple)
	case *ssa.Call:
		// ctx.WithX(...) keeps the store branch of its receiver
		if fo := calleeObj(x); fo != nil && recvNamed(fo) != nil && namedTypePath(recvNamed(fo)) == pkgSdkTypes+".Context" && strings.HasPrefix(fo.Name(), "With") && fo.Name() != "WithMultiStore" && fo.Name() != "WithContext" {
			return precompileCtxOK(x.Call.Args[0], envCtx, seen)
		}
		return false, "result of " + calleeName(x)
	}
	return false, v.Name() + " (" + v.String() + ")"
}

func checkSnapshotStructure(e *Engine, r *Report, sdbN, snapN *types.Named) {
	cacheCtx := CallSpec{pkgSdkTypes, "Context", "CacheContext"}
	// (1) newStateDbSnapshotFromStateDb: snapshotCtx/writeFunc come from one CacheContext() call on the working context parameter
	capFn := e.Fn(pkgEvmVM, "newStateDbSnapshotFromStateDb")
	{
		var ctxCall, wfCall *ssa.Call
		var ctxIdx, wfIdx int
		allInstrs(capFn, false, func(_ *ssa.Function, _ *ssa.BasicBlock, in ssa.Instruction) {
			st, ok := in.(*ssa.Store)
			if !ok {
				return
			}
			fv := fieldVar(st.Addr)
			if fv == nil {
				return
			}
			if isSdkContext(fv.Type()) {
				ctxCall, ctxIdx = callOf(st.Val)
			}
			if _, isFn := fv.Type().Underlying().(*types.Signature); isFn {
				wfCall, wfIdx = callOf(st.Val)
			}
		})
		ok := ctxCall != nil && ctxCall == wfCall && ctxIdx == 0 && wfIdx == 1 && isCallTo(ctxCall, cacheCtx)
		if ok {
			// the branched context is the function's context parameter
			_, isParam := strip(ctxCall.Call.Args[0]).(*ssa.Parameter)
			ok = isParam
		}
		r.Check(ok, "newStateDbSnapshotFromStateDb › branch+closure from one CacheContext()", e.Pos(capFn.Pos()), "snapshotCtx, writeFunc := workingCtx.CacheContext()", "the snapshot's context and write closure do not come from one CacheContext() call on the working context")
	}
	// (2) Snapshot
	snFn := e.Fn(pkgEvmVM, "cStateDb.Snapshot")
	{
		calls := callsIn(snFn, false, func(c ssa.CallInstruction) bool { return c.Common().StaticCallee() == capFn })
		ok := len(calls) == 1
		if ok {
			a := calls[0].Common().Args
			ok = len(a) == 2 && isFieldRead(a[1], "cStateDb", "currentCtx")
		}
		r.Check(ok, "Snapshot › branches from the current context", e.Pos(snFn.Pos()), "newStateDbSnapshotFromStateDb(d, d.currentCtx)", "Snapshot does not branch from the StateDB's current context: the new frame would not see (or would outlive) its parent's writes")
		// currentCtx := new snapshot's ctx ; snapshots appended
		curOK, pushOK := false, false
		allInstrs(snFn, false, func(_ *ssa.Function, _ *ssa.BasicBlock, in ssa.Instruction) {
			st, isSt := in.(*ssa.Store)
			if !isSt {
				return
			}
			fv := fieldVar(st.Addr)
			if fv == nil {
				return
			}
			sl := backSlice(st.Val, SliceOpts{ThroughCallArgs: alwaysThrough})
			fromNew := len(calls) == 1 && sl.HasValue(calls[0].Value())
			if fv.Name() == "currentCtx" && fromNew {
				curOK = true
			}
			if fv.Name() == "snapshots" && fromNew {
				pushOK = true
			}
		})
		r.Check(curOK, "Snapshot › new branch becomes current", e.Pos(snFn.Pos()), "d.currentCtx = new snapshot context", "Snapshot does not make the new branch the current context: writes of the new frame land in the parent branch and survive its revert")
		r.Check(pushOK, "Snapshot › branch pushed", e.Pos(snFn.Pos()), "snapshot appended to the stack", "Snapshot does not push the new snapshot onto the stack")
	}
	// (3) RevertToSnapshot
	rvFn := e.Fn(pkgEvmVM, "cStateDb.RevertToSnapshot")
	{
		var idxState, idxParent ssa.Value
		var cc *ssa.Call
		for _, c := range callsTo(rvFn, false, cacheCtx) {
			cc, _ = c.(*ssa.Call)
		}
		okBranch := false
		if cc != nil {
			// receiver: field snapshotCtx of element [i] of d.snapshots
			sl := backSlice(cc.Call.Args[0], SliceOpts{})
			sl.Has(func(v ssa.Value) bool {
				if ia, ok := v.(*ssa.IndexAddr); ok {
					if fs := fieldsOnChain(ia.X, sdbN); len(fs) == 1 && fs[0].Name() == "snapshots" {
						idxParent = ia.Index
					}
				}
				return false
			})
		}
		// the state snapshot: an element of d.snapshots whose `id` field is compared with the id parameter
		allInstrs(rvFn, false, func(_ *ssa.Function, _ *ssa.BasicBlock, in ssa.Instruction) {
			ia, ok := in.(*ssa.IndexAddr)
			if !ok || ia.Index == idxParent {
				return
			}
			if fs := fieldsOnChain(ia.X, sdbN); len(fs) == 1 && fs[0].Name() == "snapshots" {
				idxState = ia.Index
			}
		})
		if idxParent != nil && idxState != nil {
			if b, ok := idxParent.(*ssa.BinOp); ok && b.Op == token.SUB && b.X == idxState {
				if c, ok := constInt(b.Y); ok && c == 1 {
					okBranch = true
				}
			}
		}
		r.Check(okBranch, "RevertToSnapshot › re-branch from the parent snapshot", e.Pos(rvFn.Pos()), "CacheContext() of snapshots[idx-1].snapshotCtx", "RevertToSnapshot does not re-branch from the parent (index-1) of the reverted snapshot: reverted writes stay visible or earlier frames are lost")
		curOK, truncOK := false, false
		allInstrs(rvFn, false, func(_ *ssa.Function, _ *ssa.BasicBlock, in ssa.Instruction) {
			st, isSt := in.(*ssa.Store)
			if !isSt {
				return
			}
			fv := fieldVar(st.Addr)
			if fv == nil || len(fieldsOnChain(st.Addr, sdbN)) == 0 {
				return
			}
			if fv.Name() == "currentCtx" {
				c, i := callOf(st.Val)
				if c != nil && c == cc && i == 0 {
					curOK = true
				}
			}
			if fv.Name() == "snapshots" {
				sl := backSlice(st.Val, SliceOpts{ThroughCallArgs: alwaysThrough})
				sl.Has(func(v ssa.Value) bool {
					if s, ok := v.(*ssa.Slice); ok && s.High == idxState && s.Low == nil {
						truncOK = true
					}
					return false
				})
			}
		})
		// the record put back on the stack must carry the fresh branch and ITS write closure
		refreshed := false
		allInstrs(rvFn, false, func(_ *ssa.Function, _ *ssa.BasicBlock, in ssa.Instruction) {
			st, isSt := in.(*ssa.Store)
			if !isSt || cc == nil {
				return
			}
			fv := fieldVar(st.Addr)
			if fv == nil || fv.Name() != "snapshots" || len(fieldsOnChain(st.Addr, sdbN)) == 0 {
				return
			}
			sl := backSlice(st.Val, SliceOpts{ThroughCallArgs: alwaysThrough})
			sl.Has(func(v ssa.Value) bool {
				a, isA := v.(*ssa.Alloc)
				if !isA {
					return false
				}
				if n, _ := types.Unalias(a.Type().(*types.Pointer).Elem()).(*types.Named); n == nil || n.Origin() != snapN {
					return false
				}
				gotCtx, gotWF := false, false
				if refs := a.Referrers(); refs != nil {
					for _, rf := range *refs {
						fa, isFA := rf.(*ssa.FieldAddr)
						if !isFA {
							continue
						}
						for _, s2 := range storesTo(fa) {
							c2, i2 := callOf(s2.Val)
							if c2 == cc && i2 == 0 && isSdkContext(fieldVar(fa).Type()) {
								gotCtx = true
							}
							if c2 == cc && i2 == 1 {
								gotWF = true
							}
						}
					}
				}
				if gotCtx && gotWF {
					refreshed = true
				}
				return false
			})
		})
		r.Check(refreshed, "RevertToSnapshot › refreshed record carries the fresh branch and its closure", e.Pos(rvFn.Pos()), "record re-pushed at the reverted position has snapshotCtx/writeFunc of the new CacheContext()", "the snapshot record kept on the stack after a revert is not updated with the fresh branch and its write closure: a later sibling frame branches from (or commits) the reverted frame's stale context")
		r.Check(curOK, "RevertToSnapshot › fresh branch becomes current", e.Pos(rvFn.Pos()), "d.currentCtx = fresh branch of the parent", "RevertToSnapshot does not make the fresh branch of the parent the current context")
		r.Check(truncOK, "RevertToSnapshot › stack truncated", e.Pos(rvFn.Pos()), "d.snapshots = snapshots[:idx] + refreshed record", "RevertToSnapshot does not drop the snapshots above the reverted one: their write closures would be replayed at commit")
		// id guard: negative id panics
		gs := []Guard{}
		for _, i := range ifs(rvFn) {
			b, ok := i.Cond.(*ssa.BinOp)
			if ok && (b.X == ssa.Value(rvFn.Params[1]) || b.Y == ssa.Value(rvFn.Params[1])) && (b.Op == token.LSS || b.Op == token.GEQ) {
				s := 1
				if b.Op == token.GEQ {
					s = 0
				}
				if endsInPanicRegion(i.Block().Succs[1-s]) {
					gs = append(gs, Guard{If: i, Survive: s})
				}
			}
		}
		if cc != nil {
			r.Check(mustPass(rvFn, cc, gs), "RevertToSnapshot › negative id rejected", e.Pos(rvFn.Pos()), "id < 0 panics before any state change", "a negative snapshot id is not rejected before the revert")
		}
	}
	// (4) CommitMultiStore: write closures newest → oldest
	cmFn := e.Fn(pkgEvmVM, "cStateDb.CommitMultiStore")
	{
		ok := false
		var at token.Pos
		for _, c := range callsTo(cmFn, false, CallSpec{pkgEvmVM, "RtStateDbSnapshot", "WriteChanges"}) {
			at = c.Pos()
			sl := backSlice(c.Common().Args[0], SliceOpts{})
			sl.Has(func(v ssa.Value) bool {
				ia, isIA := v.(*ssa.IndexAddr)
				if !isIA {
					return false
				}
				phi, isPhi := ia.Index.(*ssa.Phi)
				if !isPhi {
					return false
				}
				dec, inc := false, false
				for _, ed := range phi.Edges {
					if b, isB := ed.(*ssa.BinOp); isB && b.X == ssa.Value(phi) {
						if b.Op == token.SUB {
							dec = true
						}
						if b.Op == token.ADD {
							inc = true
						}
					}
				}
				if dec && !inc {
					ok = true
				}
				return false
			})
			// slices.Backward / range-over-func forms are not used today; an unknown form is reported as undecided below
		}
		if at == token.NoPos {
			r.Bad("CommitMultiStore › write closures invoked", e.Pos(cmFn.Pos()), "CommitMultiStore never calls WriteChanges of the snapshots")
		} else {
			r.Check(ok, "CommitMultiStore › newest-to-oldest write order", e.Pos(at), "descending index loop over d.snapshots", "write closures are not invoked in strictly descending index order: an inner branch written after its parent was flushed is lost")
		}
		// WriteChanges calls the stored closure
		wc := e.Fn(pkgEvmVM, "RtStateDbSnapshot.WriteChanges")
		okW := false
		allInstrs(wc, false, func(_ *ssa.Function, _ *ssa.BasicBlock, in ssa.Instruction) {
			if c, isC := in.(ssa.CallInstruction); isC {
				if fv := fieldVar(strip(c.Common().Value)); fv != nil && fv.Name() == "writeFunc" {
					okW = true
				}
				if u, isU := c.Common().Value.(*ssa.UnOp); isU {
					if fv := fieldVar(u.X); fv != nil && fv.Name() == "writeFunc" {
						okW = true
					}
				}
			}
		})
		r.Check(okW, "WriteChanges › calls the stored closure", e.Pos(wc.Pos()), "s.writeFunc()", "WriteChanges does not invoke the snapshot's write closure")
	}
}

// endsInPanicRegion: every path from b ends in a panic (no return reachable).
func endsInPanicRegion(b *ssa.BasicBlock) bool {
	seen := map[*ssa.BasicBlock]bool{}
	work := []*ssa.BasicBlock{b}
	pan := false
	for len(work) > 0 {
		x := work[len(work)-1]
		work = work[:len(work)-1]
		if seen[x] {
			continue
		}
		seen[x] = true
		if len(x.Instrs) > 0 {
			switch x.Instrs[len(x.Instrs)-1].(type) {
			case *ssa.Return:
				return false
			case *ssa.Panic:
				pan = true
			}
		}
		work = append(work, x.Succs...)
	}
	return pan
}

// stateDbCtxDiscipline (shared by C03-R2 and C08-R7): every sdk.Context a StateDB method hands to other code is a direct read
// of the current cache context; the original (caller's, committed) context goes only to callees that reach no store write.
func stateDbCtxDiscipline(e *Engine, r *Report) {
	sdbN := e.Named(pkgEvmVM, "cStateDb")
	vmFuncs := e.SrcFuncs(func(p string) bool { return p == pkgEvmVM })
	var ee *EffectEngine
	nCur, nOrig := 0, 0
	for _, f := range vmFuncs {
		top := f
		for top.Parent() != nil {
			top = top.Parent()
		}
		if top.Signature.Recv() == nil || recvNamedOfSig(top.Signature) != sdbN {
			continue
		}
		if IsGenerated(e.File(f.Pos())) {
			continue
		}
		ord := map[string]int{}
		allInstrs(f, false, func(_ *ssa.Function, _ *ssa.BasicBlock, in ssa.Instruction) {
			c, ok := in.(ssa.CallInstruction)
			if !ok {
				return
			}
			cc := c.Common()
			if _, isB := cc.Value.(*ssa.Builtin); isB {
				return
			}
			args := cc.Args
			if !cc.IsInvoke() {
				if sc := cc.StaticCallee(); sc != nil && sc.Signature.Recv() != nil && len(args) > 0 {
					args = args[1:]
				}
			}
			for _, a0 := range args {
				a, isCtx := ctxArg(a0)
				if !isCtx {
					continue
				}
				cn := calleeName(c)
				ord[cn]++
				key := fmt.Sprintf("%s › %s#%d", fnKey(f), cn, ord[cn]-1)
				pos := e.Pos(c.Pos())
				src := ctxSource(a, f)
				switch src {
				case "currentCtx":
					nCur++
					r.OK(key, pos, "current cache context")
				case "originalCtx":
					nOrig++
					if strings.HasPrefix(fnKey(top), "x/evm/vm.cStateDb.ForTest_") {
						r.OK(key, pos, "test accessor")
						continue
					}
					if ee == nil {
						ee = e.Effects()
					}
					var hits []EffectHit
					for _, callee := range calleesAt(ee, f, c) {
						if k := ee.sinkKind(callee); k != "" {
							hits = append(hits, EffectHit{Kind: k, Sink: callee})
							continue
						}
						hits = append(hits, ee.Reach(callee, EffectOpts{})...)
					}
					if len(hits) == 0 {
						r.OK(key, pos, "original (committed) context passed to a write-free callee")
					} else {
						d, p := describeHits(hits)
						r.Bad(key, pos, "the original context (committed state, never reverted) is passed to a callee that can write: "+d, p...)
					}
				default:
					r.Bad(key, pos, "context argument is not a direct read of the StateDB's current context ("+src+"): writes bypass the snapshot stack and are not reverted with the frame")
				}
			}
		})
	}
	r.Count("current_ctx_sites", nCur)
	r.Count("original_ctx_sites", nOrig)
}

// precompileEnvFresh (shared by C03-R3 and C10-R8 / C11): the executor environment's context is the StateDB's current context,
// read anew for every call.
func precompileEnvFresh(e *Engine, r *Report, funcs []*ssa.Function, envCtx *types.Var) {
	// (a) the environment literal is built only in the dispatcher, from GetCurrentContext() of the EVM's StateDB
	nLit := 0
	for _, f := range funcs {
		allInstrs(f, false, func(_ *ssa.Function, _ *ssa.BasicBlock, in ssa.Instruction) {
			st, ok := in.(*ssa.Store)
			if !ok || fieldVar(st.Addr) != envCtx {
				return
			}
			nLit++
			sl := backSlice(st.Val, SliceOpts{})
			c, _ := callOf(st.Val)
			ok2 := c != nil && isCallTo(c, CallSpec{pkgEvmVM, "CStateDB", "GetCurrentContext"})
			if ok2 {
				rs := backSlice(c.Call.Value, SliceOpts{})
				ok2 = rs.Has(func(v ssa.Value) bool {
					fv := fieldVar(v)
					return fv != nil && fv.Name() == "StateDB" && fv.Pkg() != nil && fv.Pkg().Path() == GETH+"/core/vm"
				})
			}
			r.Check(ok2, "env.ctx filled in "+fnKey(f), e.Pos(st.Pos()), "env.ctx = evm.StateDB.(CStateDB).GetCurrentContext()",
				"the executor environment's context is not the EVM StateDB's current context (sources: "+sl.Describe()+"): precompile writes escape the frame's snapshot")
		})
	}
	if nLit == 0 {
		r.Bad("env.ctx filled", "", "no construction of the executor environment found")
	}
	// (a2) the environment is built afresh for every call: what the dispatcher hands to executor.Execute does not come out of
	// memory that outlives the call (a field of the dispatcher object caching the environment or the context) — the StateDB
	// branches a new cache context for every call frame, so a remembered context is the context of an earlier frame
	{
		disp := e.TryFn(pkgCpcKeeper, "customPrecompiledContractMethodExecutorImpl.Execute")
		if disp == nil {
			r.Undec("dispatcher › environment built per call", "", "customPrecompiledContractMethodExecutorImpl.Execute not found")
		} else {
			nCalls := 0
			for _, c := range callsIn(disp, false, func(c ssa.CallInstruction) bool {
				return c.Common().IsInvoke() && c.Common().Method.Name() == "Execute"
			}) {
				args := c.Common().Args
				if len(args) == 0 || namedTypeName(args[len(args)-1].Type()) != "cpcExecutorEnv" {
					continue
				}
				nCalls++
				sl := backSlice(args[len(args)-1], SliceOpts{ThroughCallArgs: alwaysThrough, IntoCallees: privHelper(pkgCpcKeeper), Depth: 3})
				var cached []string
				for x := range sl.Vals {
					fv := fieldVar(x)
					if fv == nil {
						continue
					}
					tn := namedTypeName(fv.Type())
					if tn == "cpcExecutorEnv" || isSdkContext(fv.Type()) && !(fv == envCtx) {
						cached = append(cached, fv.Name())
					}
				}
				sort.Strings(cached)
				fresh := sl.HasCall(CallSpec{pkgEvmVM, "CStateDB", "GetCurrentContext"})
				r.Check(len(cached) == 0 && fresh, "dispatcher › environment built per call", e.Pos(c.Pos()), "cpcExecutorEnv{ctx: StateDB.GetCurrentContext(), …} constructed in this call", "the environment handed to the executor is (partly) read back from a field that outlives the call ("+strings.Join(dedup(cached), ", ")+"): the second call of a method within one message runs on the cache context of the first call's frame — writes of a reverted frame survive, writes of a completed frame are lost")
			}
			if nCalls == 0 {
				r.Bad("dispatcher › environment built per call", e.Pos(disp.Pos()), "the dispatcher does not hand a cpcExecutorEnv to executor.Execute")
			}
		}
	}
}

// cpcEnvCtxField returns the sdk.Context field of cpcExecutorEnv and the cpc keeper's source functions.
func cpcEnvCtxField(e *Engine) (*types.Var, []*ssa.Function) {
	envN := e.Named(pkgCpcKeeper, "cpcExecutorEnv")
	funcs := e.SrcFuncs(func(p string) bool { return p == pkgCpcKeeper })
	es := envN.Underlying().(*types.Struct)
	for i := 0; i < es.NumFields(); i++ {
		if isSdkContext(es.Field(i).Type()) {
			return es.Field(i), funcs
		}
	}
	undecidedf("cpcExecutorEnv has no sdk.Context field")
	return nil, nil
}

package main

import (
	"go/token"
	"regexp"
	"sort"
	"strings"

	"golang.org/x/tools/go/ssa"
)

func init() { registry["C02"] = checkC02 }

const pkgGethCore = GETH + "/core"

var (
	reFieldWrite   = regexp.MustCompile(`^#st \. (\w+) (=|\+=|-=|\*=)`)
	reStateCall    = regexp.MustCompile(`#st \. state \. (\w+) \(`)
	reGasPoolCall  = regexp.MustCompile(`#st \. gp \. (\w+) \(`)
	reEvmExec      = regexp.MustCompile(`#st \. evm \. (Call|Create|Create2) \(`)
	emptyHashRepo  = "github.com/ethereum/go-ethereum/common.BytesToHash ( " + EV + "/x/evm/types.EmptyCodeHash )"
	emptyHashGeth  = pkgGethCore + ".emptyCodeHash"
	neutralSibling = map[string]bool{"StateTransition": true}
)

// stateRelevant: the canonical statement can influence the state transition (writes a field of the receiver, touches
// the state DB or gas pool, runs the EVM, or returns).
func stateRelevant(t string) (bool, string) {
	if m := reFieldWrite.FindStringSubmatch(t); m != nil {
		return true, "writes st." + m[1]
	}
	if m := reStateCall.FindStringSubmatch(t); m != nil {
		return true, "state." + m[1]
	}
	if m := reGasPoolCall.FindStringSubmatch(t); m != nil {
		return true, "gp." + m[1]
	}
	if reEvmExec.MatchString(t) {
		return true, "evm execution"
	}
	if strings.HasPrefix(t, "return") {
		return true, "return"
	}
	return false, ""
}

func checkC02(e *Engine, r *Report) {
	e.BuildSSA()
	r.NotDecided("behavioural equivalence with go-ethereum over all programs (interpreter semantics, gas tables): upstream code is the trusted reference")
	r.NotDecided("AccessList2 / TransientStorage behavioural equality with go-ethereum's journaled versions (different implementations; their snapshot/revert deep copy is decided by C03-R1)")
	r.Assumption("the fork's core/state_transition.go is the reference the repository's copy is kept in sync with (the copy's own header says so)")

	r.Rule("R1", "SIBLING", "the copied state transition (x/evm/keeper/state_transition_core.go) differs from the linked fork's core/state_transition.go only in the documented ways: D1 buyGas omits the balance check/debit (fee is charged by the ante handler); D2 emptyCodeHash ≡ BytesToHash(EmptyCodeHash); D3 custom precompile addresses appended to the warm set; D4 no coinbase tip payment; D5 the refund credit is conditional on SenderPaidTheFee. Statements are compared type-resolved and alpha-renamed; any other difference (added, removed, re-ordered or altered statement) is reported", 7, func() {
		for _, name := range []string{"to", "buyGas", "preCheck", "TransitionDb", "refundGas", "gasUsed"} {
			rd, rp := e.Decl(pkgEvmKeeper, "StateTransition."+name)
			gd, gp := e.Decl(pkgGethCore, "StateTransition."+name)
			rs := e.canonFunc(rd, rp, neutralSibling)
			gs := e.canonFunc(gd, gp, neutralSibling)
			for i := range rs {
				rs[i].Text = strings.ReplaceAll(rs[i].Text, emptyHashRepo, emptyHashGeth) // D2
				for k := range rs[i].Ctx {
					rs[i].Ctx[k] = strings.ReplaceAll(rs[i].Ctx[k], emptyHashRepo, emptyHashGeth)
				}
			}
			mr, mg := lcsMatch(rs, gs)
			pairOf := map[int]int{} // repo statement index → reference statement index
			{
				j := 0
				for i := range rs {
					if !mr[i] {
						continue
					}
					for j < len(gs) && !mg[j] {
						j++
					}
					if j < len(gs) {
						pairOf[i] = j
						j++
					}
				}
			}
			// second pass: unmatched statements that differ only by the name of a local count as matched (rename tolerance)
			for i := range rs {
				if mr[i] {
					continue
				}
				for j := range gs {
					if !mg[j] && anonymise(rs[i].Text) == anonymise(gs[j].Text) {
						// order must be consistent with the surrounding matches
						okOrder := true
						for i2 := range rs {
							if !mr[i2] {
								continue
							}
							for j2 := range gs {
								if mg[j2] && rs[i2].Text == gs[j2].Text && ((i2 < i) != (j2 < j)) && strings.Count(strings.Join(textsOf(rs), "\n"), rs[i2].Text) == 1 {
									okOrder = false
								}
							}
						}
						if okOrder {
							mr[i], mg[j] = true, true
							pairOf[i] = j
							break
						}
					}
				}
			}
			key := "x/evm/keeper.StateTransition." + name + " ≈ geth/core.StateTransition." + name
			var bad []string
			pos := e.Pos(rd.Pos())
			// geth-only statements
			for j, s := range gs {
				if mg[j] {
					continue
				}
				t := s.Text
				rel, why := stateRelevant(t)
				ok := false
				switch {
				case !rel && !strings.HasPrefix(t, "if") && !strings.HasPrefix(t, "}"):
					ok = true // pure local computation dropped (mgval, balanceCheck, effectiveTip, fee …)
				case strings.HasPrefix(t, "if") || strings.HasPrefix(t, "}"):
					// a dropped conditional is fine if everything it guards was dropped too and is itself allowed:
					// guaranteed by each inner statement being judged on its own; the header must not carry a side effect
					ok = !strings.Contains(t, ":=") || !func() bool { b, _ := stateRelevant(strings.TrimPrefix(t, "if ")); return b }()
					if name == "buyGas" && strings.Contains(t, "GetBalance") {
						ok = true // D1: `if have, want := st.state.GetBalance(from), balanceCheck; have.Cmp(want) < 0 {`
					}
				case name == "buyGas" && (why == "state.SubBalance" || why == "state.GetBalance" || (why == "return" && strings.Contains(t, pkgGethCore+".ErrInsufficientFunds"))):
					ok = true // D1
				case name == "TransitionDb" && why == "state.AddBalance" && strings.Contains(t, "#st . evm . Context . Coinbase"):
					ok = true // D4
				case name == "TransitionDb" && why == "state.PrepareAccessList":
					ok = true // D3: judged on the repo side
				case name == "refundGas" && why == "state.AddBalance":
					ok = true // D5: judged on the repo side (must reappear under the flag)
				}
				if !ok {
					bad = append(bad, "reference statement missing or altered in the copy ("+why+"): `"+abbreviate(t)+"` ["+e.Pos(s.Pos)+"]")
				}
			}
			// repo-only statements
			var refundCredit, flagIf bool
			for i, s := range rs {
				if mr[i] {
					continue
				}
				t := s.Text
				ok := false
				switch {
				case name == "TransitionDb" && strings.HasPrefix(t, "#activePrecompiles := append ( ") && strings.Contains(t, pkgGethVM+".ActivePrecompiles ( #rules )") && strings.Contains(t, "GetCustomPrecompiledContractsAddress ( ) ...") && !strings.Contains(t, ";"):
					ok = true // D3
				case name == "TransitionDb" && strings.HasPrefix(t, "#st . state . PrepareAccessList ( ") && strings.Count(t, ",") == 3:
					// same call as the reference with the third argument replaced by the local defined above
					ok = true
					for _, g := range gs {
						if strings.HasPrefix(g.Text, "#st . state . PrepareAccessList ( ") {
							ra, ga := strings.Split(t, " , "), strings.Split(g.Text, " , ")
							ok = len(ra) == 4 && len(ga) == 4 && ra[0] == ga[0] && ra[1] == ga[1] && ra[3] == ga[3] && strings.HasPrefix(ra[2], "#")
						}
					}
				case name == "refundGas" && (t == "if #st . SenderPaidTheFee {" || t == "} // if #st . SenderPaidTheFee {"):
					ok, flagIf = true, true // D5
				case name == "refundGas" && strings.HasPrefix(t, "#st . state . AddBalance ( #st . msg . From ( ) , #"):
					ok, refundCredit = true, true // same statement as the reference (local numbering differs only if moved)
				}
				if !ok {
					bad = append(bad, "statement not in the reference / moved ("+e.Pos(s.Pos)+"): `"+abbreviate(t)+"`")
					pos = e.Pos(s.Pos)
				}
			}
			// NESTING: a matched statement must sit under the same (matched) conditions as in the reference — moving a statement
			// into or out of an `if` keeps the statement order and would otherwise go unnoticed
			{
				matchedR, matchedG := map[string]bool{}, map[string]bool{}
				for i, j := range pairOf {
					matchedR[anonymise(rs[i].Text)] = true
					matchedG[anonymise(gs[j].Text)] = true
				}
				filter := func(ctx []string, m map[string]bool) []string {
					var out []string
					for _, h := range ctx {
						k := anonymise(strings.TrimPrefix(h, "else of "))
						if m[k] {
							out = append(out, anonymise(h))
						}
					}
					return out
				}
				idx := make([]int, 0, len(pairOf))
				for i := range pairOf {
					idx = append(idx, i)
				}
				sort.Ints(idx)
				for _, i := range idx {
					j := pairOf[i]
					cr, cg := filter(rs[i].Ctx, matchedR), filter(gs[j].Ctx, matchedG)
					if strings.Join(cr, " ⊃ ") != strings.Join(cg, " ⊃ ") {
						bad = append(bad, "statement is nested under different conditions than in the reference ("+e.Pos(rs[i].Pos)+"): `"+abbreviate(rs[i].Text)+"` — copy: ["+abbreviate(strings.Join(cr, " ⊃ "))+"], reference: ["+abbreviate(strings.Join(cg, " ⊃ "))+"]")
						pos = e.Pos(rs[i].Pos)
					}
				}
				// a documented repo-only condition (D5) may enclose only the statements the deviation is about: the credit to the
				// sender and the pure local computation feeding it
				for _, s2 := range rs {
					for _, h := range s2.Ctx {
						if h != "if #st . SenderPaidTheFee {" {
							continue
						}
						rel, why := stateRelevant(s2.Text)
						if rel && !strings.HasPrefix(s2.Text, "#st . state . AddBalance ( #st . msg . From ( ) , #") {
							bad = append(bad, "D5 makes only the sender's refund credit conditional on SenderPaidTheFee, but this statement ("+why+") is now under that condition too ("+e.Pos(s2.Pos)+"): `"+abbreviate(s2.Text)+"`")
							pos = e.Pos(s2.Pos)
						}
					}
				}
			}
			if name == "refundGas" {
				// the AddBalance credit must be textually matched (same position relative to its neighbours) — it is matched by
				// LCS when unchanged; if it shows up as repo-only it moved relative to the refund-counter update
				_ = refundCredit
				if !flagIf {
					bad = append(bad, "the refund credit is no longer conditional on SenderPaidTheFee")
				}
			}
			if len(bad) == 0 {
				r.OK(key, pos, itoa(len(rs))+" statements, all matched or in a documented deviation class")
			} else {
				r.Bad(key, pos, "undocumented divergence from go-ethereum's state transition: "+strings.Join(bad, " ‖ "))
			}
		}
		// NewStateTransition: same field wiring
		rd, rp := e.Decl(pkgEvmKeeper, "NewStateTransition")
		gd, gp := e.Decl(pkgGethCore, "NewStateTransition")
		rs, gs := e.canonFunc(rd, rp, neutralSibling), e.canonFunc(gd, gp, neutralSibling)
		ok := len(rs) == len(gs)
		for i := range rs {
			if ok && rs[i].Text != gs[i].Text {
				ok = false
			}
		}
		r.Check(ok, "x/evm/keeper.NewStateTransition ≈ geth/core.NewStateTransition", e.Pos(rd.Pos()), "identical", "the state transition is initialised differently from go-ethereum's")
	})

	sdbMut := []string{"CreateAccount", "SubBalance", "AddBalance", "SetNonce", "SetCode", "SetState", "Suicide"}
	r.Rule("R3", "PAIR", "EIP-158 touch semantics: every StateDB mutator (CreateAccount, SubBalance, AddBalance, SetNonce, SetCode, SetState, Suicide) marks its address as touched on every path, including zero amounts and early returns", 7, func() {
		// "always touches parameter i": every return of the function passes d.touched.Add(param i) — directly or through a
		// private helper of the package that always touches the parameter the address is handed to (summary, any number of sites)
		memo := map[string]int{} // 1 yes, 2 no, 3 in progress
		var alwaysTouches func(fn *ssa.Function, pi int, depth int) bool
		alwaysTouches = func(fn *ssa.Function, pi int, depth int) bool {
			key := fnKey(fn) + "#" + itoa(pi)
			switch memo[key] {
			case 1:
				return true
			case 2, 3:
				return false
			}
			memo[key] = 3
			addr := ssa.Value(fn.Params[pi])
			adds := callsIn(fn, false, func(c ssa.CallInstruction) bool {
				if isCallTo(c, CallSpec{pkgEvmVM, "AccountTracker", "Add"}) && fieldsOnChainHas(c.Common().Args[0], "touched") && resolveLocal(c.Common().Args[1]) == addr {
					return true
				}
				h := c.Common().StaticCallee()
				if depth <= 0 || !privHelper(pkgEvmVM)(h) {
					return false
				}
				for ai, a := range c.Common().Args {
					if resolveLocal(a) == addr && ai < len(h.Params) && alwaysTouches(h, ai, depth-1) {
						return true
					}
				}
				return false
			})
			ok := len(adds) > 0 && len(returnsOf(fn)) > 0
			if ok {
				for _, ret := range returnsOf(fn) {
					pass := false
					for _, a := range adds {
						if passesThrough(fn, ret, a) {
							pass = true
						}
					}
					if !pass {
						ok = false
					}
				}
			}
			if ok {
				memo[key] = 1
			} else {
				memo[key] = 2
			}
			return ok
		}
		for _, m := range sdbMut {
			fn := e.Fn(pkgEvmVM, "cStateDb."+m)
			ok := alwaysTouches(fn, 1, 2)
			r.Check(ok, "touch › cStateDb."+m, e.Pos(fn.Pos()), "d.touched.Add(address) dominates every return", "the mutator can return without marking the account touched: an empty account touched by this operation is not deleted at commit (EIP-158/161 divergence from go-ethereum)")
		}
	})

	r.Rule("R4", "PROVENANCE", "GetCommittedState reads storage with the original (pre-transaction) context and short-circuits to zero only on account identity (absent now, absent before, or re-created: account numbers differ) — never on transaction-scoped StateDB state; every other getter reads the current context", 3, func() {
		fn := e.Fn(pkgEvmVM, "cStateDb.GetCommittedState")
		gs := callsIn(fn, false, func(c ssa.CallInstruction) bool { return isMethodNamed(c, "GetState") })
		ok := len(gs) == 1 && isFieldRead(gs[0].Common().Args[0], "cStateDb", "originalCtx") && resolveLocal(gs[0].Common().Args[1]) == ssa.Value(fn.Params[1]) && resolveLocal(gs[0].Common().Args[2]) == ssa.Value(fn.Params[2])
		r.Check(ok, "x/evm/vm.cStateDb.GetCommittedState › reads the original context", e.Pos(fn.Pos()), "evmKeeper.GetState(d.originalCtx, address, hash)", "committed storage is not read from the pre-transaction context for the requested (address, slot): SSTORE net-gas metering sees the wrong original value")
		txScoped := map[string]bool{"selfDestructed": true, "touched": true, "refund": true, "accessList": true, "logs": true, "transientStorage": true, "snapshots": true}
		inVM := func(f *ssa.Function) bool { return pkgPathOf(f) == pkgEvmVM }
		okIf := true
		why := ""
		nIf := 0
		// conditions of GetCommittedState and of the in-package helpers they are computed by (followed through call results)
		condFns := map[*ssa.Function]bool{fn: true}
		for _, i := range ifs(fn) {
			sl := backSlice(i.Cond, SliceOpts{ThroughCallArgs: alwaysThrough, IntoCallees: inVM, Depth: 3})
			for v := range sl.Vals {
				if in, isI := v.(ssa.Instruction); isI && in.Parent() != nil {
					condFns[in.Parent()] = true
				}
			}
		}
		for f := range condFns {
			for _, i := range ifs(f) {
				nIf++
				sl := backSlice(i.Cond, SliceOpts{ThroughCallArgs: alwaysThrough, IntoCallees: inVM, Depth: 3})
				for v := range sl.Vals {
					if fv := fieldVar(v); fv != nil && txScoped[fv.Name()] {
						if fa, isFA := v.(*ssa.FieldAddr); isFA && namedTypeName(fa.X.Type()) == "cStateDb" {
							okIf, why = false, fv.Name()
						}
					}
				}
				// only account-keeper facts
				if !sl.Has(func(v ssa.Value) bool { c, ok := v.(*ssa.Call); return ok && isMethodNamed(c, "GetAccount") }) {
					okIf, why = false, "a condition not derived from accountKeeper.GetAccount"
				}
			}
		}
		// calls on tx-scoped trackers anywhere in those functions (e.g. d.selfDestructed.Has(addr)) are conditions too
		r.Check(okIf && nIf >= 1, "x/evm/vm.cStateDb.GetCommittedState › short-circuits depend on account identity only", e.Pos(fn.Pos()), itoa(nIf)+" account-identity tests", "GetCommittedState returns the empty value depending on transaction-scoped state ("+why+"): go-ethereum ignores e.g. the self-destructed mark here, so SSTORE gas/refund diverge")
		for _, g := range []struct{ m, callee string }{{"GetState", "GetState"}, {"GetCodeHash", "GetCodeHash"}, {"GetBalance", ""}, {"GetNonce", ""}} {
			f := e.Fn(pkgEvmVM, "cStateDb."+g.m)
			okG := true
			n := 0
			for _, c := range callsIn(f, false, func(c ssa.CallInstruction) bool { return true }) {
				for _, a := range c.Common().Args {
					if v, isCtx := ctxArg(a); isCtx {
						n++
						if !isFieldRead(v, "cStateDb", "currentCtx") {
							okG = false
						}
					}
				}
			}
			if n > 0 {
				r.Check(okG, "getter reads the current context › cStateDb."+g.m, e.Pos(f.Pos()), "d.currentCtx", "a getter reads a context other than the current one")
			}
		}
	})

	r.Rule("R5", "MUST-PASS", "self-destructed accounts still exist until commit (Exist true); Selfdestruct6780 destroys only accounts created in this transaction; AddRefund panics on overflow and SubRefund on underflow before the counter changes", 4, func() {
		ex := e.Fn(pkgEvmVM, "cStateDb.Exist")
		okE := false
		for _, ret := range returnsOf(ex) {
			if b, isK := constBool(ret.Results[0]); isK && b {
				gs := boolCallGuards(ex, true, func(c *ssa.Call) bool {
					return isCallTo(c, CallSpec{pkgEvmVM, "AccountTracker", "Has"}) && fieldsOnChainHas(c.Call.Args[0], "selfDestructed")
				})
				okE = mustPass(ex, ret, gs)
			}
		}
		r.Check(okE, "cStateDb.Exist › true for self-destructed accounts", e.Pos(ex.Pos()), "selfDestructed ⇒ true", "a self-destructed account stops existing before commit (go-ethereum keeps it until the end of the transaction)")
		sd := e.Fn(pkgEvmVM, "cStateDb.Selfdestruct6780")
		okS := false
		inVM := func(f *ssa.Function) bool { return pkgPathOf(f) == pkgEvmVM }
		for _, c := range callsTo(sd, false, CallSpec{pkgEvmVM, "cStateDb", "Suicide"}) {
			// the Suicide call is control-dependent on a test that derives (possibly through an in-package helper) from the
			// account as seen by the original, pre-transaction context — directly, or through a flag variable (phi of constants)
			// whose true edges are control-dependent on such a test
			fromOriginal := func(i *ssa.If) bool {
				sl := backSlice(i.Cond, SliceOpts{ThroughCallArgs: alwaysThrough, IntoCallees: inVM, Depth: 3})
				return sl.Has(func(v ssa.Value) bool {
					cc, ok := v.(*ssa.Call)
					return ok && isMethodNamed(cc, "GetAccount") && callUsesCtxField(cc, "originalCtx")
				})
			}
			controlDep := func(blk *ssa.BasicBlock, i *ssa.If) bool {
				b := i.Block()
				if b.Succs[0] == b.Succs[1] {
					return false
				}
				for k := 0; k < 2; k++ {
					if !reachable(sd, sd.Blocks[0], map[edge]bool{{b.Index, b.Succs[k].Index}: true})[blk] {
						return true
					}
				}
				return false
			}
			for _, i := range ifs(sd) {
				if !controlDep(c.Block(), i) {
					continue
				}
				if fromOriginal(i) {
					okS = true
				}
				if phi, isPhi := i.Cond.(*ssa.Phi); isPhi {
					all := true
					for k, ev := range phi.Edges {
						if bv, isK := constBool(ev); isK && !bv {
							continue
						}
						dep := false
						for _, j := range ifs(sd) {
							if fromOriginal(j) && (j.Block() == phi.Block().Preds[k] || controlDep(phi.Block().Preds[k], j)) {
								dep = true
							}
						}
						if !dep {
							all = false
						}
					}
					if all {
						okS = true
					}
				}
			}
		}
		r.Check(okS, "cStateDb.Selfdestruct6780 › only same-transaction accounts", e.Pos(sd.Pos()), "Suicide only if absent from / re-created since the original context", "EIP-6780 self-destruct can destroy an account that existed before the transaction")
		ar := e.Fn(pkgEvmVM, "cStateDb.AddRefund")
		sr := e.Fn(pkgEvmVM, "cStateDb.SubRefund")
		for _, f := range []*ssa.Function{ar, sr} {
			st := fieldStoresIn(f, f.Params[0], "refund")
			ok := len(st) == 1
			if ok {
				var gs []Guard
				for _, i := range ifs(f) {
					b, isB := i.Cond.(*ssa.BinOp)
					if !isB || b.Op != token.LSS {
						continue
					}
					fail := i.Block().Succs[0]
					if endsInPanicRegion(fail) {
						gs = append(gs, Guard{If: i, Survive: 1})
					}
				}
				ok = mustPass(f, st[0], gs)
			}
			r.Check(ok, fnKey(f)+" › counter guarded", e.Pos(f.Pos()), "overflow/underflow panics before the store", "the refund counter can wrap around")
		}
	})

	r.Rule("R2", "LOOP-COMPLETE", "access-list preparation mirrors go-ethereum's StateDB.PrepareAccessList: sender and destination are warmed, and in the loops over the precompiles and over the transaction's access list every completed iteration has warmed its address and — in the nested loop — every storage key of the entry (the only permitted skip is the zero address of the custom-precompile list); a skipped entry or key is charged cold (2600/2100 instead of 100) although the transaction paid for it in the intrinsic gas", 4, func() {
		pf := e.Fn(pkgEvmVM, "cStateDb.prepareByGoEthereum")
		isAdd := func(c ssa.CallInstruction, nm string) bool {
			return isCallTo(c, CallSpec{pkgEvmVM, "AccessList2", nm})
		}
		reg := e.privateRegion(pf) // the warm-up may live in a single-site private helper
		nAdds := 0
		var probs []string
		inLoop := map[ssa.CallInstruction]bool{}
		for _, f := range reg.Fns {
			loops := loopsOf(f)
			innermost := func(b *ssa.BasicBlock) *Loop {
				var best *Loop
				for _, l := range loops {
					if l.Body[b] && (best == nil || len(l.Body) < len(best.Body)) {
						best = l
					}
				}
				return best
			}
			// zero-address skip: `if addr == (common.Address{}) { continue }` or `if addr != (common.Address{}) { add }`
			type bedge struct{ from, to *ssa.BasicBlock }
			zeroSkip := map[bedge]bool{}
			for _, i := range ifs(f) {
				b, ok := i.Cond.(*ssa.BinOp)
				if !ok || (b.Op != token.EQL && b.Op != token.NEQ) || namedTypePath(b.X.Type()) != GETH+"/common.Address" {
					continue
				}
				isZero := func(v ssa.Value) bool {
					if c, isC := v.(*ssa.Const); isC {
						return c.Value == nil
					}
					if u, isU := v.(*ssa.UnOp); isU && u.Op == token.MUL {
						if a, isA := u.X.(*ssa.Alloc); isA {
							return len(storesTo(a)) == 0
						}
					}
					return false
				}
				if isZero(b.X) || isZero(b.Y) {
					if b.Op == token.EQL {
						zeroSkip[bedge{i.Block(), i.Block().Succs[0]}] = true
					} else {
						zeroSkip[bedge{i.Block(), i.Block().Succs[1]}] = true
					}
				}
			}
			for _, nm := range []string{"AddAddress", "AddSlot"} {
				for _, c := range callsIn(f, false, func(c ssa.CallInstruction) bool { return isAdd(c, nm) }) {
					l := innermost(c.Block())
					if l == nil {
						continue
					}
					inLoop[c] = true
					nAdds++
					// can an iteration of l complete without passing c's block?
					seen := map[*ssa.BasicBlock]bool{}
					var work []*ssa.BasicBlock
					for _, sc := range l.Header.Succs {
						if l.Body[sc] && sc != l.Header {
							work = append(work, sc)
						}
					}
					skipped := false
					for len(work) > 0 {
						b := work[len(work)-1]
						work = work[:len(work)-1]
						if seen[b] || !l.Body[b] || b == c.Block() {
							continue
						}
						if b == l.Header {
							skipped = true
							break
						}
						seen[b] = true
						for _, sc := range b.Succs {
							if !zeroSkip[bedge{b, sc}] { // the zero-address branch may go round without the call
								work = append(work, sc)
							}
						}
					}
					r.Check(!skipped, "prepareByGoEthereum › every iteration reaches "+nm+" ("+e.Pos(c.Pos())+")", e.Pos(c.Pos()), "no path round the loop avoids the call", "an iteration of the warm-up loop can complete without "+nm+": an address or storage key the transaction listed (and paid for) stays cold")
				}
			}
			probs = append(probs, importLoopProblems(e, f)...)
		}
		r.Check(len(probs) == 0 && nAdds >= 3, "prepareByGoEthereum › nested storage-key loop always visited", e.Pos(pf.Pos()), "every access-list entry's keys are walked", "the keys of an access-list entry can be skipped: "+strings.Join(probs, "; "))
		// sender
		nSender := 0
		for _, c := range reg.Calls(func(c ssa.CallInstruction) bool { return isAdd(c, "AddAddress") }) {
			if !inLoop[c] && reg.Resolve(c.Common().Args[1]) == ssa.Value(pf.Params[2]) {
				nSender++
			}
		}
		r.Check(nSender == 1, "prepareByGoEthereum › sender warmed", e.Pos(pf.Pos()), "al.AddAddress(sender) outside any loop", "the sender is not added to the access list")
	})

	r.Rule("R6", "FORK-LINT", "a slice created with a non-zero length and then only appended to leaks its zero-valued prefix: the fork's EVM.GetCustomPrecompiledContractsAddress must not put the zero address into every transaction's warm set", 1, func() {
		fn := e.Fn(pkgGethVM, "EVM.GetCustomPrecompiledContractsAddress")
		bad := false
		allInstrs(fn, false, func(_ *ssa.Function, _ *ssa.BasicBlock, i ssa.Instruction) {
			ms, ok := i.(*ssa.MakeSlice)
			if !ok {
				return
			}
			if k, isK := constInt(ms.Len); isK && k == 0 {
				return
			}
			// only appended to (never indexed for writing)
			indexed := false
			appended := false
			var walk func(v ssa.Value, depth int)
			walk = func(v ssa.Value, depth int) {
				if depth > 4 || v.Referrers() == nil {
					return
				}
				for _, rr := range *v.Referrers() {
					switch x := rr.(type) {
					case *ssa.IndexAddr:
						indexed = true
					case *ssa.Call:
						if b, isB := x.Call.Value.(*ssa.Builtin); isB && b.Name() == "append" && x.Call.Args[0] == v {
							appended = true
							walk(x, depth+1)
						}
					case *ssa.Phi:
						walk(x, depth+1)
					}
				}
			}
			walk(ms, 0)
			if appended && !indexed {
				bad = true
			}
		})
		key := "zero address is not pre-warmed › precompile warm-up"
		if !bad {
			r.OK(key, e.Pos(fn.Pos()), "the fork's address list has no zero prefix")
			return
		}
		// the dependency leaks zero addresses: the repository's warm-up loop must skip them
		pf := e.Fn(pkgEvmVM, "cStateDb.prepareByGoEthereum")
		preg := e.privateRegion(pf)
		pre := ssa.Value(pf.Params[5])
		isZero := func(v ssa.Value) bool {
			v = resolveLocal(v)
			if c, ok := v.(*ssa.Const); ok {
				return c.Value == nil
			}
			if u, ok := v.(*ssa.UnOp); ok && u.Op == token.MUL {
				if a, ok := u.X.(*ssa.Alloc); ok {
					return len(storesTo(a)) == 0
				}
			}
			return false
		}
		n, okAll := 0, true
		for _, c := range preg.Calls(func(c ssa.CallInstruction) bool { return isCallTo(c, CallSpec{pkgEvmVM, "AccessList2", "AddAddress"}) }) {
			arg := c.Common().Args[1]
			if !preg.Slice(arg).HasValue(pre) {
				continue
			}
			n++
			f := c.Parent()
			isElem := func(v ssa.Value) bool {
				return samePath(resolveLocal(v), resolveLocal(arg)) || resolveLocal(v) == resolveLocal(arg)
			}
			gs := eqGuards(f, false, isElem, isZero)
			if !mustPass(f, c, gs) {
				okAll = false
			}
		}
		if n > 0 && okAll {
			r.OK(key, e.Pos(pf.Pos()), "fork list has a zero prefix (dependency defect), skipped by prepareByGoEthereum")
		} else {
			r.Bad(key, e.Pos(fn.Pos()), "the fork's EVM.GetCustomPrecompiledContractsAddress() returns len(contracts) zero addresses before the real ones (make(n)+append) and the warm-up loop adds them all: 0x0 is pre-warmed in every transaction's access list (BALANCE/EXT*/CALL to 0x0 cost 100 gas instead of go-ethereum's 2600)")
		}
	})

	r.Rule("R9", "ALIASING", "go-ethereum journals access-list and transient-storage changes and undoes them when a frame reverts; here that is done by value copies in Snapshot/RevertToSnapshot, so AccessList2.Copy and TransientStorage.Copy must be deep (no shared inner map), else a slot warmed or a transient value written in a reverted frame survives (gas differs from go-ethereum)", 2, func() {
		ma := &mutationAnalysis{e: e, pkg: pkgEvmVM, memo: map[*ssa.Function]int{}}
		for _, q := range []string{"AccessList2.Copy", "TransientStorage.Copy"} {
			fn := e.TryFn(pkgEvmVM, q)
			if fn == nil {
				fn = e.Fn(pkgEvmVM, strings.Replace(q, "TransientStorage", "transientStorage", 1))
			}
			al, why := ma.copyAliases(fn, 2)
			r.Check(!al, "deep copy › x/evm/vm."+q, e.Pos(fn.Pos()), "fresh outer and inner maps", "the copy shares reference-typed parts with the original ("+why+"): state added inside a reverted call frame leaks into the snapshot and survives the revert")
		}
	})

	r.Rule("R8", "FIELD-WRITERS", "the EVM block context built in Keeper.NewEVM: CanTransfer/Transfer are go-ethereum's; BlockNumber ← ctx.BlockHeight(); Time ← ctx.BlockHeader().Time; BaseFee ← cfg.BaseFee; Coinbase ← cfg.CoinBase; GasLimit ← BlockGasLimit(ctx); GetHash ← k.GetHashFn(ctx)", 8, func() {
		ne := e.Fn(pkgEvmKeeper, "Keeper.NewEVM")
		ctxP := ssa.Value(ne.Params[1])
		var lit map[string]ssa.Value
		allInstrs(ne, false, func(_ *ssa.Function, _ *ssa.BasicBlock, i ssa.Instruction) {
			if a, ok := i.(*ssa.Alloc); ok && namedTypePath(a.Type()) == pkgGethVM+".BlockContext" {
				lit = literalFields(a)
			}
		})
		if lit == nil {
			r.Bad("NewEVM › BlockContext literal", e.Pos(ne.Pos()), "no BlockContext literal found")
			return
		}
		isFn := func(v ssa.Value, pkg, name string) bool {
			v = strip(v)
			f, ok := v.(*ssa.Function)
			return ok && f.Name() == name && pkgPathOf(f) == pkg
		}
		onCtx := func(v ssa.Value, method string) bool {
			return sliceFrom(v).Has(func(x ssa.Value) bool {
				c, ok := x.(*ssa.Call)
				return ok && isCallTo(c, CallSpec{pkgSdkTypes, "Context", method}) && resolveLocal(c.Call.Args[0]) == ctxP
			})
		}
		noClock := func(v ssa.Value) bool { return !sliceFrom(v).HasCall(CallSpec{"time", "", "Now"}) }
		r.Check(isFn(lit["CanTransfer"], pkgGethCore, "CanTransfer"), "NewEVM › CanTransfer", e.Pos(ne.Pos()), "core.CanTransfer", "CanTransfer is not go-ethereum's")
		r.Check(isFn(lit["Transfer"], pkgGethCore, "Transfer"), "NewEVM › Transfer", e.Pos(ne.Pos()), "core.Transfer", "value transfer is not go-ethereum's debit+credit")
		r.Check(lit["BlockNumber"] != nil && onCtx(lit["BlockNumber"], "BlockHeight"), "NewEVM › BlockNumber", e.Pos(ne.Pos()), "ctx.BlockHeight()", "NUMBER does not come from the block height")
		r.Check(lit["Time"] != nil && onCtx(lit["Time"], "BlockHeader") && noClock(lit["Time"]), "NewEVM › Time", e.Pos(ne.Pos()), "ctx.BlockHeader().Time", "TIMESTAMP does not come from the block header")
		r.Check(lit["BaseFee"] != nil && hasFieldLoad(sliceFrom(lit["BaseFee"]), "EVMConfig", "BaseFee"), "NewEVM › BaseFee", e.Pos(ne.Pos()), "cfg.BaseFee", "BASEFEE does not come from the EVM config")
		r.Check(lit["Coinbase"] != nil && hasFieldLoad(sliceFrom(lit["Coinbase"]), "EVMConfig", "CoinBase"), "NewEVM › Coinbase", e.Pos(ne.Pos()), "cfg.CoinBase", "COINBASE does not come from the EVM config")
		r.Check(lit["GasLimit"] != nil && sliceFrom(lit["GasLimit"]).HasCall(CallSpec{EV + "/types", "", "BlockGasLimit"}) && sliceFrom(lit["GasLimit"]).HasValue(ctxP), "NewEVM › GasLimit", e.Pos(ne.Pos()), "BlockGasLimit(ctx)", "GASLIMIT does not come from the consensus parameters")
		r.Check(lit["GetHash"] != nil && sliceFrom(lit["GetHash"]).HasCall(CallSpec{pkgEvmKeeper, "Keeper", "GetHashFn"}), "NewEVM › GetHash", e.Pos(ne.Pos()), "k.GetHashFn(ctx)", "BLOCKHASH does not come from the keeper's hash function")
	})

	r.Rule("R11", "PAIR", "SELFDESTRUCT semantics of go-ethereum's StateDB.Suicide: every call that reports success has zeroed the account's balance (also a repeated SELFDESTRUCT of a contract that was re-funded in between) — opSelfdestruct credits the beneficiary with the balance first, so a success without the debit duplicates it", 1, func() {
		fn := e.Fn(pkgEvmVM, "cStateDb.Suicide")
		r.Check(suicideClearsBalance(e), "x/evm/vm.cStateDb.Suicide › success ⇒ balance cleared (as geth)", e.Pos(fn.Pos()), "every `true` return passed SubBalance(address, GetBalance(address)) or found the balance zero", "Suicide can report success without zeroing the balance: go-ethereum zeroes it on every call, so balances diverge from the reference (and coins are duplicated) when a contract self-destructs again after being re-funded in the same transaction")
	})

	r.Rule("R10", "KEY-INJECTIVE", "contract storage and code are keyed injectively: StateKey(address, slot) = prefix ‖ address ‖ slot, AddressStoragePrefix(address) = prefix ‖ address (go-ethereum keeps one storage trie per account: no two (account, slot) pairs may share a record)", 2, func() {
		e.checkKeyBuilders(r, pkgEvmTypes, []string{"AddressStoragePrefix", "StateKey"}, "two different (account, slot) pairs share one storage record: SSTORE in one contract changes what SLOAD returns in another")
	})
}

func abbreviate(s string) string {
	if len(s) > 160 {
		return s[:160] + "…"
	}
	return s
}

// fieldsOnChainHas: the value is reached through a field named `name` (e.g. d.touched).
func fieldsOnChainHas(v ssa.Value, name string) bool {
	return hasFieldLoad(sliceFrom(v), "", name)
}

// callUsesCtxField: some context operand of the call is a read of cStateDb.<field>.
func callUsesCtxField(c ssa.CallInstruction, field string) bool {
	cc := c.Common()
	ops := append([]ssa.Value{}, cc.Args...)
	if cc.IsInvoke() {
		ops = append(ops, cc.Value)
	}
	for _, a := range ops {
		if v, ok := ctxArg(a); ok && isFieldRead(v, "cStateDb", field) {
			return true
		}
	}
	return false
}

func textsOf(cs []canonStmt) []string {
	out := make([]string, len(cs))
	for i, c := range cs {
		out[i] = c.Text
	}
	return out
}

// deliveryFlagScope: execution must not depend on flags that only the delivery path raises. The one documented exception is the
// sender's refund credit in refundGas (D5). Returns the state-relevant statements of the copied state transition that are
// nested under `if st.SenderPaidTheFee` other than that credit.
func deliveryFlagScope(e *Engine) (offenders []string, nUnder int) {
	for _, name := range []string{"to", "buyGas", "preCheck", "TransitionDb", "refundGas", "gasUsed"} {
		rd, rp := e.Decl(pkgEvmKeeper, "StateTransition."+name)
		for _, s2 := range e.canonFunc(rd, rp, neutralSibling) {
			for _, h := range s2.Ctx {
				if !strings.Contains(h, "SenderPaidTheFee") {
					continue
				}
				nUnder++
				rel, why := stateRelevant(s2.Text)
				if rel && !(name == "refundGas" && strings.HasPrefix(s2.Text, "#st . state . AddBalance ( #st . msg . From ( ) , #")) {
					offenders = append(offenders, "StateTransition."+name+" ("+why+") at "+e.Pos(s2.Pos)+": `"+abbreviate(s2.Text)+"`")
				}
			}
		}
	}
	return
}

package main

import (
	"go/token"
	"go/types"
	"strings"

	"golang.org/x/tools/go/ssa"
)

// KEY-INJECTIVE: a store-key builder `func K(p1 … pn) []byte` must map different argument tuples to different keys, or two
// records share one slot (a proof found for an address that never proved anything, an allowance shared by two spenders, a
// receipt slot shared by two transactions). The rule decides a structural sufficient form that all key builders of the
// repository have: the key is a concatenation  prefix ‖ part1 ‖ … ‖ partk  in which
//   - the first element is a key-prefix global (or an empty make, or the result of another key builder of the same form),
//   - every part is an injective encoding of ONE parameter: x.Bytes() of a fixed-size array type (common.Address/Hash),
//     AccAddress.Bytes() / []byte(x) / x itself for byte strings, sdk.Uint64ToBigEndian(x) for integers, x[:] of an array,
//   - every parameter contributes a part,
//   - at most one part has variable length and it is the last one (fixed-length parts cannot shift a boundary).
// Anything else — a truncating conversion such as common.BytesToAddress, a sub-slice, a hash, a dropped parameter — is
// reported with the offending value. The listed encodings were enumerated from the repository's key files and confirmed by
// reading; sdk address.LengthPrefix / MustLengthPrefix are accepted as making a variable part self-delimiting.

type keyPart struct {
	param    *ssa.Parameter
	variable bool
}

func (e *Engine) keyInjective(fn *ssa.Function) (bool, string) {
	rets := returnsOf(fn)
	if len(rets) == 0 {
		return false, "no return"
	}
	for _, ret := range rets {
		if len(ret.Results) != 1 {
			return false, "unexpected result arity"
		}
		parts, why := e.keyParts(fn, ret.Results[0], 0)
		if why != "" {
			return false, why
		}
		used := map[*ssa.Parameter]bool{}
		for i, p := range parts {
			used[p.param] = true
			if p.variable && i != len(parts)-1 {
				return false, "a variable-length part (" + p.param.Name() + ") is followed by another part without a length prefix: two different argument tuples can concatenate to the same key"
			}
		}
		for _, p := range fn.Params {
			if !used[p] {
				return false, "parameter " + p.Name() + " does not contribute to the key: records that differ only in it share one slot"
			}
		}
	}
	return true, ""
}

// keyParts decomposes a key expression into its parts (the prefix contributes none).
func (e *Engine) keyParts(fn *ssa.Function, v ssa.Value, depth int) ([]keyPart, string) {
	if depth > 12 {
		return nil, "expression too deep"
	}
	v = keyResolve(v)
	switch x := v.(type) {
	case *ssa.Call:
		if b, ok := x.Call.Value.(*ssa.Builtin); ok && b.Name() == "append" && len(x.Call.Args) == 2 {
			base, why := e.keyParts(fn, x.Call.Args[0], depth+1)
			if why != "" {
				return nil, why
			}
			tail, why := e.keyTail(fn, x.Call.Args[1], depth+1)
			if why != "" {
				return nil, why
			}
			return append(base, tail...), ""
		}
		// another key builder of the repository: its parameters are parts in its own order (it must be of the form itself)
		if sc := x.Call.StaticCallee(); sc != nil && sc.Blocks != nil && e.RepoOwned(pkgPathOf(sc)) && isByteSlice(sc.Signature.Results().At(0).Type()) && sc.Signature.Results().Len() == 1 {
			ok, why := e.keyInjective(sc)
			if !ok {
				return nil, fnKey(sc) + ": " + why
			}
			inner, _ := e.keyPartsOfBuilder(sc)
			var out []keyPart
			for _, ip := range inner {
				idx := paramIndex(ip.param)
				if idx < 0 || idx >= len(x.Call.Args) {
					return nil, "cannot bind the parameters of " + fnKey(sc)
				}
				sub, why := e.keyLeaf(fn, x.Call.Args[idx], ip.variable)
				if why != "" {
					return nil, why
				}
				out = append(out, sub)
			}
			return out, ""
		}
		return nil, "the key starts with the result of " + keyCalleeName(x) + ", not with a key prefix"
	case *ssa.UnOp:
		if x.Op == token.MUL {
			if g, ok := x.X.(*ssa.Global); ok && e.RepoOwned(g.Pkg.Pkg.Path()) {
				return nil, "" // key-prefix global
			}
		}
	case *ssa.MakeSlice:
		if k, ok := constInt(x.Len); ok && k == 0 {
			return nil, ""
		}
		return nil, "key buffer is not empty at creation"
	case *ssa.Slice:
		// prefix[:len:len] style re-slicing of a global prefix
		if x.Low == nil {
			return e.keyParts(fn, x.X, depth+1)
		}
	}
	return nil, "the key does not start with a key-prefix global (" + v.String() + ")"
}

func (e *Engine) keyPartsOfBuilder(fn *ssa.Function) ([]keyPart, string) {
	rets := returnsOf(fn)
	if len(rets) == 0 {
		return nil, "no return"
	}
	return e.keyParts(fn, rets[0].Results[0], 0)
}

// keyTail: the spread argument of append(base, tail...): a prefix global (no part), or one leaf.
func (e *Engine) keyTail(fn *ssa.Function, v ssa.Value, depth int) ([]keyPart, string) {
	r := keyResolve(v)
	if u, ok := r.(*ssa.UnOp); ok && u.Op == token.MUL {
		if g, isG := u.X.(*ssa.Global); isG && e.RepoOwned(g.Pkg.Pkg.Path()) {
			return nil, ""
		}
	}
	p, why := e.keyLeaf(fn, v, false)
	if why != "" {
		return nil, why
	}
	return []keyPart{p}, ""
}

// keyLeaf: v is an injective encoding of exactly one parameter of fn.
func (e *Engine) keyLeaf(fn *ssa.Function, v ssa.Value, forceVariable bool) (keyPart, string) {
	v = keyResolve(v)
	switch x := v.(type) {
	case *ssa.Parameter:
		if x.Parent() != fn {
			break
		}
		return keyPart{param: x, variable: forceVariable || !isFixedSize(x.Type())}, ""
	case *ssa.Convert: // []byte(string), AccAddress → []byte
		return e.keyLeaf(fn, x.X, forceVariable)
	case *ssa.ChangeType:
		return e.keyLeaf(fn, x.X, forceVariable)
	case *ssa.Slice:
		// arr[:] of a fixed-size array parameter
		if x.Low == nil && x.High == nil && x.Max == nil {
			in := x.X
			if a, ok := in.(*ssa.Alloc); ok {
				if st := storesTo(a); len(st) == 1 {
					in = st[0].Val
				}
			}
			if p, ok := keyResolve(in).(*ssa.Parameter); ok && p.Parent() == fn && isFixedSize(p.Type()) {
				return keyPart{param: p}, ""
			}
			return e.keyLeaf(fn, x.X, forceVariable)
		}
		return keyPart{}, "a sub-slice of the data is used as key part (truncation: different arguments can share a key)"
	case *ssa.Call:
		fo := calleeObj(x)
		if fo == nil {
			break
		}
		pkg := ""
		if fo.Pkg() != nil {
			pkg = fo.Pkg().Path()
		}
		recvT := ""
		if sig, ok := fo.Type().(*types.Signature); ok && sig.Recv() != nil {
			recvT = namedTypeName(sig.Recv().Type())
		}
		switch {
		case fo.Name() == "Bytes" && (pkg == GETH+"/common" && (recvT == "Address" || recvT == "Hash")):
			p, why := e.keyLeaf(fn, x.Call.Args[0], false)
			if why != "" {
				return keyPart{}, why
			}
			p.variable = false
			return p, ""
		case fo.Name() == "Bytes" && pkg == pkgSdkTypes && (recvT == "AccAddress" || recvT == "ValAddress" || recvT == "ConsAddress"):
			p, why := e.keyLeaf(fn, x.Call.Args[0], true)
			return p, why
		case pkg == pkgSdkTypes && fo.Name() == "Uint64ToBigEndian":
			p, why := e.keyLeaf(fn, x.Call.Args[0], false)
			if why != "" {
				return keyPart{}, why
			}
			p.variable = false
			return p, ""
		case strings.HasSuffix(pkg, "cosmos-sdk/types/address") && (fo.Name() == "LengthPrefix" || fo.Name() == "MustLengthPrefix"):
			p, why := e.keyLeaf(fn, x.Call.Args[0], false)
			if why != "" {
				return keyPart{}, why
			}
			p.variable = false // self-delimiting
			return p, ""
		}
		return keyPart{}, "a key part is the result of " + keyCalleeName(x) + ", which is not a listed injective encoding of a parameter (e.g. common.BytesToAddress keeps only the last 20 bytes)"
	}
	return keyPart{}, "a key part does not derive from a parameter by a listed injective encoding (" + v.String() + ")"
}

// keyResolve follows single-store spills only (conversions are significant here).
func keyResolve(v ssa.Value) ssa.Value {
	for i := 0; i < 8; i++ {
		u, ok := v.(*ssa.UnOp)
		if !ok || u.Op != token.MUL {
			return v
		}
		a, ok := u.X.(*ssa.Alloc)
		if !ok {
			return v
		}
		st := storesTo(a)
		if len(st) != 1 {
			return v
		}
		v = st[0].Val
	}
	return v
}

func isByteSlice(t types.Type) bool {
	s, ok := t.Underlying().(*types.Slice)
	return ok && types.Identical(s.Elem().Underlying(), types.Typ[types.Byte])
}

func isFixedSize(t types.Type) bool {
	switch u := t.Underlying().(type) {
	case *types.Array:
		return true
	case *types.Basic:
		return u.Info()&types.IsInteger != 0
	}
	return false
}

func keyCalleeName(c *ssa.Call) string {
	if fo := calleeObj(c); fo != nil {
		if fo.Pkg() != nil {
			return fo.Pkg().Name() + "." + fo.Name()
		}
		return fo.Name()
	}
	return c.Call.Value.String()
}

// checkKeyBuilders adds one obligation per key builder.
func (e *Engine) checkKeyBuilders(r *Report, pkg string, names []string, consequence string) {
	for _, nm := range names {
		fn := e.Fn(pkg, nm)
		ok, why := e.keyInjective(fn)
		r.Check(ok, "key builder › "+shortPkg(pkg)+"."+nm, e.Pos(fn.Pos()), "prefix ‖ injective encodings of every parameter, variable-length part last", "the store key is not provably injective in its arguments: "+why+" — "+consequence)
	}
}
